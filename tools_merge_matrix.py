#!/usr/bin/env python3
"""tools_merge_matrix.py LOG...  -- merges the lines `<name> <result>` printed by tools_seed_matrix.py runs that overlapped
in time (each run rewrites seeded/RESULTS.json from its own copy) back into seeded/RESULTS.json"""
import json, re, sys
from pathlib import Path
p = Path(__file__).resolve().parent / "seeded" / "RESULTS.json"
res = json.loads(p.read_text()) if p.exists() else {}
for log in sys.argv[1:]:
    for l in Path(log).read_text().splitlines():
        m = re.match(r"^(C\d\d-\S+) (.*)$", l)
        if not m:
            continue
        name, r = m.groups()
        rc = 0 if r.startswith("MISSED") else 1
        res[name] = dict(result=r, rc=rc)
p.write_text(json.dumps(res, indent=1, sort_keys=True))
print(len(res), "entries;", sum(1 for v in res.values() if v["result"].startswith("caught with")), "concrete,",
      sum(1 for v in res.values() if "no-failing" in v["result"]), "nfi,", sum(1 for v in res.values() if v["result"].startswith("MISSED")), "missed")
