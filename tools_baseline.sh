#!/bin/bash
# runs the repository's pinned test-suite (guard off; there are no hooks) and compares with BASELINE.json
out=${1:-/tmp/bl/run.junit.xml}
mkdir -p "$(dirname "$out")"
cd /repo && /venv/bin/python -m pytest -ra -q -p no:cacheprovider --timeout=900 --continue-on-collection-errors --junitxml="$out" > "${out%.xml}.log" 2>&1
python3 - "$out" <<'PY'
import json, sys, xml.etree.ElementTree as ET
base = set(json.load(open("/root/.vp/BASELINE.json"))["stable_pass"])
passed, failed = set(), set()
for tc in ET.parse(sys.argv[1]).getroot().iter("testcase"):
    tid = (tc.get("classname") or "") + "::" + (tc.get("name") or "")
    if tc.find("failure") is not None or tc.find("error") is not None: failed.add(tid)
    elif tc.find("skipped") is None: passed.add(tid)
missing = sorted(base - passed)
print(f"baseline {len(base)} passed-now {len(passed)} failed-now {len(failed)} baseline-tests-not-passing {len(missing)}")
for m in missing[:40]: print("  MISSING", m)
PY
