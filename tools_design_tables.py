#!/usr/bin/env python3
"""Rewrites the auto-generated tables of DESIGN.md §13 (findings / fixes / seeded changes) from
known_findings*.json, seeded/*/meta.json + confirm.json and seeded/RESULTS.json."""
import glob
import json
import re
from pathlib import Path

HERE = Path(__file__).resolve().parent


def findings():
    rows = []
    files = [HERE / "known_findings.json"] + sorted((HERE / "known_findings.d").glob("*.json"))
    for fp in files:
        for f in json.loads(fp.read_text()).get("findings", []):
            rows.append(f)
    return rows


def short(s, n=230):
    s = " ".join(str(s).split())
    s = re.sub(r"^fixed: property=C\d+ [0-9a-f]+ ", "", s)
    return (s[: n - 1] + "…") if len(s) > n else s


def table_findings():
    rows = findings()
    out = ["| Property | Id | Status | Where / what fails |", "|---|---|---|---|"]
    for f in sorted(rows, key=lambda f: (f["property"], f["status"], f["id"])):
        st = f["status"] + (f" `{f['commit']}`" if f.get("commit") else "")
        out.append(f"| {f['property']} | {f['id']} | {st} | {short(f.get('what', ''))} |")
    nfix = sum(1 for f in rows if f["status"] == "fixed")
    out.append("")
    out.append(f"{len(rows)} entries: {nfix} repaired by `fix:` commits in /repo, {len(rows) - nfix} recorded as known findings.")
    return "\n".join(out)


def table_seeded():
    res_p = HERE / "seeded" / "RESULTS.json"
    res = json.loads(res_p.read_text()) if res_p.exists() else {}
    out = ["| Seeded change | Property | What it changes / needs | Confirmed | Caught by `./check` (quick) |", "|---|---|---|---|---|"]
    for d in sorted(glob.glob(str(HERE / "seeded" / "*" / "meta.json"))):
        name = Path(d).parent.name
        meta = json.loads(Path(d).read_text())
        conf_p = Path(d).parent / "confirm.json"
        conf = json.loads(conf_p.read_text()) if conf_p.exists() else {}
        r = res.get(name, {})
        caught = r.get("result", "not run yet")
        out.append(
            f"| {name} | {meta.get('property', name[:3])} | {short(meta.get('summary', ''), 200)} | "
            f"{'yes' if conf.get('confirmed') else 'no'} | {caught} |"
        )
    return "\n".join(out)


def as_built():
    out = []
    for i in range(1, 21):
        pid = f"C{i:02d}"
        mp = HERE / "manifest.d" / f"{pid}.json"
        ep = HERE / "evidence" / f"{pid}.json"
        if not mp.exists():
            out.append(f"**{pid}** — not claimed.\n")
            continue
        m = json.loads(mp.read_text())
        ths, nob, ndis = [], 0, 0
        if ep.exists():
            cov = json.loads(ep.read_text()).get("coverage", {})
            ths = [t.split(".")[-1] for t in cov.get("theorems", [])]
            nob, ndis = cov.get("obligations", 0), cov.get("discharged", 0)
        out.append(f"**{pid}** — {ndis}/{nob} property theorems discharged: " + ", ".join(f"`{t}`" for t in ths) + ".\n")
        out.append("*Claim.* " + " ".join(m.get("text", "").split()) + "\n")
        out.append("*Trusted / modelled rather than verified.* " + " ".join(m.get("note", "").split()) + "\n")
    return "\n".join(out)


def main():
    p = HERE / "DESIGN.md"
    s = p.read_text()
    for tag, body in (("findings", table_findings()), ("seeded", table_seeded()), ("asbuilt", as_built())):
        b, e = f"<!-- BEGIN AUTO:{tag} -->", f"<!-- END AUTO:{tag} -->"
        if b not in s:
            s += f"\n{b}\n{e}\n"
        s = re.sub(re.escape(b) + r".*?" + re.escape(e), lambda m: b + "\n" + body + "\n" + e, s, flags=re.S)
    p.write_text(s)


if __name__ == "__main__":
    main()
