"""C07 helpers: toy Defn graphs on the REAL ParameterController (dirty-set propagation)."""
from __future__ import annotations

import warnings

MOD = 1000003


def rand_ctl_case(rng, failing=False):
    """failing=True: some derived definitions raise ValueError for some argument values (their
    update() fails in the middle of the walk over the dirty definitions)"""
    n_leaf = rng.randint(1 + failing, 4)
    n_der = rng.randint(1, 7)
    nodes = [dict(k="leaf", name=f"p{i}", v=rng.randint(0, 6)) for i in range(n_leaf)]
    for i in range(n_der):
        k = len(nodes)
        na = rng.randint(1, min(3, k))
        args = sorted(set(rng.randrange(max(0, k - 4), k) if rng.random() < 0.7 else rng.randrange(k) for _ in range(na)))
        nd = dict(k="derived", name=f"d{i}", args=args, salt=rng.randint(0, 40), mult=rng.choice([1, 2, 3, 7]))
        if failing and rng.random() < 0.45:
            nd["rmod"] = rng.choice([3, 4, 5])
            nd["rres"] = rng.randrange(nd["rmod"])
        nodes.append(nd)
    # every definition must be used: the top definition takes all otherwise unused ones as arguments
    used = set(a for nd in nodes if nd["k"] == "derived" for a in nd["args"])
    top = nodes[-1]
    top["args"] = sorted(set(top["args"]) | {i for i in range(len(nodes) - 1) if i not in used})
    ops = []
    depth = 0
    for _ in range(rng.randint(4, 30)):
        r = rng.random()
        if r < 0.6:
            ops.append(["assign", rng.randrange(n_leaf), rng.randint(0, 6)])
        elif r < 0.78:
            ops.append(["enter"])
            depth += 1
        elif depth and r < 0.96:
            ops.append(["exit"])
            depth -= 1
        elif depth:
            ops.append(["xexit"])
            depth -= 1
        else:
            ops.append(["assign", rng.randrange(n_leaf), rng.randint(0, 6)])
    while depth:
        ops.append(["exit"])
        depth -= 1
    return dict(nodes=nodes, ops=ops)


def _calc(node):
    salt, mult = node["salt"], node["mult"]
    rmod, rres = node.get("rmod", 0), node.get("rres", 0)

    def f(*xs):
        t = sum((i + 3) * int(x) for i, x in enumerate(xs))
        v = (t * mult + salt) % MOD
        if rmod and v % rmod == rres:
            raise ValueError("toy definition cannot be updated")
        return float(v)

    return f


def exceptional_exit_restores():
    """probe the implementation: does leaving updates_postponed() by an exception restore the flag?
    (pinned code: no -> model op `xexit`; with try/finally: yes -> the event is a model `exit`)"""
    from cogent3.recalculation.definition import CalcDefn, ParamDefn
    from cogent3.recalculation.scope import ParameterController

    a = ParamDefn("a", default=1.0, lower=-1e9, upper=1e9)
    pc = ParameterController(CalcDefn(lambda x: x + 1.0, name="b")(a))
    try:
        with pc.updates_postponed():
            raise KeyError("probe")
    except KeyError:
        pass
    return not pc._update_suspended


def run_real_ctl(case, xexit_as="xexit"):
    """-> (lean request dict, init snapshot, [step snapshots]) using the controller's own defn order"""
    from cogent3.recalculation.definition import CalcDefn, ParamDefn
    from cogent3.recalculation.scope import ParameterController

    nodes = case["nodes"]
    objs = []
    for nd in nodes:
        if nd["k"] == "leaf":
            objs.append(ParamDefn(nd["name"], default=float(nd["v"]), lower=-1e9, upper=1e9))
        else:
            objs.append(CalcDefn(_calc(nd), name=nd["name"])(*[objs[a] for a in nd["args"]]))
    with warnings.catch_warnings():
        warnings.simplefilter("ignore")
        pc = ParameterController(objs[-1])
    order = [d.name for d in pc.defns]
    idx = {name: i for i, name in enumerate(order)}
    by_name = {nd["name"]: nd for nd in nodes}
    defns = []
    for name in order:
        nd = by_name[name]
        if nd["k"] == "leaf":
            defns.append(dict(k="leaf"))
        else:
            defns.append(dict(k="derived", args=[idx[nodes[a]["name"]] for a in nd["args"]], salt=nd["salt"], mult=nd["mult"],
                              rmod=nd.get("rmod", 0), rres=nd.get("rres", 0)))
    settings = [by_name[name].get("v", 0) for name in order]
    id2idx = {id(d): i for i, d in enumerate(pc.defns)}

    def snap():
        return dict(
            values=[int(d.values[0]) for d in pc.defns],
            changed=sorted(id2idx[i] for i in pc._changed),
            suspended=bool(pc._update_suspended),
            depth=len(frames),
        )

    frames = []
    init = snap()
    steps = []
    lean_ops = []
    for op in case["ops"]:
        raised = False
        if op[0] == "assign":
            name = nodes[op[1]]["name"]
            if name not in idx:  # leaf not reachable from the top definition
                continue
            lean_ops.append(["assign", idx[name], op[2]])
            try:
                pc.assign_all(name, value=float(op[2]))
            except ValueError:
                raised = True
        elif op[0] == "assignd":
            # assign_all on a DERIVED definition: must raise ValueError before touching anything
            name = nodes[op[1]]["name"]
            lean_ops.append(["assign", idx[name], op[2]])
            try:
                pc.assign_all(name, value=float(op[2]))
            except ValueError:
                raised = True
        elif op[0] == "handback":
            # what optimise() does: a calculator is made from the controller (every definition recomputed), moved
            # to another point, and the controller takes its values back (update_from_calculator)
            import numpy

            lc = pc.make_calculator()
            lean_ops.append(["mkcalc"])
            steps.append(dict(snap(), raised=False))
            x = [float((int(v) + 1 + op[1] * (i + 1)) % 7) for i, v in enumerate(lc.get_value_array())]
            cv = [0] * len(order)
            for par, v in zip(lc.opt_pars, x):
                cv[idx[par.name]] = int(v)
            lean_ops.append(["fromcalc", cv])
            try:
                lc(numpy.array(x))
                pc.update_from_calculator(lc)
            except ValueError:
                raised = True
        elif op[0] == "updall":
            lean_ops.append(["updall"])
            try:
                pc.update_intermediate_values()
            except ValueError:
                raised = True
        elif op[0] == "enter":
            cm = pc.updates_postponed()
            cm.__enter__()
            frames.append(cm)
            lean_ops.append(["enter"])
        elif op[0] == "exit":
            lean_ops.append(["exit"])
            try:
                frames.pop().__exit__(None, None, None)
            except ValueError:
                raised = True
        else:
            cm = frames.pop()
            lean_ops.append([xexit_as])
            try:
                exc = KeyError("raised inside the block")
                cm.__exit__(KeyError, exc, None)
            except KeyError:
                pass
            except ValueError:
                raised = True
        steps.append(dict(snap(), raised=raised))
    return dict(defns=defns, settings=settings, ops=lean_ops), init, steps


def fresh_values(req, settings):
    """independent oracle: every definition recomputed from the given leaf settings"""
    vals = []
    for i, d in enumerate(req["defns"]):
        if d["k"] == "leaf":
            vals.append(settings[i])
        else:
            t = sum((j + 3) * vals[a] for j, a in enumerate(d["args"]))
            v = (t * d["mult"] + d["salt"]) % MOD
            if d.get("rmod") and v % d["rmod"] == d["rres"]:
                return None
            vals.append(v)
    return vals
