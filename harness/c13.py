"""C13 — Data stores hold exactly what was written, record by record.

Tie: the Lean state machines (Model/DataStore.lean, Model/DataStoreSqlite.lean) are run on the
same operation histories as real DataStoreDirectory / DataStoreSqlite objects (on scratch
directories) and the per-operation results + observations are compared; the Lean naming layer
is compared with the real string / pathlib / regex functions on an exhaustive box of short
strings; the Lean dictionary spec is compared with the Python dictionary oracle.
Failing-input search: real stores against the Python dictionary oracle.
"""
from __future__ import annotations

import hashlib
import itertools
import os
import re
import shutil

from .common import LEAN, SRC, VERIF, add_failure, bump, new_outcome

PROP = "C13"
PROPS_FILES = ["CogentModel/Props/C13.lean", "CogentModel/Props/C13Gen.lean", "CogentModel/Props/C13Zip.lean"]
LEAN_TARGETS = ["CogentModel.Props.C13", "CogentModel.Props.C13Gen", "CogentModel.Props.C13Zip"]
DRIVER = "drv_c13"
TRUSTED = [
    "hand-written models lean/CogentModel/Model/DataStore.lean (DataStoreDirectory over an abstract file system, "
    "incl. the List-Char mirrors of str.replace / in / endswith / pathlib stem,suffixes / get_format_suffixes / the two regexes) "
    "and Model/DataStoreSqlite.lean (DataStoreSqlite over an abstract results table), tied by per-operation correspondence "
    "on random histories against the real stores and by an exhaustive short-string correspondence of the naming layer",
    "translator/c13_names2lean.py (AST translation of the naming slice of DataStoreDirectory into Gen/C13Names.lean, conventions N1-N4 in its header; "
    "get_format_suffixes, str.replace, pathlib stem/name and the regex primitives stay hand models tied by the short-string stream)",
    "translator/c13_fmt2lean.py (get_format_suffixes -> Gen/C13Fmt.lean, conventions F1-F4: pathlib suffix/suffixes, the regex ^\\., lower(), "
    "list indexing; each tied to the real function by the `fmt` stream) and translator/c13_sql2lean.py (DataStoreSqlite guards, identifier rewriting, "
    "SQL column/value pairing and statement order -> Gen/C13Sql.lean, conventions S1-S3; SQL text read in four fixed shapes only)",
    "Model/DataStoreZip.lean (ReadOnlyDataStoreZipped listing over a list of archive entry names), tied on real zip archives of real stores",
    "Spec/DataStoreDict.lean (two dictionaries, one-line semantics per operation), tied to the Python oracle of spec_check on the same histories",
    "the OS file system, pathlib.glob, sqlite3, gzip and md5 are modelled (association lists, abstract checksum function), not verified",
]
ASSUMPTIONS = [
    "identifiers are non-empty, do not start with '.' or '/', and are lower-case ASCII [a-z0-9_.-] (the generated domain), plus the "
    "spellings 'results/<id>', 'logs/<id>' (SQLite) and 'sub/<id>' (directory store), and one record under several spellings (bare, '<id>.<suffix>', "
    "another format's extension); store suffixes are 'fasta', 'fa', 'json' and the two-part (compressed) 'fa.gz', 'fasta.bz2'; limit=None; single process",
    "identifiers with compression suffixes (.gz) occur only in the model-vs-code correspondence, not in the spec-level search, and are not combined "
    "with the sub-directory spellings (a gzip-compressed stray file under md5/ makes md5() raise UnicodeDecodeError)",
    "after an operation that raises FileNotFoundError inside the drop loop the rest of that history is not compared "
    "(which members were already removed depends on the directory listing order)",
    "io.py writer apps (write_json/write_seqs/write_db) are exercised only through the store methods they call",
]

SFXS = ["fasta", "fa", "json"]
# two-part store suffixes (format + compression): records are written compressed, read() decompresses, the md5 side
# file is md5/<name>.txt (both parts removed) and md5() finds it by a regular expression built from the whole suffix
ZSFXS = ["fa.gz", "fasta.bz2"]
MODES = ["w", "a", "r"]
NCP = "not_completed/"


GEN_FILE = LEAN / "CogentModel" / "Gen" / "C13Names.lean"
GEN_FMT = LEAN / "CogentModel" / "Gen" / "C13Fmt.lean"
GEN_SQL = LEAN / "CogentModel" / "Gen" / "C13Sql.lean"


def generate(ctx):
    """re-translate the naming slice of DataStoreDirectory from the CURRENT source (translator/c13_names2lean.py);
    Props/C13.lean proves each generated definition equal to the hand model"""
    import json
    import sys

    sys.path.insert(0, str(VERIF))
    from translator import c13_names2lean as tr

    out = []
    try:
        lean, info, problems = tr.translate(SRC / "app" / "data_store.py")
    except (tr.TranslationError, SyntaxError) as e:
        lean, info, problems = None, {}, [str(e)]
    ctx.notes.append(f"c13_names2lean: {json.dumps(info)[:700]}")
    if lean is not None and tr.write_if_changed(GEN_FILE, lean):
        ctx.notes.append("Gen/C13Names.lean was rewritten (the naming code differs from the last generated text)")
    out += [f"c13_names2lean: {p}" for p in problems]
    # wave 2: get_format_suffixes (util/io.py) and the pure-Python logic of DataStoreSqlite
    from translator import c13_fmt2lean as trf
    from translator import c13_sql2lean as trs

    lean, info, problems = trf.translate(SRC / "util" / "io.py", SRC / "util" / "misc.py")
    ctx.notes.append(f"c13_fmt2lean: {json.dumps(info)[:300]}")
    if lean is not None and tr.write_if_changed(GEN_FMT, lean):
        ctx.notes.append("Gen/C13Fmt.lean was rewritten (get_format_suffixes differs from the last generated text)")
    out += [f"c13_fmt2lean: {p}" for p in problems]
    lean, info, problems = trs.translate(SRC / "app" / "sqlite_data_store.py", SRC / "app" / "data_store.py")
    ctx.notes.append(f"c13_sql2lean: {json.dumps(info)[:500]}")
    if lean is not None and tr.write_if_changed(GEN_SQL, lean):
        ctx.notes.append("Gen/C13Sql.lean was rewritten (the sqlite store's naming / guard code differs from the last generated text)")
    out += [f"c13_sql2lean: {p}" for p in problems]
    return out


def md5hex(s):
    return None if s is None else hashlib.md5(s.encode("utf8")).hexdigest()


# --------------------------------------------------------------------------
# identifier pools
# --------------------------------------------------------------------------
def clean_stems():
    # suffixes / prefixes of one another, no dots, none contains a store suffix / json / txt / log
    return ["a", "ba", "cba", "ab", "a_b", "b", "x1", "a-1"]


def dot_family(sfx):
    """dot-delimited prefix families, with and without the format suffix"""
    fam = ["x", "x.y", "x.y.z", f"x.{sfx}.y"]
    return fam + [f"{s}.{sfx}" for s in fam]


def prop_ids(sfx):
    """the domain the property quantifies over: names that are suffixes/prefixes of one another,
    with and without the store's format suffix"""
    st = clean_stems()
    return st + [f"{s}.{sfx}" for s in st]


def spec_odd_ids(sfx):
    """identifiers (in the property's domain) that merely *contain* the store suffix or one of the words the code
    substitutes ('json', 'txt'), with and without the format suffix"""
    return [f"so{sfx}", f"so{sfx}.{sfx}", f"x.{sfx}.{sfx}", f"{sfx}_x", "xjson", "json_x", "xtxt"]


def odd_ids(sfx):
    """identifiers that contain the store suffix / the reserved words / foreign or repeated extensions"""
    return [
        f"x.{sfx}.{sfx}", sfx, f"a{sfx}", f"{sfx}_x", f"so{sfx}", f"so{sfx}.{sfx}",
        "json", "xjson", "json_x", "a.json", "ba.json", "txt", "a.txt", "xtxt", "log", "a.log",
        "a.b", "a.b.c", "a.", "a..b", "md5", "logs", "not_completed", "results", "results_a",
        "a.fasta", "a.fa", "x.fasta.fa",
    ]


def foreign_ids(sfx):
    """the SAME records as the clean stems, spelled with another format's extension ('a.txt', 'a.fa' in a 'fasta' store):
    the store files them under <stem>.<suffix>, so every operation on such a spelling meets the state left by the
    bare / canonical spelling (existing completed or not-completed record, append mode, retiring drop)"""
    other = [e for e in ("txt", "fa", "fasta", "phy", "y") if e != sfx and e != sfx.split(".")[0]][:3]
    return [f"{s}.{e}" for s in ("a", "ba", "b") for e in other[:2]] + [f"a.{other[2]}"]


def zip_ids(sfx):
    """identifiers for a store with a two-part suffix 'fmt.cmp': with the format part only, with the whole suffix,
    with the compression part only"""
    fmt, cmp = sfx.split(".", 1)
    return [f"a.{fmt}", f"ba.{fmt}", f"a.{sfx}", f"ba.{sfx}", f"b.{cmp}"]


def gz_ids(sfx):
    return [f"a.{sfx}.gz", "a.gz", "b.json.gz"]


def id_class(sfx, uid):
    """narrow description of why an identifier is unusual ('' = ordinary)"""
    pre = ""
    if "/" in uid:
        pre = "has-dir"
        uid = uid.rsplit("/", 1)[-1]
        if not uid:
            return pre
    tag0 = [pre] if pre else []
    stem, dot, ext = uid.rpartition(".")
    if not dot or not stem or not ext:
        stem, ext = uid, ""
        if "." in uid:
            return "+".join(tag0 + ["odd-dots"])
    if ext in ("gz", "bz2", "zip"):
        return "+".join(tag0 + ["compressed"])
    tags = list(tag0)
    if ext and ext != sfx:
        tags.append("foreign-ext")
    if "." in stem:
        tags.append("dotted-stem")
    for w in sorted({sfx, "json", "txt", "log"}):
        if w in stem:
            tags.append("stem-contains-" + ("suffix" if w == sfx else w))
    return "+".join(tags)


# --------------------------------------------------------------------------
# real stores
# --------------------------------------------------------------------------
def _err(e):
    return {"err": type(e).__name__}


def _key(x):
    return repr(x)


def _obs_store(ds, prefix_logs=True):
    def one(m):
        try:
            c = m.read()
        except FileNotFoundError:
            c = None
        except TypeError:  # sqlite: row missing -> None["data"]
            c = None
        return [m.unique_id, c, ds.md5(m.unique_id)]

    return dict(
        c=sorted((one(m) for m in ds.completed), key=_key),
        nc=sorted((one(m) for m in ds.not_completed), key=_key),
        logs=sorted(([m.unique_id, m.read()] for m in ds.logs), key=_key),
    )


class _Members:
    """member objects obtained earlier on the LIVE handle (returned by write()/write_not_completed(), listed by
    completed / not_completed) are kept, and re-read later through every access path"""

    def keep(self, m):
        if m is not None and all(m is not x for x in self.kept):
            self.kept.append(m)

    def keep_listed(self):
        try:
            for m in list(self.ds.completed) + list(self.ds.not_completed):
                self.keep(m)
        except Exception:  # noqa: BLE001  (connection refused etc.)
            pass

    def stale(self):
        """first disagreement between an earlier member object and the store: (what, unique_id, via member, via store)"""
        for m in self.kept:
            uid = m.unique_id
            try:
                now = self.ds.read(uid)
            except Exception:  # noqa: BLE001  the record is gone (dropped / retired) or the connection is refused
                continue
            try:
                got = m.read()
                if got != now:
                    return ("read", uid, got, now)
                a, b = m.md5, self.ds.md5(uid)
                if a != b:
                    return ("md5", uid, a, b)
                if a is not None and isinstance(now, str) and a != md5hex(now):
                    return ("md5-vs-content", uid, a, md5hex(now))
                if str(m) != uid:
                    return ("unique_id", uid, str(m), uid)
            except Exception as e:  # noqa: BLE001
                return ("raised", uid, type(e).__name__, None)
        return None


class RealDir(_Members):
    kind = "dir"

    def __init__(self, path, sfx, mode):
        from cogent3.app.data_store import DataStoreDirectory

        self.K = DataStoreDirectory
        self.path, self.sfx = path, sfx
        self.ds = self.K(path, mode=mode, suffix=sfx)
        self.kept = []

    def apply(self, op):
        k = op[0]
        try:
            if k == "w":
                r = self.ds.write(unique_id=op[1], data=op[2])
                self.keep(r)
                return {"r": None if r is None else r.unique_id}
            if k == "nc":
                r = self.ds.write_not_completed(unique_id=op[1], data=op[2])
                self.keep(r)
                return {"r": None if r is None else r.unique_id}
            if k == "log":
                self.ds.write_log(unique_id=op[1], data=op[2])
                return {"r": None}
            if k == "drop":
                self.ds.drop_not_completed(unique_id=op[1])
                return {"r": None}
            if k == "reopen":
                self.ds = self.K(self.path, mode=op[1], suffix=self.sfx)
                self.kept = []
                return {"r": None}
            if k == "unlock":
                return {"r": None}
            if k == "obs":
                o = _obs_store(self.ds)
                self.keep_listed()
                return {"r": None, "obs": o}
        except Exception as e:  # noqa: BLE001
            return {"r": _err(e)}
        raise ValueError(k)

    def dirs(self):
        """existence of the not_completed/ and logs/ sub-directories"""
        return [os.path.isdir(os.path.join(self.path, "not_completed")), os.path.isdir(os.path.join(self.path, "logs"))]

    def validate(self):
        return _validate(self.ds)

    def fresh_obs(self):
        return _obs_store(self.K(self.path, mode="r", suffix=self.sfx))

    def close(self):
        shutil.rmtree(self.path, ignore_errors=True)


class RealSql(_Members):
    kind = "sql"

    def __init__(self, path, sfx, mode):
        from cogent3.app.sqlite_data_store import DataStoreSqlite

        self.K = DataStoreSqlite
        self.path = path
        self.ds = self.K(path, mode=mode)
        self.kept = []

    def apply(self, op):
        k = op[0]
        try:
            if k == "w":
                r = self.ds.write(unique_id=op[1], data=op[2])
                self.keep(r)
                return {"r": None if r is None else r.unique_id}
            if k == "nc":
                r = self.ds.write_not_completed(unique_id=op[1], data=op[2])
                self.keep(r)
                return {"r": None if r is None else r.unique_id}
            if k == "log":
                self.ds.write_log(unique_id=op[1], data=op[2])
                return {"r": None}
            if k == "drop":
                self.ds.drop_not_completed(unique_id=op[1])
                return {"r": None}
            if k == "reopen":
                try:
                    self.ds.close()
                except Exception:  # noqa: BLE001  (close goes through the db property, which may raise on a lock)
                    pass
                self._hard_close()
                self.ds = self.K(self.path, mode=op[1])
                self.kept = []
                return {"r": None}
            if k == "unlock":
                self.ds.unlock()
                return {"r": None}
            if k == "obs":
                o = _obs_store(self.ds)
                self.keep_listed()
                return {"r": None, "obs": o}
        except Exception as e:  # noqa: BLE001
            return {"r": _err(e)}
        raise ValueError(k)

    def _hard_close(self):
        db = getattr(self.ds, "_db", None)
        if db is not None:
            try:
                db.close()
            except Exception:  # noqa: BLE001
                pass

    def validate(self):
        return _validate(self.ds)

    def fresh_obs(self):
        ds = self.K(self.path, mode="r")
        try:
            return _obs_store(ds)
        finally:
            db = getattr(ds, "_db", None)
            if db is not None:
                db.close()

    def close(self):
        self._hard_close()
        p = str(self.path)
        for q in (p, p + ".sqlitedb"):
            if os.path.exists(q):
                os.remove(q)


def _validate(ds):
    try:
        t = ds.validate()
        d = {str(r[0]): r[1] for r in t.to_list()} if hasattr(t, "to_list") else None
        if d is None:
            d = {str(k): v for k, v in zip(t.columns["Condition"], t.columns["Value"])}
        return [int(d["Num md5sum correct"]), int(d["Num md5sum incorrect"]), int(d["Num md5sum missing"]), bool(d["Has log"])]
    except Exception as e:  # noqa: BLE001
        return _err(e)


def validate_from_obs(obs):
    """what validate() must say, derived from the member observations"""
    ms = obs["c"] + obs["nc"]
    if any(m[1] is None for m in ms):
        return None
    missing = sum(1 for m in ms if m[2] is None)
    correct = sum(1 for m in ms if m[2] is not None and m[2] == md5hex(m[1]))
    return [correct, len(ms) - correct - missing, missing, len(obs["logs"]) > 0]


def run_real(ctx, kind, tag, sfx, mode, ops, want_validate=False):
    path = ctx.scratch / f"{kind}_{tag}"
    store = (RealDir if kind == "dir" else RealSql)(path, sfx, mode)
    out = []
    try:
        for op in ops:
            r = store.apply(op)
            if kind == "dir":
                r["d"] = store.dirs()
            if want_validate and op[0] == "obs" and "obs" in r:
                r["validate"] = store.validate()
            out.append(r)
    finally:
        store.close()
    return out


# --------------------------------------------------------------------------
# behaviour probe: does a read-only store create directories (code as it is) or not (proposed repair)
# --------------------------------------------------------------------------
_CFG = {}


def detect_cfg(ctx):
    """{'ro_open': bool, 'ro_write': bool}: True = the repaired behaviour (no mkdir on a read-only store)"""
    if "v" in _CFG:
        return _CFG["v"]
    h = [["nc", "a", "1"], ["drop", ""], ["reopen", "r"], ["nc", "b", "2"]]
    r = run_real(ctx, "dir", "probe", "fasta", "w", h)
    ro_open = not r[2]["d"][0]
    # write_not_completed on a read-only store is only observable when the constructor did not create the directory
    ro_write = ro_open and not r[3]["d"][0]
    # order of the two writes of _write: record first leaves a stray file for an identifier with a directory part
    r2 = run_real(ctx, "dir", "probe2", "fasta", "w", [["w", "logs/x.fasta", "1"], ["obs"]])
    md5_first = not any(m[0] == "logs/x.fasta" for m in r2[1]["obs"]["logs"])
    _CFG["v"] = dict(ro_open=ro_open, ro_write=ro_write, md5_first=md5_first)
    ctx.notes.append(f"code variant detected by behaviour (read-only store creates no directory; _write puts the md5 file first): {_CFG['v']}")
    return _CFG["v"]


# --------------------------------------------------------------------------
# history generators
# --------------------------------------------------------------------------
def gen_history(rng, kind, sfx, pool, nmax=40, p_obs=0.25, every_obs=False, synonyms=True, subdirs=0.05, log_ids=None, same_record=0.0):
    n = rng.randint(1, nmax)
    mode = rng.choice(["w", "w", "a"])
    ids = rng.sample(pool, min(len(pool), rng.randint(2, 6)))
    if same_record and rng.random() < same_record:
        # all spellings of ONE record, plus one unrelated identifier
        st = spec_stem(rng.choice(ids), sfx)
        same = [x for x in pool if spec_stem(x, sfx) == st]
        ids = rng.sample(same, min(len(same), rng.randint(2, 4))) + [rng.choice(pool)]
    ops = []
    cnt = 0
    for _ in range(n):
        r = rng.random()
        uid = rng.choice(ids)
        cnt += 1
        data = f"d{cnt}"
        # the same record in another spelling: 'results/<id>' (SQLite), a relative path with a directory (directory store)
        spelled = uid
        if synonyms and rng.random() < (0.3 if kind == "sql" else 0.08) and (kind == "sql" or "." not in uid):
            spelled = ("results/" if kind == "sql" else "sub/") + uid
        elif synonyms and kind == "dir" and subdirs and not uid.endswith((".gz", ".bz2", ".zip")) and rng.random() < subdirs:
            # an identifier that starts with one of the store's own sub-directories
            spelled = rng.choice(["logs/", "not_completed/", "md5/"]) + uid
        if r < 0.33:
            op = ["w", spelled, data]
        elif r < 0.62:
            op = ["nc", spelled, data]
        elif r < 0.70:
            lg = rng.choice(log_ids or ["run.log", "l2", uid])
            op = ["log", ("logs/" + lg) if kind == "sql" and synonyms and rng.random() < 0.3 else lg, logtext(data)]
        elif r < 0.82:
            op = ["drop", uid if rng.random() < 0.75 else ""]
        elif r < 0.93:
            m = rng.choice(MODES)
            if kind == "sql" and m == "w" and rng.random() < 0.8:
                ops.append(["unlock"])
                if every_obs:
                    ops.append(["obs"])
            op = ["reopen", m]
        else:
            op = ["obs"]
        ops.append(op)
        if every_obs and op[0] != "obs":
            ops.append(["obs"])
        elif op[0] != "obs" and rng.random() < p_obs:
            ops.append(["obs"])
    ops += [["obs"], ["reopen", "r"], ["obs"]]
    return mode, ops


def logtext(token):
    """a log record in the format scitrack writes and summary_logs parses; `token` is the command string"""
    t = "2026-01-01 00:00:00"
    return "\n".join([f"{t}\tEager\tsystem_details : c13", f"{t}\tEager\tpython : 3.12", f"{t}\tEager\tuser : verif",
                      f"{t}\tEager\tcommand_string : {token}"]) + "\n"


def log_token(text):
    for line in (text or "").splitlines():
        if "command_string : " in line:
            return line.split("command_string : ", 1)[1]
    return None


def _truncate(real, ops):
    """index after which a history is no longer compared: FileNotFoundError inside a drop loop (the members already
    removed depend on the directory listing order).  A FileNotFoundError of an identifier with a directory part, or of
    drop_not_completed() on a missing directory, is not of that kind."""
    for i, (r, op) in enumerate(zip(real, ops)):
        if isinstance(r["r"], dict) and r["r"]["err"] == "FileNotFoundError":
            if op[0] == "drop" and op[1] == "" and not any(r2.get("d", [True])[0] for r2 in real[max(i - 1, 0) : i]):
                continue
            if op[0] in ("nc", "log") or (op[0] == "w" and "/" in op[1]):
                continue
            return i + 1
    return len(real)


def _model_obs(o, kind):
    """model observation -> the canonical form of _obs_store (md5 payload -> hex digest)"""
    if o is None:
        return None
    lp = "logs/"
    return dict(
        c=sorted(([m[0], m[1], md5hex(m[2])] for m in o["c"]), key=_key),
        nc=sorted(([m[0], m[1], md5hex(m[2])] for m in o["nc"]), key=_key),
        logs=sorted(([lp + m[0], m[1]] for m in o["logs"]), key=_key),
    )


# --------------------------------------------------------------------------
# naming layer: Lean vs CPython / pathlib / cogent3
# --------------------------------------------------------------------------
def _py_names(sfx, suffix, uid):
    from pathlib import Path

    from cogent3.app.data_store import _special_suffixes
    from cogent3.util.io import get_format_suffixes

    def contains_item(item):
        if not _special_suffixes.search(item):
            item = f"{item}.{sfx}" if sfx not in item else item
        return item

    u = uid
    s1, cmp = get_format_suffixes(u)
    if s1 != suffix:
        u = f"{Path(u).stem}.{suffix}"
        s1, cmp = get_format_suffixes(u)
    u = u.replace(sfx, suffix) if sfx and sfx != suffix else u
    m = u.replace(suffix, "txt")
    m = m if cmp is None else m.replace(f".{cmp}", "")
    dk = uid.replace(f".{sfx}", "")
    dk = f"{dk}.json" if dk else dk
    fs = get_format_suffixes(uid)
    return dict(
        chk1=contains_item(uid), file=u, chk2=contains_item(u), md5=m, dropkey=dk,
        dropmd5=f"{Path(uid).stem}.txt", md5lookup=re.sub(rf"[.]({sfx}|json)$", ".txt", Path(uid).name),
        stem=Path(uid).stem, fs=[fs[0], fs[1]], suffixes=[s[1:] for s in Path(uid).suffixes],
        special=bool(_special_suffixes.search(uid)), infix=sfx in uid, ends=uid.endswith(sfx),
        replace=uid.replace(sfx, suffix),
    )


def _names_stream(ctx, out):
    cases = []
    words = ["a", "b", ".", "fa", "json", "txt", "log", "gz", "_", "/"]
    for n in range(1, 5):
        for tup in itertools.product(words, repeat=n):
            s = "".join(tup)
            if s.startswith(".") or s in (".", "..") or s.startswith("/") or s.endswith("/") or "/." in s:
                continue
            cases.append(s)
    cases = sorted(set(cases))
    rng = ctx.subrng("names")
    extra = []
    for sfx in SFXS + ZSFXS:
        extra += prop_ids(sfx) + odd_ids(sfx) + gz_ids(sfx) + foreign_ids(sfx)
    for sfx in ZSFXS:
        extra += zip_ids(sfx) + [f"a.{sfx.replace('.', '_')}", f"a.{sfx.replace('.', 'x')}", f"a{sfx.replace('.', '_')}"]
    cases += sorted(set(extra))
    if not ctx.thorough:
        cases = rng.sample(cases, 1000) + sorted(set(extra))
    reqs = []
    for uid in cases:
        for sfx in ((["fa", "fa.gz"] if "gz" in uid or "fa" in uid or len(uid) < 3 else ["fa"]) if len(uid) < 12 and "fasta" not in uid else SFXS + ["fasta.bz2"]):
            for suffix in (sfx, "json", "log"):
                reqs.append(dict(sfx=sfx, suffix=suffix, uid=uid))
    got = ctx.driver.batch([("names", r) for r in reqs])
    for r, g in zip(reqs, got):
        out["evaluations"] += 1
        want = _py_names(r["sfx"], r["suffix"], r["uid"])
        if g != want:
            diff = sorted(k for k in want if g.get(k) != want[k])
            add_failure(out, "corr", f"naming layer differs from the Python string functions ({diff})", r, want, g, confirmed=False)
        elif want["file"] != f"{r['uid']}.{r['suffix']}":
            out["nontrivial"].add(("names", r["sfx"], r["suffix"], r["uid"]))
    bump(out, "stream", "names")
    bump(out, "names_cases", len(reqs))


def _fmt_stream(ctx, out):
    """the TRANSLATED get_format_suffixes (Gen/C13Fmt.lean) and the pathlib / regex / str primitives it is written with (conventions
    F1-F4 of translator/c13_fmt2lean.py), and the translated sqlite identifier rewriting (convention S1), against the real functions:
    every string of <= 4 tokens incl. upper case, leading dots (where the real function raises IndexError) and directory parts"""
    from pathlib import Path

    from cogent3.util.io import get_format_suffixes
    from cogent3.util.misc import _wout_period

    words = ["a", "B", ".", "fa", "GZ", "gz", "zip", "bz2", "json", "_", "/", "results", "logs"]
    cases = set()
    for n in range(1, 5):
        for tup in itertools.product(words, repeat=n):
            s = "".join(tup)
            if s in (".", "..") or s.endswith("/") or s.startswith("/") or "//" in s or "/./" in s or "/../" in s or s.startswith("./") or s.startswith("../") or s.endswith("/.") or s.endswith("/.."):
                continue
            cases.add(s)
    cases = sorted(cases)
    rng = ctx.subrng("fmt")
    if not ctx.thorough:
        cases = rng.sample(cases, 1500) + ["..a", "...a.b", "a.FA.GZ", "a.fa.gz", "x/..b", "results/a", "resultsa", "logs/b.log", "a.b.c.zip"]
    got = ctx.driver.batch([("fmt", dict(uid=c)) for c in cases])
    for c, g in zip(cases, got):
        out["evaluations"] += 1
        try:
            fs = list(get_format_suffixes(c))
        except IndexError:
            fs = "IndexError"
        p = Path(c)
        want = dict(
            fs=fs, suffix=p.suffix, suffixes=list(p.suffixes), lower=c.lower(), nodot=_wout_period.sub("", c),
            sqlids=[Path(c).name if c.startswith("results") else c] * 2 + [Path(c).name if c.startswith("logs") else c],
        )
        if g != want:
            diff = sorted(k for k in want if g.get(k) != want[k])
            add_failure(out, "corr", f"translated get_format_suffixes / its primitives differ from the real functions ({diff})", dict(uid=c), want, g, confirmed=False)
        elif fs == "IndexError" or (fs[0] is not None and fs[1] is not None) or c != c.lower():
            out["nontrivial"].add(("fmt", c))
        bump(out, "fmt_result", "IndexError" if fs == "IndexError" else f"sfx={'y' if fs[0] else 'n'},cmp={'y' if fs[1] else 'n'}")
    bump(out, "stream", "fmt")
    bump(out, "fmt_cases", len(cases))


# --------------------------------------------------------------------------
# correspondence
# --------------------------------------------------------------------------
def correspondence(ctx):
    out = new_outcome(
        "naming layer: every string of <=4 tokens from {a,b,.,fa,json,txt,log,gz,_} (sampled in quick tier) + the identifier pools, "
        "x store suffix x write suffix, against the real str/pathlib/regex/get_format_suffixes code; "
        "fmt: the TRANSLATED get_format_suffixes and its primitives on every string of <=4 tokens from {a,B,.,fa,GZ,gz,zip,bz2,json,_,/,results,logs} (sampled in quick tier) vs the real functions; "
        "zipcorr: the listing model of ReadOnlyDataStoreZipped vs the real class on real archives of real stores (with foreign files); "
        "stores: seeded random histories (1-40 ops + interleaved observations, then observe / re-open read-only / observe) over "
        "adversarial identifier pools on real DataStoreDirectory and DataStoreSqlite objects vs the Lean state machines, "
        "comparing every operation's result (member id / None / exception class), the existence of not_completed/ and logs/ after every call, "
        "and every observation (sorted member ids, read(), md5, log records) and validate(); identifiers incl. the spellings 'sub/<id>' and "
        "'logs/<id>', 'not_completed/<id>', 'md5/<id>' (stray files); store suffixes fasta/fa/json and (20%) the two-part fa.gz/fasta.bz2; validate() also against the model's validateDir; "
        "spec: Lean dictionary spec vs the Python oracle; "
        "non-trivial = distinct histories with >= 2 state-changing operations"
    )
    cfg = detect_cfg(ctx)
    _names_stream(ctx, out)
    _fmt_stream(ctx, out)
    _zip_corr_stream(ctx, out)
    rng = ctx.subrng("corr")
    n_hist = ctx.budget(200, 4000)
    for kind in ("dir", "sql"):
        hist = []
        for i in range(n_hist if kind == "dir" else n_hist // 2):
            sfx = rng.choice(SFXS) if kind == "dir" else "fasta"
            if kind == "dir" and rng.random() < 0.2:
                sfx = rng.choice(ZSFXS)
            r = rng.random()
            pool = (prop_ids(sfx) + dot_family(sfx)) if r < 0.45 else prop_ids(sfx) + dot_family(sfx) + odd_ids(sfx) + (gz_ids(sfx) if kind == "dir" and r > 0.9 else [])
            if sfx in ZSFXS:
                pool = pool + zip_ids(sfx)
            if kind == "dir" and rng.random() < 0.3:
                pool = pool + foreign_ids(sfx)
            mode, ops = gen_history(rng, kind, sfx, pool, subdirs=0 if sfx in ZSFXS else 0.05, same_record=0.2 if kind == "dir" else 0.0)
            bump(out, "corr_store_suffix", sfx if kind == "dir" else "(sqlite)")
            hist.append((sfx, mode, ops))
        cmd = "dir" if kind == "dir" else "sql"
        model = ctx.driver.batch(
            [(cmd, dict(ro_open=cfg["ro_open"], ro_write=cfg["ro_write"], md5_first=cfg["md5_first"], sfx=sfx, mode=mode, ops=ops)) for sfx, mode, ops in hist]
        )
        for i, ((sfx, mode, ops), mod) in enumerate(zip(hist, model)):
            real = run_real(ctx, kind, f"c{i}", sfx, mode, ops, want_validate=True)
            out["evaluations"] += 1
            stop = _truncate(real, ops)
            inp = dict(store=kind, sfx=sfx, mode=mode, ops=ops)
            bad = None
            for j in range(stop):
                rr, mm = real[j], mod[j]
                if rr["r"] != mm["r"]:
                    bad = (j, "result", mm["r"], rr["r"])
                    break
                if kind == "dir" and rr.get("d") != mm.get("d"):
                    bad = (j, "existence of not_completed/, logs/", mm.get("d"), rr.get("d"))
                    break
                if "obs" in rr or "obs" in mm:
                    mo = _model_obs(mm.get("obs"), kind)
                    if rr.get("obs") != mo:
                        bad = (j, "observation", mo, rr.get("obs"))
                        break
                    v = rr.get("validate")
                    want_v = validate_from_obs(rr["obs"])
                    if want_v is not None and v != want_v:
                        bad = (j, "validate() vs member-wise md5", want_v, v)
                        break
                    mv = (mm.get("obs") or {}).get("validate")
                    if want_v is not None and mv is not None and v != mv:
                        bad = (j, "validate() vs the model's validateDir", mv, v)
                        break
                    if isinstance(v, list):
                        bump(out, "validate_rows", f"incorrect={min(v[1], 2)},missing={min(v[2], 2)},log={v[3]}")
            if bad:
                j, what, exp, got = bad
                add_failure(out, "corr", f"{kind} store model differs from the real store ({what} of op {j}: {ops[j]})",
                            dict(inp, ops=ops[: j + 1]), exp, got, confirmed=False)
                continue
            changing = sum(1 for op, rr in zip(ops[:stop], real) if op[0] in ("w", "nc", "drop", "log") and not isinstance(rr["r"], dict))
            if changing >= 2:
                out["nontrivial"].add((kind, sfx, mode, str(ops)))
            bump(out, "stream", f"{kind}-histories")
            bump(out, f"{kind}_len", min(len(ops) // 10 * 10, 60))
            if stop < len(real):
                bump(out, "truncated_after_FileNotFoundError", kind)
            for op, rr in zip(ops[:stop], real):
                bump(out, f"{kind}_ops", op[0] + (":" + op[1] if op[0] == "reopen" else ""))
                if isinstance(rr["r"], dict):
                    bump(out, f"{kind}_errors", op[0] + ":" + rr["r"]["err"])
            if len(out["samples"]) < 3 and kind == "dir" and 6 < len(ops) < 16:
                out["samples"].append(dict(inp, last_observation=real[-1].get("obs")))
            if len([s for s in out["samples"] if s.get("store") == "sql"]) < 2 and kind == "sql" and 6 < len(ops) < 16:
                out["samples"].append(dict(inp, last_observation=real[-1].get("obs")))

    # Lean dictionary spec vs the Python oracle
    srng = ctx.subrng("spec-tie")
    reqs, wants = [], []
    for i in range(ctx.budget(150, 4000)):
        kind = srng.choice(["dir", "sql"])
        sfx = srng.choice(SFXS + ZSFXS)
        pool = prop_ids(sfx) + dot_family(sfx) + (odd_ids(sfx) if srng.random() < 0.4 else []) + (foreign_ids(sfx) + zip_ids(sfx) if sfx in ZSFXS else [])
        if sfx in ZSFXS:
            # the Lean dictionary keys records by the final-extension stem; for an identifier that carries the WHOLE two-part
            # suffix the Python oracle strips both parts (the code does not: finding C13-two-part-suffix-spelling)
            pool = [x for x in pool if not x.endswith("." + sfx)]
        mode, ops = gen_history(srng, kind, sfx, pool)
        reqs.append(("spec", dict(kind=kind, sfx=sfx, mode=mode, ops=ops)))
        o = Oracle(kind, sfx, mode)
        w = []
        for op in ops:
            rej = o.rejects(op)
            if not rej:
                o.apply(op)
            e = {"rej": rej}
            if op[0] == "obs":
                e["obs"] = o.snapshot()
            w.append(e)
        wants.append(w)
    for (cmd, rq), w, g in zip(reqs, wants, ctx.driver.batch(reqs)):
        out["evaluations"] += 1
        g2 = []
        for e in g:
            e = dict(e)
            if "obs" in e:
                e["obs"] = {k: sorted(map(list, v), key=_key) for k, v in e["obs"].items()}
            g2.append(e)
        if g2 != w:
            j = next(i for i, (a, b) in enumerate(zip(g2, w)) if a != b)
            add_failure(out, "corr", "Lean dictionary spec differs from the Python oracle", dict(rq, ops=rq["ops"][: j + 1]), w[j], g2[j], confirmed=False)
    bump(out, "stream", "spec-vs-oracle")
    return out


# --------------------------------------------------------------------------
# the dictionary oracle (independent Python statement of the spec)
# --------------------------------------------------------------------------
def spec_stem(uid, sfx=None):
    """identifier without directories and without its format suffix: the store's whole (possibly two-part) suffix when the
    identifier carries it, else its final extension"""
    uid = uid.rsplit("/", 1)[-1]
    if sfx and "." in sfx and uid.endswith("." + sfx) and len(uid) > len(sfx) + 1:
        return uid[: -len(sfx) - 1]
    i = uid.rfind(".")
    return uid[:i] if 0 < i < len(uid) - 1 else uid


def sql_norm(table, uid):
    """SQLite store: 'results/<id>' is a spelling of '<id>'"""
    return uid.rsplit("/", 1)[-1] if uid.startswith(table) else uid


class Oracle:
    def __init__(self, kind, sfx, mode):
        self.kind, self.sfx, self.mode = kind, sfx, mode
        self.c, self.nc, self.logs = {}, {}, {}
        self.sessions = [None]  # SQLite: one log slot per session (the store keeps ONE log row per connection)

    def cname(self, uid):
        return f"{spec_stem(uid, self.sfx)}.{self.sfx}" if self.kind == "dir" else sql_norm("results", uid)

    def ncname(self, uid):
        return f"{spec_stem(uid, self.sfx)}.json" if self.kind == "dir" else sql_norm("results", uid)

    def logname(self, uid):
        return f"{spec_stem(uid)}.log" if self.kind == "dir" else sql_norm("logs", uid)

    def rejects(self, op):
        k = op[0]
        if k in ("reopen", "obs", "unlock"):
            return False
        if self.mode == "r":
            return True
        if self.mode == "a":
            if k == "w":
                return self.cname(op[1]) in self.c or (self.kind == "sql" and self.ncname(op[1]) in self.nc)
            if k == "nc":
                return self.cname(op[1]) in self.c or self.ncname(op[1]) in self.nc
        return False

    def apply(self, op):
        k = op[0]
        if k == "w":
            self.c[self.cname(op[1])] = op[2]
            self.nc.pop(self.ncname(op[1]), None)
        elif k == "nc":
            self.nc[self.ncname(op[1])] = op[2]
        elif k == "log":
            self.logs[self.logname(op[1])] = op[2]
            self.sessions[-1] = [self.logname(op[1]), op[2]]
        elif k == "drop":
            if op[1]:
                self.nc.pop(self.ncname(op[1]), None)
            else:
                self.nc.clear()
        elif k == "reopen":
            self.mode = op[1]
            self.sessions.append(None)

    def expected_logs(self):
        """[[member id, content]]: directory store = the dictionary; SQLite store = one record per session that wrote a
        log (the store's documented design), read() by name returning the first such row"""
        if self.kind == "dir":
            return sorted((["logs/" + k, v] for k, v in self.logs.items()), key=_key)
        rows = [x for x in self.sessions if x]
        first = {}
        for n, v in rows:
            first.setdefault(n, v)
        return sorted((["logs/" + n, first[n]] for n, _ in rows), key=_key)

    def snapshot(self):
        return dict(
            c=sorted(([k, v] for k, v in self.c.items()), key=_key),
            nc=sorted(([k, v] for k, v in self.nc.items()), key=_key),
            logs=sorted(([k, v] for k, v in self.logs.items()), key=_key),
        )

    def expected_obs(self):
        p = NCP if self.kind == "dir" else ""
        return dict(
            c=sorted(([k, v, md5hex(v)] for k, v in self.c.items()), key=_key),
            nc=sorted(([p + k, v, md5hex(v)] for k, v in self.nc.items()), key=_key),
        )


# --------------------------------------------------------------------------
# spec check: the real stores against the oracle, observed after every operation
# --------------------------------------------------------------------------
def _classify(kind, sfx, op, res, before, exp, got, oracle_before, force_parts=None):
    """narrow signature of the first divergence, caused by `op`"""
    k = op[0]
    uid = op[1] if len(op) > 1 and k != "reopen" else ""
    feats = []
    ic = id_class(sfx, uid) if uid else ""

    def names(o, t):
        return [m[0] for m in o[t]]

    parts = []
    for t in ("c", "nc", "logs"):
        if t not in exp or t not in got:
            continue
        en, gn = names(exp, t), names(got, t)
        if len(set(gn)) != len(gn):
            parts.append(f"{t}-duplicate-member")
        lost = sorted(set(en) - set(gn))
        extra = sorted(set(gn) - set(en))
        if lost:
            own = (NCP if kind == "dir" else "") + (f"{spec_stem(uid, sfx)}.json" if kind == "dir" else sql_norm("results", uid)) if t == "nc" else None
            if t == "nc" and k in ("w", "drop") and uid and all(x != own for x in lost):
                # a record of ANOTHER identifier disappeared
                key = (uid.replace(f".{sfx}", "") + ".json") if kind == "dir" else uid
                if kind == "dir" and all(x == NCP + key for x in lost):
                    # the record whose file name IS the raw drop key '<id minus .suffix>.json' (it belongs to another
                    # identifier because _write stores under Path(id).stem): not a suffix match
                    parts.append("nc-other-removed-exact-key")
                elif all(x.endswith(key) for x in lost):
                    parts.append("nc-other-removed-suffix-match")
                else:
                    parts.append("nc-other-removed")
            else:
                parts.append(f"{t}-lost")
        if extra:
            if t == "nc" and k == "w":
                parts.append("nc-not-retired")
            elif t == "nc" and k == "drop":
                parts.append("nc-not-dropped")
            else:
                parts.append(f"{t}-extra")
        if not lost and not extra and len(set(gn)) == len(gn):
            em = {m[0]: m for m in exp[t]}
            for m in got[t]:
                e = em[m[0]]
                if m[1] != e[1]:
                    parts.append(f"{t}-content" + (":missing" if m[1] is None else ""))
                    break
            else:
                for m in got[t]:
                    e = em[m[0]]
                    if len(m) > 2 and m[2] != e[2]:
                        parts.append(f"{t}-md5-" + ("missing" if m[2] is None else "wrong"))
                        break
    if not parts:
        parts = ["other"]
    if force_parts:
        parts = list(force_parts)
    # context features
    if k == "w" and uid:
        o = oracle_before
        if o.ncname(uid) in o.nc:
            feats.append("retires-nc")
        if o.cname(uid) in o.c:
            feats.append("rewrite")
    if k == "nc" and uid:
        o = oracle_before
        if o.ncname(uid) in o.nc:
            feats.append("rewrite")
        if o.cname(uid) in o.c:
            feats.append("completed-exists")
    if k == "drop" and uid:
        o = oracle_before
        if o.cname(uid) in o.c:
            feats.append("completed-exists")
    if oracle_before.mode == "r" and k in ("w", "nc", "log", "drop") and not force_parts:
        parts = ["readonly-mutated"]
    if oracle_before.mode == "a" and k in ("w", "nc", "log"):
        feats.append("mode-a")
    if isinstance(res, dict):
        feats.append("raised-" + res["err"])
    if ic and kind == "dir":
        feats.append("id:" + ic)
    return f"{kind}:{k}:{'+'.join(parts)}:{','.join(feats)}"


def _copy_oracle(o):
    n = Oracle(o.kind, o.sfx, o.mode)
    n.c, n.nc, n.logs = dict(o.c), dict(o.nc), dict(o.logs)
    n.sessions = [None if x is None else list(x) for x in o.sessions]
    return n


def check_history_all(ctx, kind, sfx, mode, ops, tag="h"):
    """every failure of one history, in order: the per-call failures that leave the state well defined (a call the
    dictionary rejects RETURNED instead of raising -- it must still have been a no-op, so the history goes on and the
    following observations judge exactly that), then the first state-level divergence (which ends the history)"""
    soft = []
    f, stats = check_history(ctx, kind, sfx, mode, ops, tag=tag, soft=soft)
    return soft + ([f] if f else []), stats


def check_history(ctx, kind, sfx, mode, ops, tag="h", soft=None):
    """run `ops` (observations after every op are expected to be present) on a real store and the oracle;
    returns (failure dict | None, stats).  With a list `soft`, 'rejected call returned without raising' failures are
    appended to it and the history continues (otherwise such a failure -- often one that a known finding explains --
    would hide whatever the call did to the records)"""
    path = ctx.scratch / f"{kind}_{tag}"
    store = (RealDir if kind == "dir" else RealSql)(path, sfx, mode)
    o = Oracle(kind, sfx, mode)
    locked = False  # sqlite lock cell, only used to excuse the documented lock rejection
    fresh_w = False
    stats = dict(ops=0, rejected=0)
    try:
        prev = None
        unexpected = False
        prev_dirs = store.dirs() if kind == "dir" else None
        last_op, last_res, last_before = None, None, _copy_oracle(o)
        for i, op in enumerate(ops):
            r = store.apply(op)
            res = r["r"]
            raised = isinstance(res, dict)
            stats["ops"] += 1
            if op[0] != "obs":
                before = _copy_oracle(o)
                spec_rej = o.rejects(op)
                excused = False
                inp_now = dict(store=kind, sfx=sfx, mode=mode, ops=ops[: i + 1])
                # (c) a read-only store creates no directory
                if kind == "dir":
                    dirs_now = store.dirs()
                    ro_op = (o.mode == "r" and op[0] in ("w", "nc", "log", "drop")) or (op[0] == "reopen" and op[1] == "r")
                    if ro_op and dirs_now != prev_dirs:
                        return dict(what=f"{op[:2]} on / as a read-only store changed which sub-directories exist", input=inp_now,
                                    expected=dict(not_completed=prev_dirs[0], logs=prev_dirs[1]), got=dict(not_completed=dirs_now[0], logs=dirs_now[1]),
                                    sig=f"dir:{op[0]}:readonly-created-directory:"), stats
                    prev_dirs = dirs_now
                if kind == "sql":
                    if op[0] == "reopen":
                        fresh_w = op[1] == "w" and locked
                    elif raised and fresh_w and res["err"] == "OSError":
                        excused, fresh_w = True, False  # OVERWRITE of a locked db is refused once (lock, not part of C13)
                    elif op[0] == "unlock" and not raised and o.mode != "r":
                        locked, fresh_w = False, False
                    elif o.mode != "r" and not raised:
                        locked, fresh_w = True, False
                # a rejected operation (read-only / append-existing / the documented lock refusal) must be a no-op,
                # whether it raises or is silently ignored; any other operation takes effect in the dictionary
                # even if the real call raised -- the following observation then shows the divergence
                if spec_rej or excused:
                    stats["rejected"] += 1
                else:
                    o.apply(op)
                # (a) which calls raise, and what: a rejected call raises IOError (SQLite: drop on a read-only db raises
                # sqlite3.OperationalError); an accepted call does not raise (judged at the next observation)
                if spec_rej and not excused:
                    want_cls = "OperationalError" if kind == "sql" and op[0] == "drop" else "OSError"
                    if not raised:
                        sig = _classify(kind, sfx, op, res, None, {}, {}, before, force_parts=["rejected-without-raising"])
                        fr = dict(what=f"{op[:2]} must be rejected (mode {before.mode}) but returned {res!r} without raising", input=inp_now,
                                  expected=want_cls, got=res, sig=sig)
                        if soft is None:
                            return fr, stats
                        if all(x["sig"] != sig for x in soft):
                            soft.append(fr)
                    elif res["err"] != want_cls:
                        sig = _classify(kind, sfx, op, res, None, {}, {}, before, force_parts=["wrong-exception-class"])
                        return dict(what=f"{op[:2]} is rejected with {res['err']} instead of {want_cls}", input=inp_now,
                                    expected=want_cls, got=res, sig=sig), stats
                unexpected = raised and not spec_rej and not excused and op[0] in ("w", "nc", "log", "drop")
                last_op, last_res, last_before = op, res, before
                continue
            # observation
            if raised:
                if kind == "sql":
                    continue  # connection refused (lock / missing file); nothing observable
                return dict(what=f"observation raised {res['err']}", input=dict(store=kind, sfx=sfx, mode=mode, ops=ops[: i + 1]),
                            expected="observation", got=res, sig=f"{kind}:obs:raised-{res['err']}"), stats
            got = dict(c=r["obs"]["c"], nc=r["obs"]["nc"])
            exp = o.expected_obs()
            if got != exp:
                op0 = last_op or ["obs"]
                sig = _classify(kind, sfx, op0, last_res, prev, exp, got, last_before)
                return dict(
                    what=f"after {op0} the store differs from the dictionary model",
                    input=dict(store=kind, sfx=sfx, mode=mode, ops=ops[: i + 1]), expected=exp, got=got, sig=sig), stats
            # (b) log records
            got_l, exp_l = dict(logs=r["obs"]["logs"]), dict(logs=o.expected_logs())
            if got_l != exp_l:
                op0 = last_op or ["obs"]
                sig = _classify(kind, sfx, op0, last_res, None, exp_l, got_l, last_before)
                return dict(what=f"after {op0[:2]} the log records differ from the dictionary model",
                            input=dict(store=kind, sfx=sfx, mode=mode, ops=ops[: i + 1]), expected=exp_l, got=got_l, sig=sig), stats
            # member objects obtained earlier must agree with the store through every access path
            st = store.stale()
            if st is not None:
                op0 = last_op or ["obs"]
                sig = _classify(kind, sfx, op0, last_res, None, {}, {}, last_before, force_parts=[f"stale-member-{st[0]}"])
                return dict(what=f"after {op0[:2]} a member object obtained earlier disagrees with the store ({st[0]} of {st[1]})",
                            input=dict(store=kind, sfx=sfx, mode=mode, ops=ops[: i + 1]), expected=dict(via_store=st[3]), got=dict(via_member=st[2]), sig=sig), stats
            if unexpected:
                sig = _classify(kind, sfx, last_op, last_res, None, {}, {}, last_before, force_parts=["unexpected-raise"])
                return dict(what=f"{last_op[:2]} raised {last_res['err']} although the dictionary model accepts it (state unchanged / as expected)",
                            input=dict(store=kind, sfx=sfx, mode=mode, ops=ops[: i + 1]), expected="no exception", got=last_res, sig=sig), stats
            prev = got
        # summary_logs agrees with the log records
        el = o.expected_logs()
        if el and all(log_token(v) for _, v in el):
            try:
                t = store.ds.summary_logs
                rows = sorted([str(r[1]), str(r[4])] for r in t.to_list())
                want = sorted([n, log_token(v)] for n, v in el)
                if rows != want:
                    return dict(what="summary_logs differs from the log records", input=dict(store=kind, sfx=sfx, mode=mode, ops=ops),
                                expected=want, got=rows, sig=f"{kind}:summary_logs:differs"), stats
            except Exception as e:  # noqa: BLE001
                if not (kind == "sql" and type(e).__name__ in ("OSError", "OperationalError")):
                    return dict(what="summary_logs raised", input=dict(store=kind, sfx=sfx, mode=mode, ops=ops),
                                expected="table", got=_err(e), sig=f"{kind}:summary_logs:raised-{type(e).__name__}"), stats
        # a freshly re-opened store shows the same records
        try:
            fo = store.fresh_obs()
            got = dict(c=fo["c"], nc=fo["nc"])
        except Exception as e:  # noqa: BLE001
            got = None if kind == "sql" and not o.c and not o.nc else _err(e)
        if got is not None and got != o.expected_obs():
            return dict(what="a freshly re-opened store differs from the dictionary model", input=dict(store=kind, sfx=sfx, mode=mode, ops=ops),
                        expected=o.expected_obs(), got=got, sig=f"{kind}:reopen:differs"), stats
    finally:
        store.close()
    return None, stats


def _with_obs(ops):
    out = []
    for op in ops:
        if op[0] == "obs":
            continue
        out.append(op)
        out.append(["obs"])
    return out


def _shrink(ctx, kind, sfx, mode, ops, sig):
    """greedy removal of operations keeping the same signature"""
    cur = [op for op in ops if op[0] != "obs"]
    changed = len(cur) > 3
    n = 0
    while changed and n < 60:
        changed = False
        for i in range(len(cur) - 1, -1, -1):
            cand = cur[:i] + cur[i + 1 :]
            n += 1
            fs, _ = check_history_all(ctx, kind, sfx, mode, _with_obs(cand), tag="shrink")
            if any(f["sig"] == sig for f in fs):
                cur = cand
                changed = True
    return cur


SMALL = [
    # exhaustive small domain: every history of <= 3 record operations over two related identifiers
]


def spec_check(ctx, budget):
    out = new_outcome(
        "real DataStoreDirectory / DataStoreSqlite vs the Python dictionary oracle, observed after every operation and on a freshly "
        "re-opened store: exhaustive histories of <=3 write/write_not_completed/drop operations over {a, ba, a.<sfx>} and over the dot family {x, x.y.<sfx>, x.y.z.<sfx>} in modes w,a "
        "then seeded random histories (1-40 ops, modes w/a/r, close+reopen) over identifiers that are suffixes/prefixes of one another "
        "with and without the format suffix, dot-delimited prefix families, synonym spellings ('results/<id>', 'sub/<id>') (+ a share of identifiers containing the suffix); "
        "spelling box: every pair (sampled triples) of operations on ONE record spelled 'a' / 'a.fasta' / 'a.txt'; two-part-suffix box: every single operation, sampled pairs/triples in stores "
        "with suffix 'fa.gz' / 'fasta.bz2'; 20% of the random directory histories use a two-part suffix, 30% address few records through all their spellings; "
        "a rejected call that returns without raising does not end the history (the state is judged by the following observations); "
        "io stream: every kind of valid result object (incl. falsy ones: empty dict/list, 0, '', zero-row Table, zero-length alignment) and genuine NotCompleted "
        "objects written through write_json / write_seqs / write_tabular / write_db .main() to directory and SQLite stores, membership + content/md5 vs the dictionary; "
        "checked per call: rejected (read-only / append-existing) => raises IOError (SQLite drop on a read-only db: OperationalError), accepted => no exception; "
        "a read-only store creates no directory; log records and summary_logs equal the dictionary's (SQLite: one log per session); "
        "histories that satisfy the hypotheses of (sqlite_)store_refines_dict_partial (evaluated by the Lean driver) must agree with the dictionary; "
        "non-trivial = distinct histories with >= 2 accepted state-changing operations"
    )
    rng = ctx.subrng(f"spec{budget}")
    cases = []
    ids = ["a", "ba", "a.fasta"]
    atoms = [["w", i] for i in ids] + [["nc", i] for i in ids] + [["drop", i] for i in ["a", "ba", ""]]
    for n in (1, 2, 3):
        for tup in itertools.product(atoms, repeat=n):
            if n == 3 and budget < 8 and rng.random() < 0.94:
                continue
            for mode in ("w", "a"):
                ops = [[*a, f"d{j}"] if a[0] != "drop" else list(a) for j, a in enumerate(tup)]
                cases.append(("dir", "fasta", mode, ops))
                if n == 1 or (n == 2 and (budget >= 8 or rng.random() < 0.5)) or (n == 3 and rng.random() < 0.3):
                    cases.append(("sql", "fasta", mode, ops))
    # second exhaustive box: a dot-delimited prefix family (x, x.y, x.y.z), with the format suffix where the name has dots
    ids2 = ["x", "x.y.fasta", "x.y.z.fasta"]
    atoms2 = [["w", i] for i in ids2] + [["nc", i] for i in ids2] + [["drop", i] for i in ids2]
    for n in (1, 2, 3):
        for tup in itertools.product(atoms2, repeat=n):
            if n == 3 and rng.random() < (0.96 if budget < 8 else 0.5):
                continue
            ops = [[*a, f"d{j}"] if a[0] != "drop" else list(a) for j, a in enumerate(tup)]
            cases.append(("dir", "fasta", "w" if n < 3 or rng.random() < 0.5 else "a", ops))
    # spelling box: ONE record under its bare, canonical and foreign-extension spelling (every pair of operations, a sample of triples)
    ids4 = ["a", "a.fasta", "a.txt"]
    atoms4 = [["w", i] for i in ids4] + [["nc", i] for i in ids4] + [["drop", i] for i in ids4]
    for n in (2, 3):
        for tup in itertools.product(atoms4, repeat=n):
            if not any(a[1] == "a.txt" for a in tup) or (n == 3 and rng.random() < (0.97 if budget < 8 else 0.5)):
                continue
            ops = [[*a, f"d{j}"] if a[0] != "drop" else list(a) for j, a in enumerate(tup)]
            for mode in ("w", "a"):
                cases.append(("dir", "fasta", mode, ops))
    # two-part suffix box: a store that keeps its records compressed (every single and pair of operations, a sample of triples)
    for zs in ZSFXS:
        ids5 = ["a", "ba", "a." + zs.split(".")[0]]
        atoms5 = [["w", i] for i in ids5] + [["nc", i] for i in ids5] + [["drop", i] for i in ["a", "ba", ""]]
        for n in (1, 2, 3):
            for tup in itertools.product(atoms5, repeat=n):
                if (n == 2 and rng.random() < (0.5 if zs == ZSFXS[0] else 0.85) and budget < 8) or (n == 3 and rng.random() < (0.98 if budget < 8 else 0.7)):
                    continue
                ops = [[*a, f"d{j}"] if a[0] != "drop" else list(a) for j, a in enumerate(tup)]
                cases.append(("dir", zs, "w" if n == 1 or rng.random() < 0.5 else "a", ops))
    # third exhaustive box (SQLite): the two spellings of one record, second operation after close + re-open in append mode
    atoms3 = [["w", "b"], ["w", "results/b"], ["nc", "b"], ["nc", "results/b"], ["drop", "b"]]
    for a1, a2 in itertools.product(atoms3, repeat=2):
        for mode in ("w", "a"):
            ops = [[*a1, "d0"] if a1[0] != "drop" else list(a1), ["unlock"], ["reopen", "a"], [*a2, "d1"] if a2[0] != "drop" else list(a2)]
            cases.append(("sql", "fasta", mode, ops))
    small_n = len(cases)
    for i in range(130 * budget):
        kind = "dir" if rng.random() < 0.65 else "sql"
        sfx = rng.choice(SFXS) if kind == "dir" else "fasta"
        if kind == "dir" and rng.random() < 0.2:
            sfx = rng.choice(ZSFXS)
        r = rng.random()
        if kind == "dir" and r < 0.3:
            # few records, every one under several spellings (bare, canonical, other format's extension): most operations
            # meet a record that an EARLIER spelling left behind
            st = rng.sample(["a", "ba", "b"], 2)
            pool = [x for x in st + [f"{t}.{sfx}" for t in st] + foreign_ids(sfx) + (zip_ids(sfx) if sfx in ZSFXS else [])
                    if spec_stem(x, sfx) in st or x in st]
        else:
            pool = prop_ids(sfx) + (dot_family(sfx) if rng.random() < 0.5 else []) + (spec_odd_ids(sfx) if rng.random() < 0.25 else [])
            if kind == "dir":
                pool = pool + (foreign_ids(sfx) if rng.random() < 0.4 else []) + (zip_ids(sfx) if sfx in ZSFXS else [])
        mode, ops = gen_history(rng, kind, sfx, pool, nmax=40 if i % 3 else 12, subdirs=0 if sfx in ZSFXS else 0.02, log_ids=["run.log", "l2", "l3.log"],
                                same_record=0.5 if kind == "dir" and r < 0.3 else 0.0)
        cases.append((kind, sfx, mode, [op for op in ops if op[0] != "obs"]))
    seen_sigs = {}
    # which histories satisfy the hypotheses (hyg, safeHist) of store_refines_dict_partial
    covered = {}
    drv = getattr(ctx, "driver", None)
    if drv is not None:
        idx = [i for i, c in enumerate(cases) if c[0] == "dir"]
        reqs = []
        for i in idx:
            kind, sfx, mode, ops = cases[i]
            ids = sorted({op[1] for op in ops if op[0] in ("w", "nc", "drop") and op[1]})
            reqs.append(("safe", dict(sfx=sfx, mode=mode, ids=ids, ops=ops)))
        for i, r in zip(idx, drv.batch(reqs)):
            covered[i] = bool(r.get("hyg") and r.get("safe"))
        idx2 = [i for i, c in enumerate(cases) if c[0] == "sql"]
        for i, r in zip(idx2, drv.batch([("safe_sql", dict(mode=cases[i][2], ops=cases[i][3])) for i in idx2])):
            covered[i] = bool(r.get("safe"))
    for i, (kind, sfx, mode, ops) in enumerate(cases):
        fs, st = check_history_all(ctx, kind, sfx, mode, _with_obs(ops), tag=f"s{i}")
        out["evaluations"] += 1
        if i in covered:
            bump(out, f"{kind}_history_satisfies_theorem_hypotheses", covered[i])
        for f in fs:
            # predicted by the theorems: a completed md5 missing after retiring (lostRun), FileNotFoundError of drop-all without directory (expectRes)
            # (the theorems say nothing about directory creation by a read-only store: readonly_creates_directory_counter)
            predicted = ("c-md5-missing", "readonly-created-directory") + (
                ("unexpected-raise",) if f["sig"].startswith("dir:drop:unexpected-raise:raised-FileNotFoundError") else ())
            if covered.get(i) and any(a.split(":")[2] not in predicted for a in sig_atoms(f["sig"])):
                # theorem + model say this history refines the dictionary (up to a missing completed md5)
                add_failure(out, "corr", "hypotheses of (sqlite_)store_refines_dict_partial hold for this history but the real store differs from the dictionary",
                            f["input"], f["expected"], f["got"], confirmed=False, sig="theorem-hypotheses-vs-real:" + f["sig"])
        bump(out, "spec_stream", "exhaustive-small" if i < small_n else "random")
        bump(out, "spec_store", kind)
        bump(out, "spec_store_suffix", sfx if kind == "dir" else "(sqlite)")
        if st["ops"] - st["rejected"] >= 4:
            out["nontrivial"].add((kind, sfx, mode, str(ops)))
        if not fs:
            bump(out, "spec_result", "agrees")
            if len(out["samples"]) < 3 and 5 < len(ops) < 12:
                out["samples"].append(dict(store=kind, sfx=sfx, mode=mode, ops=ops, agrees_with_dictionary=True))
            continue
        bump(out, "spec_result", "differs")
        for f in fs:
            bump(out, "spec_sig", f["sig"])
            if f["sig"] in seen_sigs:
                # keep the shortest history per signature
                if len(f["input"]["ops"]) >= len(seen_sigs[f["sig"]]["input"]["ops"]):
                    continue
            seen_sigs[f["sig"]] = f
    for sig, f in sorted(seen_sigs.items()):
        inp = f["input"]
        small = _shrink(ctx, inp["store"], inp["sfx"], inp["mode"], inp["ops"], sig)
        fs2, _ = check_history_all(ctx, inp["store"], inp["sfx"], inp["mode"], _with_obs(small), tag="final")
        for f2 in fs2:
            if f2["sig"] == sig:
                f = f2
        add_failure(out, "spec", f["what"], f["input"], f["expected"], f["got"], confirmed=True, sig=sig)
    _io_stream(ctx, out, budget)
    _zip_spec_stream(ctx, out, budget)
    return out


# --------------------------------------------------------------------------
# records written THROUGH the writer apps of app/io.py
# --------------------------------------------------------------------------
def _io_objects():
    """{writer: [(label, object, falsy?)]}: valid completed results, several of them falsy, for each writer app"""
    import cogent3
    from cogent3.util.table import Table

    aln = cogent3.make_aligned_seqs({"s1": "ACGT", "s2": "AC-T"}, moltype="dna")
    aln0 = cogent3.make_aligned_seqs({"s1": "", "s2": ""}, moltype="dna")  # zero-length alignment: bool() is False
    seqs = cogent3.make_unaligned_seqs({"s1": "ACGT", "s2": "ACT"}, moltype="dna")
    tab = Table(header=["a", "b"], data=[[1, 2], [3, 4]])
    tab0 = Table(header=["a", "b"], data=[])  # header, zero rows: bool() is False
    prim = [("dict", {"k": [1, 2]}), ("empty-dict", {}), ("empty-list", []), ("zero", 0), ("empty-str", ""), ("table", tab),
            ("empty-table", tab0), ("alignment", aln), ("empty-alignment", aln0)]
    return {
        "write_json": prim,
        "write_db": prim,
        "write_seqs": [("alignment", aln), ("collection", seqs), ("empty-alignment", aln0)],
        "write_tabular": [("table", tab), ("empty-table", tab0)],
    }


def io_case(ctx, writer, store, mode, plan, tag="io"):
    """plan: [(identifier, label | 'NotCompleted')]; each record is written by `writer.main(data=..., identifier=...)`
    (the call apply_to makes).  Returns failure dict | None."""
    from cogent3.app import io as io_app
    from cogent3.app.composable import NotCompleted
    from cogent3.app.data_store import DataStoreDirectory
    from cogent3.app.sqlite_data_store import DataStoreSqlite

    sfx = {"write_json": "json", "write_seqs": "fasta", "write_tabular": "tsv", "write_db": "json"}[writer]
    path = ctx.scratch / f"{tag}_{writer}_{store}"
    objs = dict(_io_objects()[writer])
    if store == "dir":
        shutil.rmtree(path, ignore_errors=True)
        ds = DataStoreDirectory(path, mode=mode, suffix=sfx)
    else:
        for q in (str(path), str(path) + ".sqlitedb"):
            if os.path.exists(q):
                os.remove(q)
        ds = DataStoreSqlite(path, mode=mode)
    inp = dict(stream="io", writer=writer, store=store, mode=mode, plan=[list(p) for p in plan])
    try:
        app = getattr(io_app, writer)(data_store=ds)
        want_c, want_nc = {}, {}
        for ident, label in plan:
            if label == "NotCompleted":
                obj = NotCompleted("ERROR", "c13-harness", f"failed {ident}", source=ident)
                # write_json / write_seqs / write_tabular hand '<identifier>.json' to write_not_completed, write_db the identifier
                want_nc[(f"{NCP}{ident}.json" if store == "dir" else (ident if writer == "write_db" else f"{ident}.json"))] = label
            else:
                obj = objs[label]
                want_c[(f"{ident}.{sfx}" if store == "dir" else ident)] = label
            try:
                app.main(data=obj, identifier=ident)
            except Exception as e:  # noqa: BLE001
                return dict(what=f"{writer}.main raised {type(e).__name__} for a valid {label} result", input=dict(inp, at=ident),
                            expected="record stored", got=repr(e)[:200], sig=f"io:{writer}:{store}:raised-{type(e).__name__}:{label}")
        for where, d in (("same store object", ds), ("freshly re-opened store", None)):
            if d is None:
                if store == "sql":
                    db = getattr(ds, "_db", None)
                    if db is not None:
                        db.close()
                d = DataStoreDirectory(path, mode="r", suffix=sfx) if store == "dir" else DataStoreSqlite(path, mode="r")
            got_c = sorted(m.unique_id for m in d.completed)
            got_nc = sorted(m.unique_id for m in d.not_completed)
            if got_c != sorted(want_c) or got_nc != sorted(want_nc):
                wrong = sorted((set(got_nc) - set(want_nc)) | (set(want_c) - set(got_c)))
                labels = sorted({lab for k, lab in want_c.items() if k not in got_c})
                cls = "completed-stored-as-not-completed" if labels and set(got_nc) - set(want_nc) else "membership"
                return dict(what=f"records written through {writer} ({where}): completed / not_completed membership differs from the dictionary",
                            input=inp, expected=dict(c=sorted(want_c), nc=sorted(want_nc)), got=dict(c=got_c, nc=got_nc),
                            sig=f"io:{writer}:{store}:{cls}:{'+'.join(labels) or 'other'}")
            for m in list(d.completed) + list(d.not_completed):
                content = m.read()
                md5 = d.md5(m.unique_id)
                ok = content is not None and len(content) > 0 and md5 == (md5hex(content) if isinstance(content, str) else hashlib.md5(content).hexdigest())
                if not ok:
                    return dict(what=f"record {m.unique_id} written through {writer} ({where}) has no content or a wrong md5", input=inp,
                                expected="content with matching md5", got=dict(content=repr(content)[:80], md5=md5), sig=f"io:{writer}:{store}:content-md5")
            if store == "sql" and d is not ds:
                db = getattr(d, "_db", None)
                if db is not None:
                    db.close()
    finally:
        if store == "sql":
            db = getattr(ds, "_db", None)
            if db is not None:
                db.close()
            for q in (str(path), str(path) + ".sqlitedb"):
                if os.path.exists(q):
                    os.remove(q)
        else:
            shutil.rmtree(path, ignore_errors=True)
    return None


def _io_stream(ctx, out, budget):
    rng = ctx.subrng(f"io{budget}")
    objs = _io_objects()
    # identifiers none of which is a suffix of another (the io stream is about the writers, not about C13-drop-suffix-match)
    ids = [f"rec{i}x" for i in range(1, 9)]
    cases = []
    for writer, lst in objs.items():
        for store in (("sql",) if writer == "write_db" else ("dir", "sql")):
            # every object kind once + a genuine NotCompleted, in both writable modes
            for mode in ("w", "a"):
                plan = [(ids[i % len(ids)] + (str(i) if i >= len(ids) else ""), lab) for i, (lab, _) in enumerate(lst)]
                plan.append(("failed1", "NotCompleted"))
                rng.shuffle(plan)
                cases.append((writer, store, mode, plan))
            for _ in range(budget):
                n = rng.randint(1, 6)
                chosen = rng.sample(ids, n)
                plan = [(i, "NotCompleted" if rng.random() < 0.35 else rng.choice(lst)[0]) for i in chosen]
                cases.append((writer, store, rng.choice(["w", "a"]), plan))
    seen = set()
    for k, (writer, store, mode, plan) in enumerate(cases):
        f = io_case(ctx, writer, store, mode, plan, tag=f"io{k}")
        out["evaluations"] += 1
        bump(out, "io_writer", f"{writer}:{store}")
        for _, lab in plan:
            bump(out, "io_objects", lab)
        if len(plan) >= 2:
            out["nontrivial"].add(("io", writer, store, mode, str(plan)))
        if f is not None and f["sig"] not in seen:
            seen.add(f["sig"])
            add_failure(out, "spec", f["what"], f["input"], f["expected"], f["got"], confirmed=True, sig=f["sig"])
    if len(out["samples"]) < 6 and cases:
        w, st, m, pl = cases[0]
        out["samples"].append(dict(stream="io", writer=w, store=st, mode=m, plan=pl, agrees_with_dictionary=True))


# --------------------------------------------------------------------------
# ReadOnlyDataStoreZipped: a zipped directory store lists what the directory store lists
# --------------------------------------------------------------------------
ZIP_SFXS = ["fasta", "json", "txt", "log", "fa.gz"]


def _zip_build(ctx, sfx, plan, tag):
    """write the plan [(w|nc|log, id, data)] to a fresh DataStoreDirectory (mode w), zip the directory -> (dir path, zip path, top)"""
    from cogent3.app.data_store import DataStoreDirectory

    base = ctx.scratch / f"zip_{tag}"
    shutil.rmtree(base, ignore_errors=True)
    base.mkdir(parents=True)
    top = "st"
    ds = DataStoreDirectory(base / top, mode="w", suffix=sfx)
    for kind, uid, data in plan:
        try:
            if kind == "w":
                ds.write(unique_id=uid, data=data)
            elif kind == "nc":
                ds.write_not_completed(unique_id=uid, data=data)
            elif kind == "log":
                ds.write_log(unique_id=uid, data=data)
            else:  # "file": a foreign file put into the directory by hand (both stores must ignore / list it alike)
                q = base / top / uid
                if q.parent.is_dir():
                    q.write_text(data)
        except (OSError, ValueError):
            pass
    z = shutil.make_archive(str(base / top), "zip", root_dir=str(base), base_dir=top)
    return base / top, z, top


def _zip_listing(ds):
    return dict(c=[m.unique_id for m in ds.completed], nc=[m.unique_id for m in ds.not_completed], logs=[str(m.unique_id) for m in ds.logs])


def zip_case(ctx, sfx, plan, tag="zip"):
    """the spec: ReadOnlyDataStoreZipped(<zip of the directory>) lists the same completed / not-completed / log members as
    DataStoreDirectory(<directory>, mode='r'), and read() / md5() of each agree.  -> failure dict or None"""
    import zipfile

    from cogent3.app.data_store import DataStoreDirectory, ReadOnlyDataStoreZipped

    d, z, top = _zip_build(ctx, sfx, plan, tag)
    try:
        dd = DataStoreDirectory(d, mode="r", suffix=sfx)
        zz = ReadOnlyDataStoreZipped(z, suffix=sfx)
        want, got = _zip_listing(dd), _zip_listing(zz)
        parts = []
        with zipfile.ZipFile(z) as a:
            names = [n for n in a.namelist() if not n.endswith("/")]
        for key in ("c", "nc", "logs"):
            w, g = sorted(want[key]), sorted(got[key])
            if w == g:
                continue
            extra = list(g)
            for x in w:
                if x in extra:
                    extra.remove(x)
            missing = [x for x in w if x not in g]
            for x in extra:
                # where does the extra member come from: a file of a sub-directory, or a second listing of a top-level file
                parents = sorted({n.split("/")[-2] for n in names if n.split("/")[-1] == x.split("/")[-1] and n.split("/")[-2] != top})
                parts.append(f"{key}-lists-{'|'.join(parents) if parents else 'unknown'}-file")
            if missing:
                parts.append(f"{key}-missing")
        # read()/md5 are compared for single-part suffixes only (a zipped store hands back the stored bytes of a compressed
        # record undecompressed; whether that is intended is not examined here)
        if not parts and "." not in sfx:
            for key, lst in (("c", want["c"]), ("nc", want["nc"])):
                for uid in lst:
                    try:
                        a, b = dd.read(uid), zz.read(uid)
                    except Exception as e:  # noqa: BLE001
                        a, b = "read", type(e).__name__
                    if a != b:
                        parts.append(f"{key}-read-differs")
                    if dd.md5(uid) != zz.md5(uid):
                        parts.append(f"{key}-md5-differs")
        if not parts:
            return None
        parts = sorted(set(parts))
        return dict(
            what="ReadOnlyDataStoreZipped on a zipped DataStoreDirectory does not show the directory store's records",
            input=dict(stream="zip", store="zip", sfx=sfx, plan=[list(p) for p in plan]),
            expected={k: sorted(v) for k, v in want.items()}, got={k: sorted(v) for k, v in got.items()},
            sig=f"zip:listing:{'+'.join(parts)}:-",
        )
    finally:
        shutil.rmtree(d.parent, ignore_errors=True)


def _zip_plans(rng, n):
    ids = ["a", "b", "ba", "x.y", "a.b"]
    plans = []
    for sfx in ZIP_SFXS:
        plans.append((sfx, [("w", "a", "AAA"), ("nc", "b", "{}"), ("log", "run.log", "LOG")]))
    for _ in range(n):
        sfx = rng.choice(ZIP_SFXS)
        k = rng.randint(1, 6)
        plan = []
        for i in range(k):
            kind = rng.choice(["w", "w", "nc", "nc", "log"])
            uid = rng.choice(ids) if kind != "log" else rng.choice(["run.log", "r2.log"])
            plan.append((kind, uid, f"d{i}"))
        # foreign files (no dot-files: the zipped store skips them on purpose, the directory store's glob does not)
        for _ in range(rng.choice([0, 1, 2])):
            plan.append(("file", rng.choice(["logs/notes.txt", "not_completed/readme.txt", "notes.txt", "not_completed/extra.json", "logs/old.log", "md5/zz.txt", "other.json"]), "foreign"))
        plans.append((sfx, plan))
    return plans


def _zip_spec_stream(ctx, out, budget):
    rng = ctx.subrng(f"zip{budget}")
    seen = set()
    plans = _zip_plans(rng, 6 * budget)
    for i, (sfx, plan) in enumerate(plans):
        f = zip_case(ctx, sfx, plan, tag=f"s{i}")
        out["evaluations"] += 1
        bump(out, "stream", "zip")
        bump(out, "zip_sfx", sfx)
        if len({k for k, _, _ in plan}) >= 2:
            out["nontrivial"].add(("zip", sfx, str(plan)))
        if f is not None and f["sig"] not in seen:
            seen.add(f["sig"])
            # shrink: drop plan steps while the same signature is reported
            small = list(plan)
            j = 0
            while j < len(small) and len(small) > 1:
                cand = small[:j] + small[j + 1:]
                g = zip_case(ctx, sfx, cand, tag=f"s{i}m")
                if g is not None and g["sig"] == f["sig"]:
                    small, f = cand, g
                else:
                    j += 1
            add_failure(out, "spec", f["what"], f["input"], f["expected"], f["got"], confirmed=True, sig=f["sig"])
    if plans and len(out["samples"]) < 8:
        out["samples"].append(dict(stream="zip", sfx=plans[0][0], plan=[list(p) for p in plans[0][1]]))


def _zip_corr_stream(ctx, out):
    """model (Model/DataStoreZip.lean) vs the real ReadOnlyDataStoreZipped: the three listings, in namelist order, of real archives"""
    import zipfile

    from cogent3.app.data_store import ReadOnlyDataStoreZipped

    rng = ctx.subrng("zipcorr")
    reqs, real = [], []
    for i, (sfx, plan) in enumerate(_zip_plans(rng, ctx.budget(12, 60))):
        d, z, top = _zip_build(ctx, sfx, plan, f"c{i}")
        try:
            with zipfile.ZipFile(z) as a:
                names = a.namelist()
            real.append(_zip_listing(ReadOnlyDataStoreZipped(z, suffix=sfx)))
            reqs.append(dict(sfx=sfx, top=top, names=names))
        finally:
            shutil.rmtree(d.parent, ignore_errors=True)
    got = ctx.driver.batch([("zip", r) for r in reqs])
    # which `completed` does the tree implement: every entry (code as it is) or top-level entries only (proposed repair)
    variant = None
    for r, g, w in zip(reqs, got, real):
        if g["c"] != g["ctop"]:
            variant = "ctop" if w["c"] == g["ctop"] else "c"
            break
    variant = variant or "c"
    ctx.notes.append(f"ReadOnlyDataStoreZipped.completed variant detected by behaviour: {'top-level entries only (repair)' if variant == 'ctop' else 'every archive entry (code as it is)'}")
    for r, g, w in zip(reqs, got, real):
        out["evaluations"] += 1
        m = dict(c=g[variant], nc=g["nc"], logs=g["logs"])
        if m != w:
            add_failure(out, "corr", "model of ReadOnlyDataStoreZipped listing differs from the real store", r, w, m, confirmed=False)
        elif len(r["names"]) > 4:
            out["nontrivial"].add(("zipcorr", r["sfx"], str(r["names"])))
    bump(out, "stream", "zipcorr")


# --------------------------------------------------------------------------
# findings
# --------------------------------------------------------------------------
def sig_atoms(sig):
    """'store:op:p1+p2:feats' -> ['store:op:p1:feats', 'store:op:p2:feats']"""
    try:
        store, op, parts, feats = sig.split(":", 3)
    except ValueError:
        return [sig]
    return [f"{store}:{op}:{p}:{feats}" for p in parts.split("+")]


def _explains(k, atom, inp):
    r = k.get("restrict") or {}
    if r.get("store") and inp.get("store") != r["store"]:
        return False
    if r.get("sfx") and inp.get("sfx") not in r["sfx"]:
        return False
    return atom in k.get("sigs", []) or any(re.fullmatch(p, atom) for p in k.get("sig_patterns", []))


def match_finding(f, k):
    """a failure is explained by finding k iff one of its atoms (store:op:difference:features) matches k and every
    other atom matches some listed finding -- an unexplained difference keeps the failure unlisted"""
    from .common import load_known

    atoms = sig_atoms(f.get("sig") or "")
    inp = f.get("input") or {}
    if not any(_explains(k, a, inp) for a in atoms):
        return False
    known = load_known(PROP)
    return all(any(_explains(k2, a, inp) for k2 in known) for a in atoms)


def check_witness(ctx, w):
    if w.get("stream") == "zip":
        f = zip_case(ctx, w["sfx"], [tuple(p) for p in w["plan"]], tag="witness")
        if f is None:
            return None
        out = new_outcome()
        add_failure(out, "spec", f["what"], f["input"], f["expected"], f["got"], confirmed=True, sig=f["sig"])
        return out["failures"][0]
    if w.get("stream") == "io":
        f = io_case(ctx, w["writer"], w["store"], w["mode"], [tuple(p) for p in w["plan"]], tag="witness")
        if f is None:
            return None
        out = new_outcome()
        add_failure(out, "spec", f["what"], f["input"], f["expected"], f["got"], confirmed=True, sig=f["sig"])
        return out["failures"][0]
    ops = [op for op in w["ops"] if op[0] != "obs"]
    fs, _ = check_history_all(ctx, w["store"], w["sfx"], w["mode"], _with_obs(ops), tag="witness")
    if not fs:
        return None
    f = fs[0]
    out = new_outcome()
    add_failure(out, "spec", f["what"], f["input"], f["expected"], f["got"], confirmed=True, sig=f["sig"])
    return out["failures"][0]


def replay(ctx, data):
    f = data.get("failing_input") or {}
    inp = f.get("input")
    if inp and inp.get("stream") == "zip":
        g = zip_case(ctx, inp["sfx"], [tuple(p) for p in inp["plan"]], tag="replay")
        if g:
            print("signature:", g["sig"], "expected:", g["expected"], "got:", g["got"])
        return g is not None
    if inp and inp.get("stream") == "io":
        g = io_case(ctx, inp["writer"], inp["store"], inp["mode"], [tuple(p) for p in inp["plan"]], tag="replay")
        if g:
            print("signature:", g["sig"], "expected:", g["expected"], "got:", g["got"])
        return g is not None
    if not inp or "ops" not in inp:
        return False
    ops = [op for op in inp["ops"] if op[0] != "obs"]
    gs, _ = check_history_all(ctx, inp["store"], inp["sfx"], inp["mode"], _with_obs(ops), tag="replay")
    want = f.get("sig")
    gs = [g for g in gs if g["sig"] == want] or gs
    for g in gs[:1]:
        print("signature:", g["sig"])
        print("expected:", g["expected"])
        print("got:     ", g["got"])
    return bool(gs)
