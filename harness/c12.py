"""C12 — Translation and complementing follow the genetic-code tables.

generate        : translator/tables2lean.py re-extracts every genetic-code table and the IUPAC tables of both
                  moltype modules from the repository's CURRENT source into lean/CogentModel/Gen/C12Tables.lean
correspondence  : Lean model (drv_c12) vs the real implementation on the same inputs
spec_check      : the real implementation vs an independent oracle (table look-up codon by codon on the plain
                  string, reverse strand via an explicit reverse complement, hard-coded IUPAC base sets)
"""
from __future__ import annotations

import itertools
import sys

from .common import LEAN, SRC, add_failure, bump, new_outcome

PROP = "C12"
PROPS_FILES = ["CogentModel/Props/C12.lean", "CogentModel/Props/C12Gen.lean", "CogentModel/Props/C12State.lean"]
LEAN_TARGETS = ["CogentModel.Props.C12", "CogentModel.Props.C12Gen", "CogentModel.Props.C12State"]
DRIVER = "drv_c12"
TRUSTED = [
    "translator/c12_code2lean.py (python ast -> Lean for genetic_code / new_genetic_code translate, sixframes, __getitem__, is_stop, "
    "_simple_rc and the Sequence stop-handling methods) with its primitive semantics Model/GeneticCodePrims.lean (Python slices, "
    "range, dict.get, str methods; the dictionaries built by the constructors are compared with the runtime objects each run)",
    "translator/tables2lean.py (ast extraction of the code/IUPAC tables; the generated tables are compared with the "
    "runtime objects of the four modules on every run)",
    "hand-written model lean/CogentModel/Model/GeneticCode.lean of KmerAlphabet index arithmetic, the byte-translate "
    "converters, old/new translate + sixframes, complement / ambiguity functions, gap-free get_translation "
    "(tied by exhaustive codon tables over a 14-letter alphabet x all codes and seeded random sequences)",
    "Spec/GeneticCode.lean (table look-up on plain strings), validated against the Python oracle each run",
]
ASSUMPTIONS = [
    "theorems speak about canonical (TCAG) sequences; gapped / ambiguous / lower-case input is covered by the "
    "correspondence and by the X/- rules of the model only",
    "numpy byte layout of k-mer index arrays is modelled as little-endian with width chosen by get_array_type",
    "alignment / app entry points are exercised against the oracle, not modelled in Lean; the derived state of a collection "
    "(reversed flags, views) is not modelled: collection theorems speak about the displayed rows",
]

GEN_PATH = LEAN / "CogentModel" / "Gen" / "C12Tables.lean"
GEN_CODE_PATH = LEAN / "CogentModel" / "Gen" / "C12Code.lean"
BASES = "TCAG"
EXT_ALPHA = "TCAG-?NRYtaU"  # canonical, gap, missing, ambiguity, lower case, RNA
IUPAC_SETS = {
    "A": "A", "C": "C", "G": "G", "T": "T", "R": "AG", "Y": "CT", "W": "AT", "S": "CG", "K": "GT", "M": "AC",
    "B": "CGT", "D": "AGT", "H": "ACT", "V": "ACG", "N": "ACGT",
}
_state = {}


# --------------------------------------------------------------------------
# translator step
# --------------------------------------------------------------------------
def _tables():
    if "tables" not in _state:
        from translator import tables2lean

        t, probs, notes, changed = tables2lean.generate(SRC, GEN_PATH, sys.executable)
        _state.update(tables=t, probs=probs, notes=notes, changed=changed)
    return _state["tables"]


def generate(ctx):
    _state.clear()
    _tables()
    ctx.notes += _state["notes"]
    if _state["changed"]:
        ctx.notes.append("Gen/C12Tables.lean was rewritten (source tables changed or first run)")
    problems = list(_state["probs"])
    # the pure-Python translation / stop-handling functions -> Gen/C12Code.lean (Props/C12Gen.lean proves every
    # generated definition equal to the hand model)
    from translator import c12_code2lean

    text, probs = c12_code2lean.translate(SRC.parent)
    if c12_code2lean.write_if_changed(GEN_CODE_PATH, text):
        ctx.notes.append("Gen/C12Code.lean was rewritten (translated functions differ from the last generated text, or first run)")
    problems += [f"c12_code2lean: {p}" for p in probs]
    return problems


# --------------------------------------------------------------------------
# the independent oracle (plain strings)
# --------------------------------------------------------------------------
def _codons():
    return ["".join(c) for c in itertools.product(BASES, repeat=3)]


def _oracle_table(code_seq):
    return dict(zip(_codons(), code_seq))


def _code_seqs(which="new_codes"):
    return {r[0]: r[2] for r in _tables()[which]}


def o_rc(s):
    return s.translate(str.maketrans("ACGT", "TGCA"))[::-1]


def o_translate(code_seq, s):
    tbl = _oracle_table(code_seq)
    return "".join(tbl[s[i : i + 3]] for i in range(0, len(s) - 2, 3))


def o_frame(code_seq, s, minus, k):
    return o_translate(code_seq, (o_rc(s) if minus else s)[k:])


def o_get_translation(code_seq, s, incomplete_ok, include_stop, trim_stop, strict_length=True):
    """pep or None (= rejected).  `strict_length`: a length that is not a multiple of three is rejected when a
    terminal stop is to be trimmed and incomplete_ok is False (what the Lean spec says; the property itself does
    not demand it, so the judge below accepts either outcome there)"""
    if strict_length and trim_stop and not incomplete_ok and len(s) % 3:
        return None
    p = o_translate(code_seq, s)
    if trim_stop and len(s) % 3 == 0 and p.endswith("*"):
        p = p[:-1]
    if not include_stop and "*" in p:
        return None
    return p


# --------------------------------------------------------------------------
# real implementation access
# --------------------------------------------------------------------------
def _ogc(i):
    from cogent3.core import genetic_code

    return genetic_code.get_code(i)


def _ngc(i):
    from cogent3.core import new_genetic_code

    return new_genetic_code.get_code(i)


def _errname(e):
    return type(e).__name__


def _call(f):
    try:
        return f()
    except Exception as e:  # canonicalised to the class name
        return {"err": _errname(e)}


def _old_seq(s, moltype="dna"):
    import cogent3

    return cogent3.make_seq(s, name="s", moltype=moltype)


def _new_seq(s, moltype="dna"):
    from cogent3.core import new_moltype

    return new_moltype.get_moltype(moltype).make_seq(seq=s, name="s")


def real_translate(impl, code, s, start, rc=False, form="str"):
    if impl == "new":
        gc = _ngc(code)
        arg = s
        if form == "array":
            arg = gc.codons.monomers.to_indices(s)
        return _call(lambda: gc.translate(arg, start, rc=rc))
    gc = _ogc(code)
    return _call(lambda: gc.translate(s, start))


def real_sixframes(impl, code, s):
    if impl == "new":
        return _call(lambda: [list(x) for x in _ngc(code).sixframes(s)])
    return _call(lambda: list(_ogc(code).sixframes(_old_seq(s))))


def real_seq_tr(impl, code, s, io, is_, ts, moltype="dna", via_rc=False):
    def run():
        if moltype == "rna":
            t = s.replace("T", "U")
        else:
            t = s
        mk = _old_seq if impl == "old" else _new_seq
        if via_rc:
            comp = str.maketrans("ACGTU", "TGCAA" if moltype == "dna" else "UGCAA")
            seq = mk(t.translate(comp)[::-1], moltype).rc()
        else:
            seq = mk(t, moltype)
        gc = _ogc(code) if impl == "old" else _ngc(code)
        return str(seq.get_translation(gc=gc, incomplete_ok=io, include_stop=is_, trim_stop=ts))

    return _call(run)


COLL_KINDS = ["old.SequenceCollection", "old.ArrayAlignment", "old.Alignment", "new.SequenceCollection", "app.translate_seqs"]


def real_coll_tr(kind, code, seqs, io, is_, ts, moltype="dna", history=()):
    """`history`: operations applied to the freshly built collection before translating (harness/c12_hist.py); `seqs` are
    the sequences the collection displays at the time of the call"""

    def run():
        import cogent3

        from . import c12_hist

        shown = [(s.replace("T", "U") if moltype == "rna" else s) for s in seqs]
        o = c12_hist.build(kind, shown, moltype, history)
        if kind in COLL_KINDS[:4]:
            r = o.get_translation(gc=code, incomplete_ok=io, include_stop=is_, trim_stop=ts)
        elif kind == "app.translate_seqs":
            app = cogent3.get_app("translate_seqs", moltype=moltype, gc=code, trim_terminal_stop=ts)
            r = app.main(o)
            if not hasattr(r, "to_dict"):
                raise ValueError(str(r)[:200])
        else:
            raise ValueError(kind)
        rd = r.to_dict()
        return [str(rd[f"s{i}"]) for i in range(len(seqs))]

    return _call(run)


def _moltypes():
    from cogent3.core import moltype as om
    from cogent3.core import new_moltype as nm

    return {"olddna": om.DNA, "oldrna": om.RNA, "newdna": nm.DNA, "newrna": nm.RNA}


def real_sym(mtname, op, arg):
    mt = _moltypes()[mtname]
    old = mtname.startswith("old")

    def run():
        if op == "complement":
            return str(mt.complement(arg)) if old else mt.complement(arg, validate=False)
        if op == "rc":
            return str(mt.rc(arg)) if old else mt.rc(arg, validate=False)
        if op == "resolve":
            return "".join(sorted(set(mt.resolve_ambiguity(arg))))
        if op == "what":
            return mt.what_ambiguity(arg) if old else mt.degenerate_from_seq(arg)
        raise ValueError(op)

    return _call(run)


# --------------------------------------------------------------------------
# input generators
# --------------------------------------------------------------------------
def _rand_seq(rng, n, flavour="canon"):
    if flavour == "canon":
        return "".join(rng.choice(BASES) for _ in range(n))
    if flavour == "stops":  # canonical but rich in stop codons
        out = []
        while len(out) < n:
            out += list(rng.choice(["TAA", "TAG", "TGA", "AGA", "TCA", "TTA"]) if rng.random() < 0.25 else "".join(rng.choice(BASES) for _ in range(3)))
        s = "".join(out)
        k = rng.randint(0, 2)
        return (s[k:] + s[:k])[:n]
    alpha = BASES * 4 + "-?NRYWSKMBDHV" + ("tcagu" if flavour == "any" else "")
    return "".join(rng.choice(alpha) for _ in range(n))


def _code_ids():
    return sorted(_code_seqs("new_codes"))


# --------------------------------------------------------------------------
# correspondence: Lean model vs real implementation
# --------------------------------------------------------------------------
def correspondence(ctx):
    out = new_outcome(
        "model vs implementation: generated tables vs runtime objects; every codon over a 12-letter alphabet "
        "(canonical, gap, missing, ambiguity, lower case, U) x every code through plus converter / minus converter / "
        "old+new __getitem__; translate (old, new str, new array) for every length 0-40 x every start x both strands "
        "plus lengths around 768 nt (index dtype switch); sixframes old+new; gap-free get_translation old+new x 8 stop "
        "option combinations; complement/rc/resolve/what on all IUPAC symbols and symbol sets of 4 moltypes; "
        "non-trivial = distinct inputs whose real result is non-empty or an exception"
    )
    drv = ctx.driver
    rng = ctx.subrng("corr")
    ids = _code_ids()
    old_ids = sorted(_code_seqs("old_codes"))
    both = [i for i in ids if i in old_ids]

    # 1. generated tables vs runtime objects ---------------------------------------------------------
    tj = drv.batch([("tables", {})])[0]
    from cogent3.core import genetic_code as og
    from cogent3.core import new_genetic_code as ng

    real_old = [[g.ID, g.name, g.code_sequence, g.start_codon_sequence] for g in og.NcbiGeneticCodeData]
    cods = _codons()
    real_new = []
    for k, g in ng._CODES.items():
        if isinstance(k, int):
            seq = "".join(g._codon_to_aa[c] for c in cods)
            starts = "".join("M" if c in g.start_codons else "-" for c in cods)
            real_new.append([g.ID, g.name, seq, starts])
    for name, real, mod in (("old_codes", real_old, tj["old_codes"]), ("new_codes", real_new, tj["new_codes"])):
        out["evaluations"] += 1
        if name == "new_codes":
            mod = [[i, n, s, "".join("M" if c == "M" else "-" for c in st)] for i, n, s, st in mod]
        if sorted(real) != sorted(mod):
            diff = [r for r in real if r not in mod][:2] + [m for m in mod if m not in real][:2]
            add_failure(out, "corr", f"generated {name} differ from the runtime objects", dict(table=name), diff, "(see expected)", confirmed=False)
        else:
            out["nontrivial"].add(("tables", name))
    mts = _moltypes()
    for mtname, mt in mts.items():
        out["evaluations"] += 1
        m = tj[mtname]
        if mtname.startswith("old"):
            real = dict(
                chars="".join(mt.alphabet), gap=mt.gap, missing=mt.missing,
                ambig=sorted((k, "".join(sorted(v))) for k, v in mt.degenerates.items() if k != mt.missing),
                compl=sorted(mt.complements.items()),
            )
        else:
            real = dict(
                chars="".join(mt.alphabet), gap=mt.gap, missing=mt.missing,
                ambig=sorted((k, "".join(sorted(v))) for k, v in mt.ambiguities.items()),
                compl=None,
            )
        modd = dict(
            chars=m["chars"], gap=m["gap"], missing=m["missing"],
            ambig=sorted((k, "".join(sorted(v))) for k, v in m["ambig"]),
            compl=sorted((k, v) for k, v in m["compl"]) if real["compl"] is not None else None,
        )
        if real != modd:
            add_failure(out, "corr", f"generated IUPAC tables of {mtname} differ from the runtime moltype", dict(moltype=mtname), real, modd, confirmed=False)
        else:
            out["nontrivial"].add(("tables", mtname))

    # 2. every codon over the extended alphabet x every code -----------------------------------------
    ext = ["".join(c) for c in itertools.product(EXT_ALPHA, repeat=3)]
    reps = drv.batch([("codontable", dict(code=i, alpha=EXT_ALPHA)) for i in ids])
    for i, rep in zip(ids, reps):
        ngc = _ngc(i)
        ogc = _ogc(i) if i in old_ids else None
        real = dict(
            plus="".join(ngc.translate(c) for c in ext),
            minus="".join(ngc.translate(c, rc=True) for c in ext),
            newget="".join(ngc[c] for c in ext),
            oldget="".join(ogc[c] for c in ext) if ogc else None,
        )
        for key in ("plus", "minus", "newget", "oldget"):
            out["evaluations"] += len(ext)
            bump(out, "codon_lookup", key)
            if real[key] != rep[key]:
                j = next(k for k in range(len(ext)) if (real[key] or "")[k : k + 1] != (rep[key] or "")[k : k + 1])
                add_failure(out, "corr", f"codon look-up mismatch ({key})", dict(code=i, codon=ext[j], path=key), rep[key][j : j + 1] if rep[key] else None, real[key][j : j + 1] if real[key] else None, confirmed=False)
            else:
                out["nontrivial"].add(("codontable", i, key))
        # the Lean spec's table against the oracle's
        if rep["spec"] != "".join(_oracle_table(_code_seqs()[i]).get(c, "X") for c in ext):
            add_failure(out, "corr", "Spec.GeneticCode.aa differs from the Python oracle", dict(code=i), "oracle", rep["spec"][:64], confirmed=False)

    # 3. translate / sixframes ---------------------------------------------------------------------
    cases = []
    for n in range(0, 41):
        for flavour in ("canon", "canon", "stops", "degen", "any"):
            cases.append((rng.choice(ids), _rand_seq(rng, n, flavour)))
    for n in (762, 765, 767, 768, 769, 771, 774, 1000):
        cases.append((rng.choice(ids), _rand_seq(rng, n, "canon")))
    if ctx.thorough:
        for _ in range(3000):
            cases.append((rng.choice(ids), _rand_seq(rng, rng.randint(0, 60), rng.choice(["canon", "stops", "degen", "any"]))))
        cases.append((1, _rand_seq(rng, 65536 * 3 + 1, "canon")))
    reqs, reals, meta = [], [], []
    for code, s in cases:
        n = len(s)
        starts = list(range(0, min(n, 5) + 2)) if n < 100 else [0, 1, 2]
        for start in starts:
            for rc in (False, True):
                reqs.append(("translate", dict(impl="new", code=code, s=s, start=start, rc=rc)))
                reals.append(real_translate("new", code, s, start, rc))
                meta.append(("new.translate", n, rc))
            if n <= 100 and rng.random() < 0.3:
                reqs.append(("translate", dict(impl="new", code=code, s=s, start=start, rc=False)))
                reals.append(real_translate("new", code, s, start, False, form="array"))
                meta.append(("new.translate[array]", n, False))
            if code in both:
                reqs.append(("translate", dict(impl="old", code=code, s=s, start=start)))
                reals.append(real_translate("old", code, s, start))
                meta.append(("old.translate", n, False))
        reqs.append(("sixframes", dict(impl="new", code=code, s=s)))
        reals.append(real_sixframes("new", code, s))
        meta.append(("new.sixframes", n, True))
        if code in both and n <= 100 and set(s) <= set("ACGTNRYWSKMBDHV-?"):
            reqs.append(("sixframes", dict(impl="old", code=code, s=s)))
            reals.append(real_sixframes("old", code, s))
            meta.append(("old.sixframes", n, True))
    mods = drv.batch(reqs)
    # for minus-strand cases that differ from the model of the code as written: what the SPEC reading
    # (plus-strand model on the explicit reverse complement) would give, so a repaired tree is recognised
    alt = {}
    alt_reqs = []
    for idx, ((cmd, rq), real, mod, (ep, n, rc)) in enumerate(zip(reqs, reals, mods, meta)):
        if real != mod and ep == "new.translate" and rq["rc"] and len(rq["s"]) < 700:
            alt_reqs.append((idx, ("translate", dict(rq, s=_rc_ext(rq["s"]), rc=False))))
    for (idx, _), rep in zip(alt_reqs, drv.batch([r for _, r in alt_reqs])):
        alt[idx] = rep
    for idx, ((cmd, rq), real, mod, (ep, n, rc)) in enumerate(zip(reqs, reals, mods, meta)):
        if idx in alt and real == alt[idx]:
            bump(out, "impl_matches_spec_but_not_model", ep)
            out["evaluations"] += 1
            continue
        if ep == "new.sixframes" and real != mod and not isinstance(real, dict) and len(rq["s"]) < 700:
            # six frames = the individually checked translate calls
            per = [real_translate("new", rq["code"], rq["s"], k, m) for m in (False, True) for k in range(3)]
            if [x[2] for x in real] == per:
                bump(out, "impl_matches_spec_but_not_model", ep)
                out["evaluations"] += 1
                continue
        out["evaluations"] += 1
        bump(out, "entry_point", ep)
        bump(out, "len_mod_3", n % 3)
        bump(out, "len_bucket", "0-2" if n < 3 else "3-40" if n <= 40 else "41-100" if n <= 100 else ">=762")
        if real != mod and _matches_spec(ep, rq, real):
            # the implementation does what the SPEC says where the as-written model does not (a repaired tree):
            # not a mismatch to search for, but the _partial/_counter theorems then describe the old behaviour
            bump(out, "impl_matches_spec_but_not_model", ep)
            if not any("matches the specification where the model" in x for x in ctx.notes):
                ctx.notes.append(f"{ep}: the implementation matches the specification where the model of the code as written does not "
                                 "(repaired tree?); the _partial/_counter theorems describe the previous behaviour")
        elif real != mod:
            small = dict(rq, s=rq["s"] if len(rq["s"]) <= 60 else f"{rq['s'][:30]}…({len(rq['s'])} nt)")
            add_failure(out, "corr", f"{ep} differs from the model", small, _short(mod), _short(real), confirmed=False)
        elif real:
            out["nontrivial"].add((ep, rq["code"], rq["s"], rq.get("start"), rq.get("rc")))
            if isinstance(real, dict):
                bump(out, "errors", real["err"])
            if len(out["samples"]) < 4 and 6 <= n <= 14 and ep == "new.translate" and rc and rq["start"] == 1:
                out["samples"].append(dict(entry=ep, **rq, result=real))

    # 4. gap-free get_translation, 8 option combinations -------------------------------------------
    reqs, reals = [], []
    flags = list(itertools.product([False, True], repeat=3))
    for _ in range(ctx.budget(120, 1500)):
        code = rng.choice(both)
        n = rng.choice([0, 3, 6, 9, 12]) if rng.random() < 0.4 else rng.randint(0, 16)
        s = _rand_seq(rng, n, "stops")
        if rng.random() < 0.4 and n >= 3 and n % 3 == 0:
            stops = [c for c, a in _oracle_table(_code_seqs()[code]).items() if a == "*"]
            if stops:
                s = s[:-3] + rng.choice(stops)
        for io, is_, ts in flags:
            for impl in ("old", "new"):
                reqs.append(("seqtr", dict(impl=impl, code=code, s=s, incomplete_ok=io, include_stop=is_, trim_stop=ts)))
                reals.append(real_seq_tr(impl, code, s, io, is_, ts))
    for (cmd, rq), real, mod in zip(reqs, reals, drv.batch(reqs)):
        out["evaluations"] += 1
        bump(out, "entry_point", f"{rq['impl']}.seq.get_translation")
        bump(out, "stop_options", f"io={int(rq['incomplete_ok'])} is={int(rq['include_stop'])} ts={int(rq['trim_stop'])}")
        if real != mod:
            add_failure(out, "corr", f"{rq['impl']} Sequence.get_translation differs from the model", rq, mod, real, confirmed=False)
        else:
            out["nontrivial"].add(("seqtr", tuple(sorted(rq.items()))))
            if isinstance(real, dict):
                bump(out, "errors", real["err"])
            elif len(out["samples"]) < 7 and len(rq["s"]) >= 9 and "*" in real:
                out["samples"].append(dict(entry="seq.get_translation", **rq, result=real))

    # 5. symbols -----------------------------------------------------------------------------------
    reqs, reals = [], []
    for mtname, mt in mts.items():
        u = "U" if mtname.endswith("rna") else "T"
        syms = list("ACG" + u + "-NRYWSKMBDHV?")
        extra = ["X", "a", "n", "T" if u == "U" else "U"]
        for c in syms + (extra if mtname.startswith("old") else []):
            reqs.append(("sym", dict(mt=mtname, op="complement", arg=c)))
            reals.append(real_sym(mtname, "complement", c))
        for c in syms + ["X"]:
            reqs.append(("sym", dict(mt=mtname, op="resolve", arg=c)))
            reals.append(real_sym(mtname, "resolve", c))
        base = "ACG" + u
        sets = ["".join(x) for r in range(0, 5) for x in itertools.combinations(base, r)]
        pool = base + "-" if mtname.startswith("old") else "".join(syms)
        for _ in range(60):
            sets.append("".join(rng.sample(pool, rng.randint(1, min(4, len(pool))))))
        for st in sets:
            reqs.append(("sym", dict(mt=mtname, op="what", arg=st)))
            reals.append(real_sym(mtname, "what", st))
        for _ in range(40):
            st = "".join(rng.choice(syms) for _ in range(rng.randint(0, 12)))
            reqs.append(("sym", dict(mt=mtname, op="rc", arg=st)))
            reals.append(real_sym(mtname, "rc", st))
    for (cmd, rq), real, mod in zip(reqs, reals, drv.batch(reqs)):
        out["evaluations"] += 1
        bump(out, "symbol_ops", f"{rq['mt']}.{rq['op']}")
        if isinstance(real, dict) and real["err"] == "IndexError" and rq["op"] == "what":
            real = None  # python raises where the model has no candidate; compared as "no answer"
        if real != mod and not (real is None):
            add_failure(out, "corr", f"{rq['mt']}.{rq['op']} differs from the model", rq, mod, real, confirmed=False)
        elif real:
            out["nontrivial"].add(("sym", rq["mt"], rq["op"], rq["arg"]))

    # 6. the Lean spec against the Python oracle ------------------------------------------------------
    reqs, wants = [], []
    for _ in range(150):
        code = rng.choice(ids)
        s = _rand_seq(rng, rng.randint(0, 20), "stops")
        reqs.append(("spec", dict(what="sixframes", code=code, s=s)))
        cs = _code_seqs()[code]
        wants.append([[("-" if m else "+"), k, o_frame(cs, s, m, k)] for m in (False, True) for k in range(3)])
        io, is_, ts = rng.choice(flags)
        reqs.append(("spec", dict(what="get_translation", code=code, s=s, incomplete_ok=io, include_stop=is_, trim_stop=ts)))
        w = o_get_translation(cs, s, io, is_, ts)
        wants.append({"err": "rejected"} if w is None else w)
    for (cmd, rq), want, mod in zip(reqs, wants, drv.batch(reqs)):
        out["evaluations"] += 1
        if want != mod:
            add_failure(out, "corr", "Spec.GeneticCode differs from the Python oracle", rq, want, mod, confirmed=False)
    bump(out, "spec_vs_oracle", len(reqs))

    # 7. the IUPAC side of the spec (GCSpec.baseSet / wcBase / toSet, used by complement_is_set_complement) against a
    #    hard-coded IUPAC nucleotide table that does not come from cogent3
    iupac = dict(A="A", C="C", G="G", T="T", R="AG", Y="CT", W="AT", S="CG", K="GT", M="AC", B="CGT", D="AGT", H="ACT", V="ACG", N="ACGT")
    wc = dict(A="T", C="G", G="C", T="A")
    reqs, wants = [], []
    for mtname in mts:
        u = "U" if mtname.endswith("rna") else "T"
        tr = (lambda x, u=u: x.replace("T", u))
        for sym, bases in list(iupac.items()) + [("-", "-"), ("?", "ACGT-")]:
            sym_u = tr(sym)
            reqs.append(("sym", dict(mt=mtname, op="baseset", arg=sym_u)))
            wants.append("".join(sorted(tr(bases))))
            reqs.append(("sym", dict(mt=mtname, op="wcset", arg=sym_u)))
            wants.append("".join(sorted(tr("".join(wc.get(b, b) for b in bases)))))
    for (cmd, rq), want, mod in zip(reqs, wants, drv.batch(reqs)):
        out["evaluations"] += 1
        if want != mod:
            add_failure(out, "corr", f"Spec.GeneticCode {rq['op']} differs from the IUPAC table", rq, want, mod, confirmed=False)
        else:
            out["nontrivial"].add(("iupac", rq["mt"], rq["op"], rq["arg"]))
    bump(out, "spec_iupac_vs_table", len(reqs))

    # 8. the general specification (RNA / lower case / gapped / ambiguous text) against the Python oracle ----
    from . import c12_extra

    reqs, wants = [], []
    alpha = BASES * 4 + "-?NRYWSKMBDHVtcagUu"
    for _ in range(200):
        code = rng.choice(both)
        s = "".join(rng.choice(alpha) for _ in range(rng.randint(0, 24)))
        tbl = _oracle_table(_code_seqs()[code])
        for impl, f in (("old", c12_extra.o_old_codon), ("new", c12_extra.o_new_codon)):
            reqs.append(("specgen", dict(impl=impl, code=code, s=s)))
            wants.append("".join(f(tbl, s[i : i + 3]) for i in range(0, len(s) - 2, 3)))
    for (cmd, rq), want, mod in zip(reqs, wants, drv.batch(reqs)):
        out["evaluations"] += 1
        if want != mod:
            add_failure(out, "corr", "Spec.GeneticCode.translateOld/New differs from the Python oracle", rq, want, mod, confirmed=False)
    bump(out, "spec_general_vs_oracle", len(reqs))

    # 9. collection-level model vs the real collections / alignments -------------------------------------
    reqs, reals = [], []
    for _ in range(ctx.budget(60, 600)):
        code = rng.choice(both)
        tbl = _oracle_table(_code_seqs()[code])
        stops = [c for c, a in tbl.items() if a == "*"] or ["GCT"]
        n = rng.choice([3, 6, 9, 12]) if rng.random() < 0.75 else rng.randint(1, 13)
        rows = []
        for _j in range(rng.randint(1, 3)):
            r = _rand_seq(rng, n, rng.choice(["canon", "stops"]))
            q = rng.random()
            if n >= 3 and q < 0.45:
                r = r[: n - 3] + rng.choice(stops)
            if n >= 6 and q < 0.15:
                r = r[: n - 6] + rng.choice(stops) + rng.choice(stops)
            rows.append(r)
        io, is_, ts = rng.choice(flags)
        strict = rng.random() < 0.5
        for impl, entry in (("old", "old.SequenceCollection"), ("new", "new.SequenceCollection")):
            reqs.append(("coll", dict(impl=impl, op="get_translation", code=code, rows=rows, incomplete_ok=io, include_stop=is_, trim_stop=ts)))
            reals.append(real_coll_tr(entry, code, rows, io, is_, ts))
            if rng.random() < 0.5:
                # the same model call against a collection in a derived state (rc'd, re-ordered, renamed, converted): the model
                # is given the rows the real object displays at the time of the call
                from . import c12_hist

                hist = c12_hist.random_history(rng, entry)
                shown = _call(lambda: [str(v) for _, v in sorted(c12_hist.build(entry, rows, "dna", hist).to_dict().items())])
                if isinstance(shown, list) and len(shown) == len(rows) and all(set(x) <= set(BASES) for x in shown):
                    reqs.append(("coll", dict(impl=impl, op="get_translation", code=code, rows=shown, incomplete_ok=io, include_stop=is_, trim_stop=ts,
                                              entry=f"{entry}[derived]", history=hist, made_from=rows)))
                    reals.append(real_coll_tr(entry, code, rows, io, is_, ts, "dna", hist))
            for op in ("has_terminal_stop", "trim_stop_codons"):
                reqs.append(("coll", dict(impl=impl, op=op, code=code, rows=rows, strict=strict)))
                reals.append(_real_coll_op(entry, op, code, rows, strict))
        for entry in ("old.ArrayAlignment", "old.Alignment"):
            reqs.append(("coll", dict(impl="old", op="aln_trim_stop_codons", code=code, rows=rows, strict=strict, entry=entry)))
            reals.append(_real_coll_op(entry, "trim_stop_codons", code, rows, strict))
            reqs.append(("coll", dict(impl="old", op="has_terminal_stop", code=code, rows=rows, strict=strict, entry=entry)))
            reals.append(_real_coll_op(entry, "has_terminal_stop", code, rows, strict))
    for (cmd, rq), real, mod in zip(reqs, reals, drv.batch(reqs)):
        out["evaluations"] += 1
        bump(out, "collection_model", f"{rq.get('entry', rq['impl'] + '.SequenceCollection')}.{rq['op']}")
        if isinstance(real, dict) and isinstance(mod, dict) and {real["err"], mod["err"]} <= {"AlphabetError", "ValueError"}:
            real = mod  # both reject (the concrete exception class of a rejected row is not modelled at collection level)
        if real != mod:
            add_failure(out, "corr", f"collection-level {rq['op']} differs from the model", rq, mod, real, confirmed=False)
        elif real not in (None, [], False):
            out["nontrivial"].add(("coll", str(sorted(rq.items()))))
            if isinstance(real, dict):
                bump(out, "errors", real["err"])
    _corr_generated(ctx, out, drv, rng, both)
    # 11. derived-state model of new-style collections (stored rows + reversed flags) vs the real class
    from . import c12_state

    c12_state.corr_collstate(ctx, out, drv, ctx.subrng("collstate"), both)
    return out


def _gapped(rng, code, moltype):
    """a (mostly) coding sequence with gap runs; ends in a stop codon (possibly followed / interrupted by gaps) in 60 %"""
    tbl = _oracle_table(_code_seqs()[code])
    stops = [c for c, a in tbl.items() if a == "*"] or ["GCT"]
    n = rng.choice([3, 6, 9, 12]) if rng.random() < 0.7 else rng.randint(0, 13)
    s = _rand_seq(rng, n, rng.choice(["canon", "stops"]))
    q = rng.random()
    if n >= 3 and q < 0.6:
        s = s[: n - 3] + rng.choice(stops)
    chars = list(s)
    for _ in range(rng.choice([0, 0, 1, 1, 2, 3])):
        pos = rng.choice([len(chars), len(chars), rng.randint(0, len(chars))]) if chars else 0
        chars[pos:pos] = list(rng.choice(["-", "--", "---", "-", "?"]))
    s = "".join(chars)
    return s.replace("T", "U") if moltype == "rna" else s


def _corr_generated(ctx, out, drv, rng, both):
    """10. the TRANSLATED functions (Gen/C12Code.lean: re-translated from the source on this run, proved equal to the hand
    model in Props/C12Gen.lean) executed by the driver vs the real functions -- also where no theorem reaches: negative
    starts, items of any length, gapped / RNA sequences (regular-expression branch of trim_stop_codon)"""
    from cogent3.core import genetic_code as og
    from cogent3.core import new_genetic_code as ng

    def canon_item(x, sort):
        if isinstance(x, str):
            return x
        return sorted(x) if sort else list(x)

    reqs, reals, meta = [], [], []

    def add(fn, real, sort=False, **kw):
        reqs.append(("gen", dict(fn=fn, **kw)))
        reals.append(real)
        meta.append((fn, sort))

    codes = rng.sample(both, min(len(both), 6))
    for code in codes:
        o, n = _ogc(code), _ngc(code)
        add("objects", dict(
            old_codons=[[k, v] for k, v in o.codons.items()], old_synonyms=[[k, list(v)] for k, v in o.synonyms.items()],
            old_start_codons=[[k, v] for k, v in o.start_codons.items()],
            new_codon_to_aa=[[k, v] for k, v in n._codon_to_aa.items()],
            new_aa_to_codon=[[k, sorted(v)] for k, v in n._aa_to_codon.items()]), code=code, s="")
        items = list("ACDEFGHIKLMNPQRSTVWY*X-?BZ") + ["", "AT", "ATGA", "TAA", "taa", "UGA", "---", "A-G", "NNN", "AUG", "ttg", "CTG"]
        items += ["".join(rng.choice(EXT_ALPHA) for _ in range(3)) for _ in range(12)]
        for it in items:
            add("old_getitem", _call(lambda: canon_item(o[it], False)), code=code, s=it)
            add("new_getitem", _call(lambda: canon_item(n[it], True)), sort=True, code=code, s=it)
            add("old_is_stop", _call(lambda: bool(o.is_stop(it))), code=code, s=it)
            add("new_is_stop", _call(lambda: bool(n.is_stop(it))), code=code, s=it)
            add("old_is_start", _call(lambda: bool(o.is_start(it))), code=code, s=it)
    for _ in range(40):
        s = _rand_seq(rng, rng.randint(0, 15), rng.choice(["canon", "any"]))
        add("old_simple_rc", _call(lambda: og._simple_rc(s)), code=1, s=s)
        m = "".join(rng.choice("M--m*") for _ in range(rng.randint(0, 66)))
        add("new_get_start_codon_indices", _call(lambda: list(ng._get_start_codon_indices(m))), code=1, s=m)
    for _ in range(ctx.budget(150, 1500)):
        code = rng.choice(both)
        s = _rand_seq(rng, rng.randint(0, 20), rng.choice(["canon", "stops", "degen", "any"]))
        start = rng.randint(-4, len(s) + 2) if rng.random() < 0.5 else rng.randint(0, 2)
        rc = rng.random() < 0.5
        add("new_translate", real_translate("new", code, s, start, rc), code=code, s=s, start=start, rc=rc)
        add("old_translate", real_translate("old", code, s, start), code=code, s=s, start=start)
        if rng.random() < 0.3:
            add("new_sixframes", real_sixframes("new", code, s), code=code, s=s)
            if set(s) <= set("ACGTNRYWSKMBDHV-?"):
                add("old_sixframes", real_sixframes("old", code, s), code=code, s=s)
    flags = list(itertools.product([False, True], repeat=3))
    for _ in range(ctx.budget(120, 1200)):
        code = rng.choice(both)
        moltype = rng.choice(["dna", "dna", "rna"])
        s = _gapped(rng, code, moltype)
        strict = rng.random() < 0.5
        for impl, mk, gcf in (("new", _new_seq, _ngc), ("old", _old_seq, _ogc)):
            mt = impl + moltype
            add(f"{impl}_seq_has_terminal_stop", _call(lambda: bool(mk(s, moltype).has_terminal_stop(gc=gcf(code), strict=strict))),
                code=code, s=s, mt=mt, strict=strict)
            add(f"{impl}_seq_trim_stop_codon", _call(lambda: str(mk(s, moltype).trim_stop_codon(gc=gcf(code), strict=strict))),
                code=code, s=s, mt=mt, strict=strict)
        io, is_, ts = rng.choice(flags)
        add("new_seq_get_translation", real_seq_tr("new", code, s.replace("U", "T"), io, is_, ts, moltype), code=code, s=s, mt="new" + moltype,
            strict=False, incomplete_ok=io, include_stop=is_, trim_stop=ts)
        # old Sequence.get_translation (translated since wave 2: loops, try / except, continue, the RNA recursion), on gapped text and
        # on text with ambiguity codes (resolve_ambiguity / what_ambiguity paths)
        s2 = s if rng.random() < 0.5 else _u_if(_rand_seq(rng, rng.randint(0, 13), rng.choice(["canon", "stops", "degen", "degen"])), moltype)
        add("old_seq_get_translation", real_seq_tr("old", code, s2.replace("U", "T"), io, is_, ts, moltype), code=code, s=s2, mt="old" + moltype,
            strict=False, incomplete_ok=io, include_stop=is_, trim_stop=ts)
    # the untranslated environment of old get_translation: protein moltype tables, moltype.ambiguities, the codon alphabets
    from cogent3.core import moltype as omt

    for code in codes[:3]:
        def env_real():
            g = _ogc(code)
            d = {}
            for name in ("protein", "protein_with_stop"):
                mt = omt.get_moltype(name)
                d[name] = dict(nchars=len(mt.alphabet), missing=mt.missing, ambiguities=[[k, "".join(v)] for k, v in mt.ambiguities.items()])
            d["dna_ambiguities"] = [[k, "".join(v)] for k, v in omt.DNA.ambiguities.items()]
            d["rna_ambiguities"] = [[k, "".join(v)] for k, v in omt.RNA.ambiguities.items()]
            d["rna_to_dna_ambiguities"] = [[k.replace("U", "T"), "".join(v).replace("U", "T")] for k, v in omt.RNA.ambiguities.items()]
            d["codon_alphabet"] = list(g.get_alphabet(include_stop=False).with_gap_motif())
            d["codon_alphabet_with_stop"] = list(g.get_alphabet(include_stop=True).with_gap_motif())
            return d
        add("env", _call(env_real), code=code, s="")
    for _ in range(60):
        code = rng.choice(codes)
        mtn = rng.choice(["dna", "rna"])
        cod = _u_if("".join(rng.choice("ACGT" * 3 + "RYNWSKM-?B") for _ in range(rng.choice([3, 3, 3, 2, 4]))), mtn)
        inc = rng.random() < 0.5
        add("resolve", _call(lambda: list((omt.DNA if mtn == "dna" else omt.RNA).resolve_ambiguity(
            cod, alphabet=_ogc(code).get_alphabet(include_stop=inc).with_gap_motif()))), code=code, s=cod, mt="old" + mtn, include_stop=inc)
        name = rng.choice(["protein", "protein_with_stop"])
        motifs = [rng.choice("ACDEFGHIKLMNPQRSTVWY*-?NDQE") for _ in range(rng.choice([1, 1, 2, 2, 3, 5]))]
        add("what", _call(lambda: omt.get_moltype(name).what_ambiguity(motifs)), code=1, s=name, motifs=motifs)
    for (cmd, rq), real, mod, (fn, sort) in zip(reqs, reals, drv.batch(reqs), meta):
        out["evaluations"] += 1
        bump(out, "translated_fn", fn)
        if sort and isinstance(mod, list):
            mod = sorted(mod)
        if fn == "env" and isinstance(mod, dict) and isinstance(real, dict) and "err" not in real:
            for k in sorted(set(real) | set(mod)):
                if real.get(k) != mod.get(k):
                    add_failure(out, "corr", f"environment of the translated old get_translation: {k} differs from the runtime object", dict(rq, what=k),
                                _short(str(mod.get(k))), _short(str(real.get(k))), confirmed=False)
            out["nontrivial"].add(("gen", fn, str(rq["code"])))
            continue
        if fn == "objects" and isinstance(mod, dict):
            mod = dict(mod, new_aa_to_codon=[[k, sorted(v)] for k, v in mod["new_aa_to_codon"]])
        if isinstance(real, dict) and isinstance(mod, dict) and "err" in real and "err" in mod and fn != "objects":
            # the translation keeps the exception classes it knows; anything else is "Exception"
            if mod["err"] == "Exception" or real["err"] == mod["err"] or {real["err"], mod["err"]} <= {"TypeError", "InvalidCodonError"}:
                real = mod
        if real != mod:
            small = {k: v for k, v in rq.items()}
            add_failure(out, "corr", f"translated {fn} (Gen/C12Code.lean) differs from the real function", small, _short(mod) if not isinstance(mod, dict) or "err" in mod else "(dicts)",
                        _short(real) if not isinstance(real, dict) or "err" in real else "(dicts)", confirmed=False)
        elif real not in ("", [], None):
            out["nontrivial"].add(("gen", fn, str(sorted(rq.items()))))
            if isinstance(real, dict) and "err" in real:
                bump(out, "errors", real["err"])
            if "-" in rq.get("s", "") and fn.endswith("trim_stop_codon") and real != rq["s"]:
                bump(out, "translated_regex_branch", fn)


def _real_coll_op(entry, op, code, rows, strict):
    from . import c12_extra

    def run():
        o = c12_extra._mk_coll(entry, rows)
        if op == "has_terminal_stop":
            return bool(o.has_terminal_stop(gc=code, strict=strict))
        d = o.trim_stop_codons(gc=code, strict=strict).to_dict()
        return [str(d[f"s{i}"]) for i in range(len(rows))]

    return _call(run)


def _matches_spec(ep, rq, real):
    s = rq["s"]
    if not set(s) <= set(BASES) or isinstance(real, dict):
        return False
    cs = _code_seqs("new_codes" if ep.startswith("new") else "old_codes")[rq["code"]]
    if ep.startswith("new.translate"):
        return real == o_frame(cs, s, rq["rc"], rq["start"])
    if ep == "new.sixframes":
        return real == [["-" if m else "+", f, o_frame(cs, s, m, f)] for m in (False, True) for f in range(3)]
    return False


def _rc_ext(s):
    """reverse complement of a string that may contain gap / ambiguity / other characters (only ACGT are complemented;
    every other character makes its codon X or - on either strand)"""
    return s.translate(str.maketrans("ACGT", "TGCA"))[::-1]


def _u_if(s, moltype):
    return s.replace("T", "U") if moltype == "rna" else s


def _short(x):
    if isinstance(x, str) and len(x) > 80:
        return f"{x[:40]}…({len(x)} chars)"
    return x


# --------------------------------------------------------------------------
# spec-level differential = failing-input search; one function per case kind so that
# spec_check, check_witness and replay share it
# --------------------------------------------------------------------------
def _interleaved(want, filler_options):
    """the strings `want` would become if every character were followed by w-1 filler characters"""
    res = []
    for w in (2, 4, 8):
        for f in filler_options:
            res.append("".join(c + f * (w - 1) for c in want))
    return res


def check_case(case):
    """returns None or dict(what, expected, got, sig)"""
    k = case["kind"]
    cs_new = _code_seqs("new_codes")
    cs_old = _code_seqs("old_codes")
    if k == "gc.translate":
        impl, code, s, start, rc = case["impl"], case["code"], case["s"], case["start"], case.get("rc", False)
        cs = (cs_new if impl == "new" else cs_old)[code]
        want = o_frame(cs, s, rc, start)
        got = real_translate(impl, code, s, start, rc, case.get("form", "str"))
        if impl == "old" and s and start + 1 > len(s):
            return None  # documented ValueError: translation starts after the end
        if got == want:
            return None
        strand = "-" if rc else "+"
        n = len(s)
        cls = "other"
        if isinstance(got, dict):
            cls = "raises:" + got["err"]
        elif rc and start < 3 and got == o_frame(cs, s, True, (n - start) % 3):
            cls = "relabelled-frame"
        elif rc and got == o_translate(cs, o_rc(s[start : start + 3 * ((n - start) // 3)])):
            cls = "rc-of-truncated-slice"
        elif (n - start) // 3 >= 256 and not rc and got in _interleaved(want, [cs[0]]):
            cls = "wide-index-interleaved"
        elif (n - start) // 3 >= 256 and rc and got in ["".join(_oracle_table(cs)["AAA"] * (w - 1) + c for c in want) for w in (2, 4, 8)]:
            cls = "wide-index-interleaved"
        elif (n - start) // 3 >= 256 and rc and start < 3 and got in [
            "".join(tbl_aaa * (w - 1) + c for c in o_frame(cs, s, True, (n - start) % 3)) for w in (2, 4, 8) for tbl_aaa in [_oracle_table(cs)["AAA"]]
        ]:
            cls = "wide-index-interleaved+relabelled-frame"
        return dict(what=f"{impl} GeneticCode.translate(start={start}, rc={rc}) is not the table mapped over the codons of the {'reverse complement' if rc else 'sequence'}",
                    expected=_short(want), got=_short(got), sig=f"{impl}.gc.translate:{strand}:{cls}")
    if k == "codes_agree":
        # the two genetic-code modules answer alike for all 64 codons of a code present in both
        code = case["code"]
        s = "".join(_codons())
        a, b = real_translate("old", code, s, 0), real_translate("new", code, s, 0)
        if a == b and _ogc(code).name == _ngc(code).name and sorted(_ogc(code).start_codons) == sorted(_ngc(code).start_codons):
            return None
        j = next((i for i in range(64) if a[i : i + 1] != b[i : i + 1]), None) if isinstance(a, str) and isinstance(b, str) else None
        return dict(what=f"old and new genetic code {code} differ" + (f" at codon {_codons()[j]}" if j is not None else " (name / start codons)"),
                    expected=a, got=b, sig="codes-disagree:old-vs-new")
    if k == "gc.sixframes":
        impl, code, s = case["impl"], case["code"], case["s"]
        cs = (cs_new if impl == "new" else cs_old)[code]
        got = real_sixframes(impl, code, s)
        if impl == "old":
            if 0 < len(s) < 3:
                return None  # old translate raises ValueError for a start beyond the end
            want = [o_frame(cs, s, m, f) for m in (False, True) for f in range(3)]
        else:
            want = [["-" if m else "+", f, o_frame(cs, s, m, f)] for m in (False, True) for f in range(3)]
        if got == want:
            return None
        cls = "other"
        if isinstance(got, dict):
            cls = "raises:" + got["err"]
        elif impl == "new":
            n = len(s)
            relabel = [["-" if m else "+", f, o_frame(cs, s, m, (n - f) % 3 if m else f)] for m in (False, True) for f in range(3)]
            aaa = _oracle_table(cs)["AAA"]

            def wide(t, k, m):
                c = (n - k) // 3
                w = 1 if c < 256 else 2 if c < 65536 else 4
                return "".join((aaa * (w - 1) + a) if m else (a + cs[0] * (w - 1)) for a in t)

            if got == relabel:
                cls = "minus-frames-relabelled"
            elif n // 3 >= 256 and got == [[st, f, wide(t, f, st == "-")] for st, f, t in relabel]:
                cls = "minus-frames-relabelled+wide-index-interleaved"
        return dict(what=f"{impl} GeneticCode.sixframes differs from the six frames of the sequence and its reverse complement",
                    expected=_short(want), got=_short(got), sig=f"{impl}.gc.sixframes:{cls}")
    if k == "seq.get_translation":
        impl, code, s = case["impl"], case["code"], case["s"]
        io, is_, ts = case["incomplete_ok"], case["include_stop"], case["trim_stop"]
        cs = (cs_new if impl == "new" else cs_old)[code]
        want = o_get_translation(cs, s, io, is_, ts, strict_length=False)
        got = real_seq_tr(impl, code, s, io, is_, ts, case.get("moltype", "dna"), case.get("via_rc", False))
        mt = case.get("moltype", "dna")
        return _judge_tr(f"{impl}.seq.get_translation[{mt}]", case, cs, [s], [want], [got] if not isinstance(got, dict) else got)
    if k == "coll.get_translation":
        ep, code, seqs = case["entry"], case["code"], case["seqs"]
        io, is_, ts = case["incomplete_ok"], case["include_stop"], case["trim_stop"]
        cs = cs_old[code] if not ep.startswith("new") else cs_new[code]
        wants = [o_get_translation(cs, s, io, is_, ts, strict_length=False) for s in seqs]
        mt = case.get("moltype", "dna")
        hist = case.get("history") or []
        if hist:
            # the oracle speaks about the sequences the derived collection DISPLAYS at the time of the call (whether a derived
            # collection displays what it should is C10's subject, not C12's)
            from . import c12_hist

            shown = _call(lambda: [str(v) for _, v in sorted(c12_hist.build(ep, [s.replace("T", "U") if mt == "rna" else s for s in seqs], mt, hist).to_dict().items())])
            if isinstance(shown, dict) or len(shown) != len(seqs):
                return dict(what=f"{ep} [{mt}]: building the collection with history {'+'.join(hist)} failed", expected=seqs, got=shown,
                            sig=f"{ep}[{mt}]:history-build:{'+'.join(sorted(set(hist)))}")
            if [s.replace("U", "T") for s in shown] != list(seqs):
                # judged since the repairs 437a33710 / d037a68a8 (take_seqs / rename_seqs / add_seqs / to_alphabet keep the reversed
                # record): a collection must display what its history implies before its translation can mean anything
                return dict(what=f"{ep} [{mt}]: after {'+'.join(hist)} the collection does not display the sequences its history implies "
                                 "(every rc reverse-complements what is displayed; take_seqs / rename_seqs / copy / moltype conversion / slicing keep it)",
                            expected=list(seqs), got=[s.replace("U", "T") for s in shown], sig=f"{ep}[{mt}]:derived-display:{'+'.join(sorted(set(hist)))}")
            seqs = [s.replace("U", "T") for s in shown]
            wants = [o_get_translation(cs, s, io, is_, ts, strict_length=False) for s in seqs]
        got = real_coll_tr(ep, code, case["seqs"], io, is_, ts, mt, hist)
        res = _judge_tr(ep if mt == "dna" else f"{ep}[{mt}]", case, cs, seqs, wants, got)
        if res and hist:
            # the same call on a freshly built collection showing the same sequences: a difference is due to the derived state
            fresh = _judge_tr(ep if mt == "dna" else f"{ep}[{mt}]", case, cs, seqs, wants, real_coll_tr(ep, code, seqs, io, is_, ts, mt))
            if fresh is None or fresh["got"] != res["got"]:
                cls = "after:" + "+".join(sorted(set(hist)))
                if isinstance(res["got"], list) and all(isinstance(g, str) and w is not None and g == w[::-1] for g, w in zip(res["got"], wants)) and any(len(w) > 1 for w in wants if w):
                    cls = "derived-state:translation-back-to-front"
                res = dict(res, what=f"{ep} [{mt}] get_translation(include_stop={is_}, trim_stop={ts}, incomplete_ok={io}) after {'+'.join(hist)} is not the translation of the sequences it displays, {seqs} "
                                f"(a fresh collection of the same sequences gives {'the expected result' if fresh is None else fresh['got']})",
                           sig=res["sig"] + ":" + cls)
        return res
    if k == "app.translate_frames":
        from cogent3.app.translate import translate_frames

        code, s = case["code"], case["s"]
        got = _call(lambda: list(translate_frames(_old_seq(s), gc=code, allow_rc=True)))
        if 0 < len(s) < 3:
            return None
        want = [o_frame(cs_old[code], s, m, f) for m in (False, True) for f in range(3)]
        if got == want:
            return None
        return dict(what="app.translate.translate_frames differs from the six frames", expected=want, got=got, sig="app.translate_frames:" + ("raises" if isinstance(got, dict) else "other"))
    if k == "rc_involution":
        mtname, s = case["mt"], case["s"]
        mt = _moltypes()[mtname]
        if case.get("level") == "seq":
            mk = _old_seq if mtname.startswith("old") else _new_seq
            got = _call(lambda: str(mk(s, mtname[3:]).rc().rc()))
        else:
            got = _call(lambda: str(mt.rc(mt.rc(s))))
        if got == s:
            return None
        return dict(what=f"{mtname} reverse complement is not an involution", expected=s, got=got, sig=f"rc-involution:{mtname}:{case.get('level', 'moltype')}")
    if k == "complement_set":
        mtname, c = case["mt"], case["sym"]
        u = "U" if mtname.endswith("rna") else "T"
        got = real_sym(mtname, "complement", c)
        sets = {(u if a == "T" else a): frozenset(v.replace("T", u)) for a, v in IUPAC_SETS.items()}
        wc = {"A": u, u: "A", "C": "G", "G": "C"}
        if c in ("-", "?"):
            want = c
        else:
            target = frozenset(wc[b] for b in sets[c])
            want = next(a for a, v in sets.items() if v == target)
        if got == want:
            return None
        return dict(what=f"{mtname} complement of {c!r} is not the symbol of the complemented base set", expected=want, got=got, sig=f"complement-set:{mtname}")
    if k == "resolve_what":
        mtname = case["mt"]
        u = "U" if mtname.endswith("rna") else "T"
        sets = {(u if a == "T" else a): "".join(sorted(v.replace("T", u))) for a, v in IUPAC_SETS.items()}
        if "sym" in case:
            c = case["sym"]
            r = real_sym(mtname, "resolve", c)
            if r != sets[c]:
                return dict(what=f"{mtname}.resolve_ambiguity({c!r}) is not the IUPAC base set", expected=sets[c], got=r, sig=f"resolve:{mtname}")
            back = real_sym(mtname, "what", r)
            if back != c:
                return dict(what=f"{mtname}: re-encoding the resolved set of {c!r} does not give the symbol back", expected=c, got=back, sig=f"what-after-resolve:{mtname}")
            return None
        st = case["set"]
        code = real_sym(mtname, "what", st)
        want = next(a for a, v in sets.items() if v == "".join(sorted(st)))
        if code != want:
            return dict(what=f"{mtname}: the code for the base set {st!r} is not the IUPAC symbol", expected=want, got=code, sig=f"what:{mtname}")
        r = real_sym(mtname, "resolve", code)
        if r != "".join(sorted(st)):
            return dict(what=f"{mtname}: resolving the code of {st!r} does not give the set back", expected=st, got=r, sig=f"resolve-after-what:{mtname}")
        return None
    from . import c12_extra

    if k in c12_extra.CHECKERS:
        return c12_extra.CHECKERS[k](case, _tables())
    raise ValueError(f"unknown case kind {k}")


def _judge_tr(ep, case, cs, seqs, wants, got):
    """compare a (collection) translation with the oracle; classify a difference narrowly"""
    io, is_, ts = case["incomplete_ok"], case["include_stop"], case["trim_stop"]
    opts = f"is={int(is_)},ts={int(ts)}"
    aligned = "Alignment" in ep
    rejected = any(w is None for w in wants)
    strict_len = ts and not io and any(len(s) % 3 for s in seqs)
    if isinstance(got, dict):
        if (rejected or strict_len) and got["err"] in ("AlphabetError", "ValueError"):
            return None  # rejected as requested (or: length not divisible by 3 with incomplete_ok=False)
        if not seqs or any(len(s) == 0 for s in seqs) or any(w == "" for w in wants):
            return None  # empty sequences / empty translations: construction and codon look-up errors on the
            # empty string are outside the property
        cls = "raises:" + got["err"]
        if aligned and "[rna]" in ep and ts and not is_ and got["err"] == "ValueError" and any(o_translate(cs, s).endswith("*") and len(s) % 3 == 0 for s in seqs):
            cls = "rna-terminal-stop-not-trimmed"  # rows of unequal length: only some stops were trimmed (at sequence level)
        elif aligned and got["err"] == "AlphabetError" and not ts and not io and any(len(s) % 3 for s in seqs) and not rejected:
            cls = "length-rejected-although-trim_stop=False"
        want = wants
    else:
        want = wants
        if not rejected:
            ok = True
            for w, g in zip(wants, got):
                if g != w and not (aligned and g.rstrip("-") == w and len(g) <= len(w) + 1):
                    ok = False
            if ok:
                return None
        # classify
        cls = "other"
        full = [o_translate(cs, s) for s in seqs]
        if rejected:
            if ts and not is_ and any(f.endswith("**") for f in full) and all(
                g.rstrip("-") == (f[:-2] if f.endswith("**") else f[:-1] if f.endswith("*") else f) for f, g in zip(full, got)
            ):
                cls = "two-terminal-stops-trimmed"
            elif all(g.rstrip("-") == (f[:-1] if f.endswith("*") else f) for f, g in zip(full, got)) and not ts:
                cls = "terminal-stop-trimmed-although-trim_stop=False"
            elif all(g == f for f, g in zip(full, got)) and not is_:
                cls = "stop-kept-although-include_stop=False"
            else:
                cls = "accepted-instead-of-rejected"
        elif all(g == f for f, g in zip(full, got)) and ts and is_:
            cls = "terminal-stop-kept-although-trim_stop=True"
        elif any(g != w for w, g in zip(wants, got)) and all(g == w or (g.rstrip("-") == w[:-1] and not w.endswith("*")) for w, g in zip(wants, got)):
            cls = "terminal-sense-codon-trimmed"  # e.g. the stop set of another genetic code was used for trimming
        elif any(len(s) // 3 >= 256 for s in seqs) and all(g in _interleaved(w, [cs[0]]) or g == w for w, g in zip(wants, got)):
            cls = "wide-index-interleaved"
    if rejected and isinstance(got, dict):
        return None
    return dict(what=f"{ep}(include_stop={is_}, trim_stop={ts}, incomplete_ok={io}) does not trim / keep / reject stops as requested" if "wide" not in cls else f"{ep} is not the table mapped over the codons",
                expected=[_short(w) if w is not None else "rejected" for w in want], got=[_short(g) for g in got] if not isinstance(got, dict) else got,
                sig=f"{ep}:{opts}:{cls}")


def _cases(ctx, rng, budget):
    ids = _code_ids()
    old_ids = sorted(_code_seqs("old_codes"))
    both = [i for i in ids if i in old_ids]
    flags = list(itertools.product([False, True], repeat=3))
    # regression corpus: witnesses of findings that were repaired upstream (status "fixed" suppresses nothing)
    for w in _fixed_witnesses():
        yield w
    for code in both:
        yield dict(kind="codes_agree", code=code)
    # exhaustive small part: every code, one sequence per length mod 3, all frames and strands
    for code in ids:
        for n in (9, 10, 11):
            s = _rand_seq(rng, n, "canon")
            for start in range(3):
                for rc in (False, True):
                    yield dict(kind="gc.translate", impl="new", code=code, s=s, start=start, rc=rc)
                if code in both:
                    yield dict(kind="gc.translate", impl="old", code=code, s=s, start=start)
            yield dict(kind="gc.sixframes", impl="new", code=code, s=s)
            if code in both:
                yield dict(kind="gc.sixframes", impl="old", code=code, s=s)
    # every length 0..40
    for n in range(0, 41):
        for _ in range(budget):
            code = rng.choice(both)
            s = _rand_seq(rng, n, rng.choice(["canon", "stops"]))
            start = rng.randint(0, 2)
            yield dict(kind="gc.translate", impl="new", code=code, s=s, start=start, rc=rng.random() < 0.5, form=rng.choice(["str", "array"]))
            yield dict(kind="gc.translate", impl="old", code=code, s=s, start=start)
            yield dict(kind="gc.sixframes", impl=rng.choice(["old", "new"]), code=code, s=s)
            if rng.random() < 0.3:
                yield dict(kind="app.translate_frames", code=code, s=s)
    # long sequences (index array dtype switch at 256 and 65536 codons)
    longs = [765, 768, 771, 900] + ([65536 * 3] if budget >= 10 else [])
    for n in longs:
        code = rng.choice(both)
        s = _rand_seq(rng, n, "canon")
        yield dict(kind="gc.translate", impl="new", code=code, s=s, start=0, rc=False)
        yield dict(kind="gc.translate", impl="new", code=code, s=s, start=rng.randint(0, 2), rc=True)
        yield dict(kind="gc.translate", impl="old", code=code, s=s, start=1)
        if n < 10000:
            yield dict(kind="gc.sixframes", impl="new", code=code, s=s)
            yield dict(kind="seq.get_translation", impl="new", code=code, s=s, incomplete_ok=True, include_stop=True, trim_stop=False)
            yield dict(kind="seq.get_translation", impl="old", code=code, s=s, incomplete_ok=True, include_stop=True, trim_stop=False)
            yield dict(kind="coll.get_translation", entry="new.SequenceCollection", code=code, seqs=[s, s[3:] + "AAA"], incomplete_ok=True, include_stop=True, trim_stop=False)
    # stop handling, sequence level
    for _ in range(60 * budget):
        code = rng.choice(both)
        n = rng.choice([3, 6, 9, 12, 15]) if rng.random() < 0.5 else rng.randint(1, 17)
        s = _rand_seq(rng, n, "stops" if rng.random() < 0.6 else "canon")
        if rng.random() < 0.5 and n % 3 == 0:
            stops = [c for c, a in _oracle_table(_code_seqs()[code]).items() if a == "*"]
            if stops:
                s = s[:-3] + rng.choice(stops)
        io, is_, ts = rng.choice(flags)
        for impl in ("old", "new"):
            yield dict(kind="seq.get_translation", impl=impl, code=code, s=s, incomplete_ok=io, include_stop=is_, trim_stop=ts,
                       moltype=rng.choice(["dna", "dna", "rna"]), via_rc=rng.random() < 0.25)
    # collections / alignments / app
    for _ in range(25 * budget):
        code = rng.choice(both)
        n = rng.choice([6, 9, 12]) if rng.random() < 0.7 else rng.randint(4, 14)
        stops = [c for c, a in _oracle_table(_code_seqs()[code]).items() if a == "*"] or ["GCT"]
        mode = rng.choice(["nostop", "allterminal", "mixed", "internal"])
        seqs = []
        for j in range(rng.randint(1, 3)):
            s = _rand_seq(rng, n, "canon")
            tbl = _oracle_table(_code_seqs()[code])
            # remove accidental stops
            s = "".join(("GCT" if tbl.get(s[i : i + 3]) == "*" else s[i : i + 3]) for i in range(0, n, 3))
            if n % 3 == 0 and (mode == "allterminal" or (mode == "mixed" and rng.random() < 0.5)):
                s = s[:-3] + rng.choice(stops)
            if mode == "internal" and n >= 6 and rng.random() < 0.6:
                s = rng.choice(stops) + s[3:]
            seqs.append(s)
        io, is_, ts = rng.choice(flags)
        for ep in COLL_KINDS:
            if ep == "app.translate_seqs":
                if io or is_:
                    continue
            mt_ = "rna" if rng.random() < 0.25 else "dna"
            yield dict(kind="coll.get_translation", entry=ep, code=code, seqs=seqs, incomplete_ok=io, include_stop=is_, trim_stop=ts, moltype=mt_)
            # the same sequences shown by a collection in a derived state (rc'd, re-ordered, renamed, converted, sliced …)
            from . import c12_hist

            yield dict(kind="coll.get_translation", entry=ep, code=code, seqs=seqs, incomplete_ok=io, include_stop=is_, trim_stop=ts, moltype=mt_,
                       history=c12_hist.random_history(rng, ep))
    # complement / ambiguity, all symbols of every moltype
    for mtname in ("olddna", "oldrna", "newdna", "newrna"):
        u = "U" if mtname.endswith("rna") else "T"
        base = "ACG" + u
        for c in base + "RYWSKMBDHVN-?":
            yield dict(kind="complement_set", mt=mtname, sym=c)
        for c in base + "RYWSKMBDHVN":
            yield dict(kind="resolve_what", mt=mtname, sym=c)
        for r in range(1, 5):
            for st in itertools.combinations(base, r):
                yield dict(kind="resolve_what", mt=mtname, set="".join(st))
        for _ in range(15 * budget):
            s = "".join(rng.choice(base * 3 + "RYWSKMBDHVN-?") for _ in range(rng.randint(0, 30)))
            yield dict(kind="rc_involution", mt=mtname, s=s, level=rng.choice(["moltype", "seq"]))
    from . import c12_extra

    yield from c12_extra.cases(rng, budget, _tables())


def _fixed_witnesses():
    import json

    from .common import VERIF

    fp = VERIF / "known_findings.d" / "C12.json"
    if not fp.exists():
        return []
    return [f["witness"] for f in json.loads(fp.read_text()).get("findings", []) if f.get("status") == "fixed" and "witness" in f]


def spec_check(ctx, budget):
    out = new_outcome(
        "implementation vs oracle: every code x lengths 9,10,11 x 3 frames x 2 strands through old/new translate and "
        "sixframes; random canonical / stop-rich sequences of every length 0-40, and of 765-900 nt (>= 256 codons); "
        "Sequence.get_translation old/new (dna, rna, via rc'd view) x stop options; SequenceCollection / ArrayAlignment / "
        "Alignment / new SequenceCollection / app.translate_seqs / translate_frames, each also on collections in a DERIVED state "
        "(random history of rc, take_seqs, rename_seqs, copy, moltype conversion, alignment slicing before the call; oracle = the rows "
        "displayed at the time of the call); complement, resolve, re-encode on all "
        "IUPAC symbols and base sets of 4 moltypes; rc involution on random IUPAC strings (moltype and sequence level); "
        "witnesses of repaired findings (regression corpus); get_code by id/str/name x every accessor of every code; "
        "translate on gapped/ambiguous/RNA/lower-case text; has_terminal_stop / trim_stop_codon(s) incl. gap-padded stops; "
        "get_translation with ---/A--/ambiguity codons; select_translatable / best_frame on sequences with one stop-free "
        "frame on either strand; complement/rc vs the IUPAC table; multi-character resolve_ambiguity, degenerate_from_seq, "
        "strand_symmetric_motifs, can_pair/can_mispair/can_match; "
        "non-trivial = distinct cases with a non-empty expected result"
    )
    rng = ctx.subrng(f"spec{budget}")
    per_sig = {}
    for case in _cases(ctx, rng, budget):
        out["evaluations"] += 1
        ep = (f"{case['entry']}.{case['kind'].split('.')[-1]}" if "entry" in case else f"{case['impl']}.{case['kind']}" if "impl" in case
              else f"{case['mt']}.{case['kind']}" if "mt" in case else case["kind"])
        bump(out, "spec_entry_point", ep)
        if "s" in case and case["kind"].startswith("gc."):
            bump(out, "spec_len_mod_3", len(case["s"]) % 3)
        if "entry" in case:
            for op in case.get("history") or ["(fresh)"]:
                bump(out, "coll_state_ops", op)
            bump(out, "coll_history_len", len(case.get("history") or []))
        try:
            res = check_case(case)
        except Exception as e:  # harness bug or an unexpected exception class
            res = dict(what=f"check raised {type(e).__name__}: {e}", expected=None, got=None, sig=f"harness:{case['kind']}:{type(e).__name__}")
        key = tuple(sorted((k, str(v)) for k, v in case.items()))
        if res is None:
            if any(case.get(k) for k in ("s", "seqs", "sym", "set", "motif", "syms", "first", "via", "k")) or case["kind"] == "codes_agree":
                out["nontrivial"].add(key)
            if len(out["samples"]) < 6 and case["kind"] in ("gc.sixframes", "coll.get_translation") and len(str(case)) < 300:
                out["samples"].append(case)
            continue
        bump(out, "spec_failure_sigs", res["sig"])
        per_sig[res["sig"]] = per_sig.get(res["sig"], 0) + 1
        if per_sig[res["sig"]] <= 3:  # keep a few inputs of every class so that no class is crowded out
            add_failure(out, "spec", res["what"], case, res["expected"], res["got"], confirmed=True, sig=res["sig"])
    return out


def match_finding(f, k):
    """narrow: signature must be listed; optional restriction on the case kind / implementation"""
    if f.get("sig") not in k.get("sigs", []):
        return False
    r = k.get("restrict") or {}
    inp = f.get("input") or {}
    for key, allowed in r.items():
        if inp.get(key) not in allowed:
            return False
    return True


def check_witness(ctx, w):
    _tables()
    res = check_case(w)
    if res is None:
        return None
    return dict(kind="spec", what=res["what"], input=w, expected=res["expected"], got=res["got"], confirmed=True, sig=res["sig"])


def replay(ctx, data):
    _tables()
    f = data.get("failing_input") or {}
    inp = f.get("input")
    if not inp:
        return False
    res = check_case(inp)
    if res:
        print("expected", res["expected"], "got", res["got"], "sig", res["sig"])
    return res is not None
