"""C11 wave 3 — translation tie for the scope resolution of parameter rules.

`translator/c11_scope2lean.py` translates `TreeNode.get_edge_names` and `_LikelihoodParameterController._process_scope_info`
to `lean/CogentModel/Gen/C11Scope.lean`; `Props/C11Scope.lean` proves them equal to the hand model `Model/ScopeModel.lean`.
Here the GENERATED definitions are run (driver command `scope`) against the real functions.  The tree primitives the two functions
call (get_node_matching_name, is_tip, unrooted_deepcopy, get_connecting_node, isroot, name, children, get_node_names) are
answered from tables filled by calling cogent3's own primitives on the real tree — the tie is about the translated control
flow / defaults / refusals, the primitives are C09's subject (and `reroot` ties unrooted_deepcopy for C11).
"""
from __future__ import annotations

import types
from pathlib import Path

from . import c02_util as U
from .common import SRC, VERIF, add_failure, bump

GEN_FILE = VERIF / "lean" / "CogentModel" / "Gen" / "C11Scope.lean"


def generate(ctx):
    import json
    import sys

    sys.path.insert(0, str(VERIF))
    from translator import c11_scope2lean as tr

    src = SRC
    try:
        lean, info, problems = tr.translate(src / "core" / "tree.py", src / "evolve" / "parameter_controller.py")
    except (tr.TranslationError, SyntaxError, OSError) as e:
        lean, info, problems = None, {}, [str(e)]
    ctx.notes.append(f"c11_scope2lean: {json.dumps(info)[:400]}")
    if lean is not None and tr.write_if_changed(GEN_FILE, lean):
        ctx.notes.append("Gen/C11Scope.lean was rewritten (the scope-resolution code differs from the last generated text)")
    return [f"c11_scope2lean: {p}" for p in problems]


MESSAGES = [
    ("Only ONE of edge, edges or tip_names", "onlyOne"),
    ("tip_names must contain 2 species", "twoSpecies"),
    ("Outgroup (", "outgroupNotTip"),
    ("LCA(", "noStem"),
    ("No node named", "prim"),
    ("No LCA found", "prim"),
]


def _classify(e):
    from cogent3.core.tree import TreeError

    if isinstance(e, TreeError):
        msg = str(e.args[0]) if e.args else ""
        for p, c in MESSAGES:
            if msg.startswith(p):
                return c
        return "TreeError:" + msg[:40]
    return type(e).__name__


def _tables(real, pair, og):
    """nodes / match / lca tables from cogent3's own primitives; tree 0 = `real`, the view from the outgroup appended"""
    nodes, index = [], {}

    def enum(n):
        i = len(nodes)
        index[id(n)] = i
        nodes.append(n)
        for c in n.children:
            enum(c)
        return i

    enum(real)
    match, views = [], {}
    names = {n.name for n in nodes}
    if og is not None:
        names.add(og)
    for nm in sorted(x for x in names if isinstance(x, str)):
        try:
            m = real.get_node_matching_name(nm)
        except Exception:  # noqa: BLE001
            continue
        if id(m) in index:
            match.append([0, nm, index[id(m)]])
            if nm == og:
                try:
                    v = m.unrooted_deepcopy()
                    views[index[id(m)]] = enum(v)
                    keep = v  # noqa: F841  (keeps the copy alive while ids are in use)
                except Exception:  # noqa: BLE001
                    pass
    lca = []
    if pair is not None:
        a, b = pair
        for t in [0] + sorted(views.values()):
            try:
                j = nodes[t].get_connecting_node(a, b)
            except Exception:  # noqa: BLE001
                continue
            if id(j) in index:
                lca.append([t, a, b, index[id(j)]])
    recs = [
        dict(
            name=n.name if isinstance(n.name, str) else "",
            tip=bool(n.is_tip()),
            root=bool(n.isroot()),
            children=[index[id(c)] for c in n.children],
            names=list(n.get_node_names(includeself=1)),
            view=views.get(i, -1),
        )
        for i, n in enumerate(nodes)
    ]
    return dict(nodes=recs, match=match, lca=lca), nodes


def _pick_name(rng, real, kind):
    tips = real.get_tip_names()
    inner = [n.name for n in real.get_edge_vector() if not n.is_tip()]
    if kind == "tip":
        return rng.choice(tips)
    if kind == "inner" and inner:
        return rng.choice(inner)
    if kind == "missing":
        return rng.choice(tips) + rng.choice(["_", "x", " "])
    return rng.choice(tips)


def scope_tie(ctx, rng, out, ntrees):
    import cogent3
    from cogent3.evolve.parameter_controller import _LikelihoodParameterController as PC

    reply = ctx.driver.batch([("scope", dict(fn="defaults", nodes=[], match=[], lca=[], clade=None, stem=None, outgroup_name=None))])[0]
    if "error" in reply:
        add_failure(out, "corr", "driver error (scope defaults)", {}, "reply", reply["error"], confirmed=False)
        return
    dflt = reply
    tri = [None, None, True, False]
    for ti in range(ntrees):
        ntips = rng.randint(3, 9)
        tree = U.rand_tree(rng, ntips, unary=rng.random() < 0.2, root_deg=rng.choice([None, None, 2, 2, 3]))
        nwk = U.newick(tree)
        real = cogent3.make_tree(nwk)
        holder = types.SimpleNamespace(tree=real)
        if ti % 4 == 0:
            try:
                holder = cogent3.get_model("F81").make_likelihood_function(real)
            except Exception:  # noqa: BLE001
                pass
        reqs, meta = [], []
        for _ in range(10):
            # tip_names
            r = rng.random()
            if r < 0.72:
                tips = [_pick_name(rng, real, rng.choice(["tip"] * 8 + ["inner", "missing"])) for _ in range(2)]
            elif r < 0.80:
                tips = None
            elif r < 0.85:
                tips = []
            else:
                tips = [_pick_name(rng, real, "tip") for _ in range(rng.choice([1, 3]))]
            r = rng.random()
            og = None if r < 0.3 else _pick_name(rng, real, rng.choice(["tip"] * 6 + ["inner", "missing"]))
            if og is not None and rng.random() < 0.05:
                og = "root"
            clade, stem = rng.choice(tri), rng.choice(tri)
            edge = None if rng.random() < 0.92 else rng.choice([_pick_name(rng, real, "tip"), ""])
            edges = None if rng.random() < 0.93 else rng.choice([[_pick_name(rng, real, "tip")], []])
            pair = tuple(tips) if tips is not None and len(tips) == 2 else None
            tabs, keep = _tables(real, pair, og)
            kw = dict(edge=edge, tip_names=tips, edges=edges, clade=clade, stem=stem, outgroup_name=og)
            for pre in ("", "hand_"):
                reqs.append(("scope", dict(tabs, fn=pre + "process_scope_info", **kw)))
                meta.append((pre + "process_scope_info", kw, keep))
            if pair is not None:
                # the tree method directly; flags given or left to the defaults of the def line
                kw2 = dict(outgroup_name=og)
                lean_kw = dict(outgroup_name=og, clade=dflt["get_edge_names.clade"], stem=dflt["get_edge_names.stem"])
                if clade is not None:
                    kw2["clade"] = lean_kw["clade"] = clade
                if stem is not None:
                    kw2["stem"] = lean_kw["stem"] = stem
                hand_kw = dict(lean_kw, clade=True if "clade" not in kw2 else clade, stem=False if "stem" not in kw2 else stem)
                for pre, lk in (("", lean_kw), ("hand_", hand_kw)):
                    reqs.append(("scope", dict(tabs, fn=pre + "get_edge_names", a=pair[0], b=pair[1], **lk)))
                    meta.append((pre + "get_edge_names", dict(kw2, a=pair[0], b=pair[1]), keep))
        replies = ctx.driver.batch(reqs)
        for (fn, kw, _keep), r in zip(meta, replies):
            out["evaluations"] += 1
            hand = fn.startswith("hand_")
            fn = fn[5:] if hand else fn
            inp = dict(op="scope:" + fn, newick=nwk, args=kw)
            if "error" in r:
                add_failure(out, "corr", f"driver error (scope {fn})", inp, "reply", r["error"], confirmed=False)
                continue
            try:
                if fn == "process_scope_info":
                    if isinstance(holder, types.SimpleNamespace):
                        got = PC._process_scope_info(holder, **kw)
                    else:
                        got = holder._process_scope_info(**kw)
                else:
                    k2 = {k: v for k, v in kw.items() if k not in ("a", "b")}
                    got = real.get_edge_names(kw["a"], kw["b"], **k2)
                have = dict(ok=None if got is None else list(got))
            except Exception as e:  # noqa: BLE001
                have = dict(err=_classify(e))
            want = dict(err=r["err"]) if "err" in r else dict(ok=r["ok"])
            if want != have:
                add_failure(
                    out, "corr", f"{'hand model of' if hand else 'translated'} {fn} and the implementation disagree", inp, want, have,
                    confirmed=False, sig=f"scope-{'hand' if hand else 'tie'}:{fn}:{'refusal' if 'err' in want or 'err' in have else 'edges'}",
                )
                continue
            if hand:
                bump(out, "scope_hand_model_agrees", fn)
                continue
            what = have.get("err") or ("all-edges" if have["ok"] is None else "edges" if have["ok"] else "no-edges")
            bump(out, "scope_tie_" + fn, what)
            if kw.get("outgroup_name") is not None and have.get("ok"):
                bump(out, "scope_tie_with_outgroup")
                out["nontrivial"].add(("scope", nwk, fn, str(sorted(kw.items(), key=str))))
