"""C10 helpers: history-driven generators of serialisable objects and the fixed
per-type OBSERVATION functions used by the round-trip oracle.

Nothing here imports cogent3 at module import time.
"""
from __future__ import annotations

import math

DNA = "ACGT"
PROT = "ACDEFGHIKLMNPQRSTVWY"


# --------------------------------------------------------------------------
# canonical comparison (floats under tolerance, never textually)
# --------------------------------------------------------------------------
def canon(x):
    """to plain python: tuples->lists, numpy -> python, dict keys -> str (sorted at compare time)"""
    import numpy

    if isinstance(x, str):
        return str(x)  # numpy.str_ -> str
    if isinstance(x, bool) or x is None:
        return x
    if isinstance(x, (int, numpy.integer)):
        return int(x)
    if isinstance(x, (float, numpy.floating)):
        return float(x)
    if isinstance(x, numpy.ndarray):
        return canon(x.tolist())
    if isinstance(x, dict):
        return {("|".join(map(str, k)) if isinstance(k, tuple) else str(k)): canon(v) for k, v in x.items()}
    if isinstance(x, (list, tuple)):
        return [canon(v) for v in x]
    if isinstance(x, (set, frozenset)):
        return sorted((canon(v) for v in x), key=repr)
    if isinstance(x, bytes):
        return x.decode("utf8", "replace")
    return repr(x)


def _is_exc(x):
    """an observation that RAISED on this side ({"exc": class name}). When the same observation raises on BOTH sides the
    objects are observationally equal there (neither answers); the exception class may depend on which check trips first
    (e.g. slicing a minus-strand feature of a protein view: AttributeError on the original, ValueError on its copy).
    Raises-vs-returns is still a difference."""
    return isinstance(x, dict) and set(x) == {"exc"}


def diff(a, b, tol=1e-9, path=""):
    """first difference between two canonical structures -> (path, a, b) or None"""
    if _is_exc(a) and _is_exc(b):
        return None
    if isinstance(a, float) or isinstance(b, float):
        if isinstance(a, (int, float)) and isinstance(b, (int, float)) and not isinstance(a, bool) and not isinstance(b, bool):
            if math.isnan(a) and math.isnan(b):
                return None
            if a == b or abs(a - b) <= tol * max(1.0, abs(a), abs(b)):
                return None
        return (path, a, b)
    if type(a) is not type(b):
        return (path, a, b)
    if isinstance(a, dict):
        if sorted(a) != sorted(b):
            return (path + "/keys", sorted(a), sorted(b))
        for k in sorted(a):
            d = diff(a[k], b[k], tol, f"{path}/{k}")
            if d:
                return d
        return None
    if isinstance(a, list):
        if len(a) != len(b):
            return (path + "/len", len(a), len(b))
        for i, (x, y) in enumerate(zip(a, b)):
            d = diff(x, y, tol, f"{path}/{i}")
            if d:
                return d
        return None
    return None if a == b else (path, a, b)


def diff_all(a, b, tol=1e-9, path="", out=None, cap=60):
    """every leaf difference between two canonical structures -> [(path, a, b), ...] (bounded)"""
    out = [] if out is None else out
    if len(out) >= cap:
        return out
    if _is_exc(a) and _is_exc(b):
        return out
    if isinstance(a, dict) and isinstance(b, dict):
        if sorted(a) != sorted(b):
            out.append((path + "/keys", sorted(a), sorted(b)))
        for k in sorted(set(a) & set(b)):
            diff_all(a[k], b[k], tol, f"{path}/{k}", out, cap)
        return out
    if isinstance(a, list) and isinstance(b, list) and not (isinstance(a, float) or isinstance(b, float)):
        if len(a) != len(b):
            out.append((path + "/len", len(a), len(b)))
            return out
        for i, (x, y) in enumerate(zip(a, b)):
            diff_all(x, y, tol, f"{path}/{i}", out, cap)
        return out
    d = diff(a, b, tol, path)
    if d:
        out.append(d)
    return out


_NODE_CLASSES = ("root", "internal", "tip")


def field_of(path):
    """the observed field a diff path belongs to (used in signatures).
    trees: <root|internal|tip>.<name|length|params|children>; annotations are split into `.count` (features vanished /
    appeared) and `.content` (a feature that is still there denotes something else)"""
    parts = [p for p in path.split("/") if p]
    if not parts:
        return "value"
    f = parts[0]
    if f in _NODE_CLASSES:
        rest = [p for p in parts[1:] if not p.lstrip("-").isdigit()]
        return f + "." + (rest[0] if rest else "nodes")
    if f in ("features", "seq_features", "db", "num_features"):
        tail = parts[-1]
        if f == "num_features" or tail == "len" or (f == "db" and "n" == tail):
            return "annotations.count"
        return "annotations.content"
    return f


# --------------------------------------------------------------------------
# observations
# --------------------------------------------------------------------------
def _try(f):
    try:
        return f()
    except Exception as e:  # the same call must fail the same way on the rebuilt object
        return {"exc": type(e).__name__}


def _feature_obs(f):
    plen = int(f.map.parent_length)
    return [
        str(f.biotype),
        str(f.name),
        str(f.seqid),
        canon(_try(lambda: f.map.get_coordinates())),
        plen,
        # the strand of a feature on an EMPTY parent denotes nothing (an empty view forgets its strand)
        bool(getattr(f, "reversed", False)) if plen else None,
        _try(lambda: str(f.get_slice())),
    ]


def _features_obs(obj, **kw):
    def go():
        return sorted((_feature_obs(f) for f in obj.get_features(allow_partial=True, **kw)), key=repr)

    return _try(go)


def _db_obs(db):
    if db is None:
        return None

    def go():
        recs = []
        for r in db.get_records_matching():
            r = dict(r)
            r.pop("id", None)
            recs.append(canon({k: v for k, v in r.items() if v is not None}))
        return sorted(recs, key=repr)

    return {"class": type(db).__name__, "records": _try(go)}


def _info_obs(info):
    if not info:
        return {}
    return canon({k: v for k, v in dict(info).items() if k != "Refs"})


def obs_seq(s, new=False, with_features=True):
    o = dict(
        cls=type(s).__name__,
        str=str(s),
        name=s.name,
        moltype=getattr(s.moltype, "label", None) or getattr(s.moltype, "name", None),
        length=len(s),
        info=_info_obs(s.info),
    )
    sid, ps, pe, strand = s.parent_coordinates()
    if len(s):
        o["seqid"] = sid  # identity of the parent the coordinates refer to
        o["coords"] = [int(ps), int(pe), int(strand)]
        o["annotation_offset"] = int(s.annotation_offset)
    # an empty sequence denotes no residues (and `_zero_slice` forgets even the seqid): no coordinates observed
    if with_features:
        o["features"] = _features_obs(s)
        o["num_features"] = _try(lambda: int(s.annotation_db.num_matches()) if s.annotation_db is not None else 0)
    return o


def obs_seqview(v):
    val = v.value if hasattr(v, "value") else v.str_value
    return dict(cls=type(v).__name__, value=val, length=len(v), reversed=bool(v.is_reversed) if len(v) else None, seqid=v.seqid)


def obs_aligned(a):
    return dict(
        cls="Aligned",
        str=str(a),
        name=a.name,
        gap_pos=canon(a.map.gap_pos),
        cum=canon(a.map.cum_gap_lengths),
        parent_length=int(a.map.parent_length),
        seq=obs_seq(a.data, with_features=False),
    )


def obs_collection(c):
    """old-style SequenceCollection / Alignment / ArrayAlignment"""
    o = dict(
        cls=type(c).__name__,
        names=list(c.names),
        seqs=c.to_dict(),
        moltype=c.moltype.label,
        info=_info_obs(c.info),
    )
    cls = type(c).__name__
    if cls in ("Alignment", "SequenceCollection"):
        rows = {}
        for n in c.names:
            s = c.named_seqs[n]
            s = s.data if hasattr(s, "data") else s
            sid, ps, pe, strand = s.parent_coordinates()
            rows[n] = [sid, int(ps), int(pe), int(strand)] if len(s) else []
        o["coords"] = rows
        o["features"] = _features_obs(c)
        if cls == "Alignment":
            o["seq_features"] = {n: _try(lambda n=n: sorted((_feature_obs(f) for f in c.get_features(seqid=n, on_alignment=False, allow_partial=True)), key=repr)) for n in c.names}
        o["db"] = _db_obs(c.annotation_db)
    return o


def obs_new_collection(c):
    rows = {}
    for n in c.names:
        s = c.seqs[n]
        sid, ps, pe, strand = s.parent_coordinates()
        rows[n] = [sid, int(ps), int(pe), int(strand)] if len(s) else []
    return dict(
        cls="new.SequenceCollection",
        names=list(c.names),
        seqs=c.to_dict(),
        moltype=c.moltype.label,
        info=_info_obs(c.info),
        coords=rows,
        db=_db_obs(c.annotation_db),
    )


def obs_seqsdata(sd):
    return dict(cls="SeqsData", names=list(sd.names), seqs={n: sd.get_seq_str(seqid=n) for n in sd.names}, alphabet=list(sd.alphabet), reversed=canon(dict(sd.reversed)) if hasattr(sd, "reversed") else None)


def _strip_internal_labels(nw):
    import re

    return re.sub(r"\)(?:'[^']*'|[^:,;()']+)", ")", nw)


def _node_obs(e):
    return dict(
        name=None if e.name is None else str(e.name),
        length=canon(e.length),
        # every params entry (length is observed on its own; a None length entry is the default state)
        params=canon({k: v for k, v in e.params.items() if k != "length"}),
        children=len(e.children),
    )


def obs_tree(t):
    """per node, by class (root / internal / tip) in preorder: name, length, every params entry, number of children;
    plus the newick with distances, the name-free shape, and tip-to-tip distances when every non-root edge has a length"""
    internal, tips = [], []
    for e in t.preorder(include_self=False):
        (tips if e.is_tip() else internal).append(_node_obs(e))

    def shape(e):
        return "(" + ",".join(shape(c) for c in e.children) + ")" if e.children else "t"

    o = dict(
        cls=type(t).__name__,
        root=_node_obs(t),
        internal=internal,
        tip=tips,
        shape=shape(t),
        tip_names=[str(n) for n in t.get_tip_names()],
        # get_newick(with_distances=True) with the labels of INTERNAL nodes removed: after a round trip the auto-generated
        # names ('edge.0') count as loaded and would be printed; every name is compared in newick_named / per node
        newick=_try(lambda: _strip_internal_labels(t.get_newick(with_distances=True))),
        newick_named=_try(lambda: t.get_newick(with_distances=True, with_node_names=True)),
    )
    if all(e.length is not None for e in t.get_edge_vector(include_root=False)) and len(tips) > 1:
        d = _try(lambda: t.get_distances())
        o["dists"] = {f"{a}|{b}": float(v) for (a, b), v in sorted(d.items())} if isinstance(d, dict) and "exc" not in d else d
    else:
        o["dists"] = None
    return o


def obs_table(t):
    return dict(
        cls="Table",
        header=list(t.header),
        shape=list(t.shape),
        cells=canon(t.to_list()) if t.shape[0] and t.shape[1] else [],
        title=t.title,
        legend=t.legend,
        index_name=t.index_name,
        types={c: t.columns[c].dtype.kind for c in t.header},
        formats=canon({k: (v if isinstance(v, str) else "callable") for k, v in t._column_templates.items()}),
        digits=t._digits,
        space=t.space,
        missing=t._missing_data,
        maxw=t._max_width,
    )


def obs_dictarray(d):
    return dict(cls=type(d).__name__, names=canon(d.template.names), array=canon(d.array), dict=canon(_try(d.to_dict)))


def obs_alphabet(a):
    return dict(cls=type(a).__name__, motifs=[str(m) if not isinstance(m, (bytes,)) else m.decode() for m in a], moltype=getattr(getattr(a, "moltype", None), "label", None), gap=getattr(a, "gap", None) if isinstance(getattr(a, "gap", None), (str, type(None))) else repr(getattr(a, "gap", None)), motif_len=_try(lambda: int(a.get_motif_len())) if hasattr(a, "get_motif_len") else getattr(a, "motif_len", None))


def obs_new_alphabet(a):
    o = dict(cls="new." + type(a).__name__, motifs=[str(m) for m in a], gap=getattr(a, "gap_char", None), missing=getattr(a, "missing_char", None), motif_len=int(getattr(a, "motif_len", 1)))
    if hasattr(a, "k"):
        o["k"] = int(a.k)
    if hasattr(a, "monomers"):
        o["monomers"] = [str(m) for m in a.monomers]
    return o


def obs_moltype(m):
    return dict(cls=type(m).__name__, label=m.label, alphabet=list(m.alphabet), gaps=sorted(m.gaps), missing=m.missing, ambiguities=canon({k: sorted(v) for k, v in m.ambiguities.items()}))


def obs_indelmap(m):
    return dict(cls="IndelMap", gap_pos=canon(m.gap_pos), cum=canon(m.cum_gap_lengths), parent_length=int(m.parent_length), termini_unknown=bool(m.termini_unknown), length=len(m), coords=canon(m.get_coordinates()), gap_coords=canon(m.get_gap_coordinates()))


def _span_obs(s):
    if s.lost:
        return ["lost", int(s.length), type(s).__name__]
    return ["span", int(s.start), int(s.end), bool(s.reverse), bool(s.tidy_start), bool(s.tidy_end), canon(s.value)]


def obs_featuremap(m):
    return dict(cls="FeatureMap", spans=[_span_obs(s) for s in m.spans], parent_length=int(m.parent_length), length=len(m), useful=bool(m.useful), complete=bool(m.complete), start=canon(m.start) if m.useful else None, end=canon(m.end) if m.useful else None, coords=canon(m.get_coordinates()))


def obs_db(db):
    o = _db_obs(db)
    o["n"] = int(db.num_matches())
    o["biotypes"] = sorted(map(str, db.biotype_counts())) if hasattr(db, "biotype_counts") else None
    o["describe"] = canon(_try(lambda: db.describe.to_list()))
    return o


def obs_model(sm):
    return dict(
        cls=type(sm).__name__,
        name=sm.name,
        motif_length=_try(lambda: int(sm.get_motif_len() if hasattr(sm, "get_motif_len") else sm.motif_length)),
        alphabet=[str(m) for m in sm.get_alphabet()],
        params=sorted(sm.get_param_list()),
        predicates=sorted(map(str, sm.get_predicates())) if hasattr(sm, "get_predicates") else None,
        mprob_model=type(sm.mprob_model).__name__ if getattr(sm, "mprob_model", None) is not None else None,
        ordered=_try(lambda: bool(sm._ordered_param is not None) if hasattr(sm, "_ordered_param") else None),
    )


def obs_lf(lf):
    import json as _json

    import numpy

    rules = []
    for r in lf.get_param_rules():
        r = dict(r)
        for k in ("edges", "loci", "bins"):
            if isinstance(r.get(k), (list, tuple, set)):
                r[k] = sorted(r[k])
        rules.append(canon(r))
    rules.sort(key=lambda r: _json.dumps(r, sort_keys=True, default=repr))
    loci = list(lf.locus_names)
    bins = list(lf.bin_names)
    edges = [e.name for e in lf.tree.get_edge_vector(include_root=False)]

    def per_locus(l):
        d = {}
        # which alignment sits on which locus (names + sequences), its motif probs and its own lnL contribution
        d["alignment"] = _try(lambda: canon(lf.get_param_value("alignment", locus=l).to_dict()))
        d["mprobs"] = _try(lambda: canon(lf.get_motif_probs(locus=l).to_dict()))
        d["lnL"] = _try(lambda: float(numpy.log(lf.get_full_length_likelihoods(locus=l)).sum()) if len(bins) == 1 else None)
        return d

    # every parameter value per (edge, locus, bin); a dimension a parameter does not have is simply not indexed
    values = {}
    for par in lf.get_param_names():
        if par in ("mprobs", "alignment"):
            continue
        for e in edges:
            for l in loci:
                for b in bins:
                    v = None
                    for kw in (dict(edge=e, locus=l, bin=b), dict(edge=e, locus=l), dict(edge=e, bin=b), dict(locus=l, bin=b), dict(edge=e), dict(locus=l), dict(bin=b), {}):
                        try:
                            v = lf.get_param_value(par, **kw)
                            break
                        except Exception:
                            continue
                    values[f"{par}|{e}|{l}|{b}"] = canon(v)
    o = dict(
        cls=type(lf).__name__,
        lnL=float(lf.lnL),
        nfp=int(lf.nfp),
        name=lf.name,
        model=lf.model.name,
        tree=_try(lambda: obs_tree(lf.get_annotated_tree())),
        locus_names=[str(x) for x in loci],
        bin_names=[str(x) for x in bins],
        loci={str(l): per_locus(l) for l in loci},
        values=values,
        rules=rules,
        stats=_try(lambda: {t.title: canon(t.to_list()) for t in lf.get_statistics(with_motif_probs=False)}),
    )
    return o


def obs_not_completed(nc):
    return dict(cls="NotCompleted", type=nc.type, origin=nc.origin, message=nc.message, source=nc.source, truth=bool(nc), str=str(nc))


def obs_result(r):
    try:
        r.deserialised_values()
    except Exception as e:
        return {"cls": type(r).__name__, "deserialised_values": {"exc": type(e).__name__}}
    o = dict(cls=type(r).__name__, source=str(r.source), keys=[canon(k) for k in r.keys()])
    items = {}
    for k in r:
        items[repr(canon(k))] = observe(r[k])
    o["items"] = items
    for attr in ("name", "lnL", "nfp", "DLC", "unique_Q", "num_evaluations", "evaluation_limit", "stat", "LR", "df", "pvalue", "observed", "elapsed_time"):
        if hasattr(type(r), attr) or hasattr(r, attr):
            o[attr] = canon(_try(lambda a=attr: getattr(r, a)))
    return o


def observe(x):
    """the fixed observation function, by type"""
    import numpy

    from cogent3.app.composable import NotCompleted
    from cogent3.app.result import generic_result
    from cogent3.core import (
        alignment,
        alphabet,
        annotation_db,
        location,
        moltype,
        new_alignment,
        new_alphabet,
        new_sequence,
        sequence,
        tree,
    )
    from cogent3.evolve.parameter_controller import _LikelihoodParameterController
    from cogent3.evolve.substitution_model import _SubstitutionModel
    from cogent3.util.dict_array import DictArray
    from cogent3.util.table import Table

    if isinstance(x, NotCompleted):
        return obs_not_completed(x)
    if isinstance(x, generic_result):
        return obs_result(x)
    if isinstance(x, new_sequence.Sequence):
        return obs_seq(x, new=True)
    if isinstance(x, (sequence.Sequence,)):
        return obs_seq(x)
    if isinstance(x, sequence.ArraySequence):
        return dict(cls=type(x).__name__, str=str(x), name=x.name)
    if isinstance(x, (sequence.SeqView, new_sequence.SeqView)):
        return obs_seqview(x)
    if isinstance(x, alignment.Aligned):
        return obs_aligned(x)
    if isinstance(x, (alignment._SequenceCollectionBase,)):
        return obs_collection(x)
    if isinstance(x, new_alignment.SequenceCollection):
        return obs_new_collection(x)
    if isinstance(x, new_alignment.SeqsData):
        return obs_seqsdata(x)
    if isinstance(x, tree.TreeNode):
        return obs_tree(x)
    if isinstance(x, Table):
        return obs_table(x)
    if isinstance(x, DictArray):
        return obs_dictarray(x)
    if isinstance(x, new_alphabet.AlphabetABC) or type(x).__module__.endswith("new_alphabet"):
        return obs_new_alphabet(x)
    if isinstance(x, alphabet.Enumeration):
        return obs_alphabet(x)
    if isinstance(x, moltype.MolType):
        return obs_moltype(x)
    if isinstance(x, location.IndelMap):
        return obs_indelmap(x)
    if isinstance(x, location.FeatureMap):
        return obs_featuremap(x)
    if isinstance(x, annotation_db.SqliteAnnotationDbMixin):
        return obs_db(x)
    if isinstance(x, _LikelihoodParameterController):
        return obs_lf(x)
    if isinstance(x, _SubstitutionModel):
        return obs_model(x)
    if isinstance(x, (dict, list, tuple, str, int, float, bool, type(None), numpy.ndarray, numpy.generic)):
        return canon(x)
    return {"unobserved": type(x).__name__}
