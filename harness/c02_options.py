"""C02, option grid of the model constructor: word (di-/tri-nucleotide, codon) substitution models built directly from
the classes of cogent3.evolve.substitution_model with every `mprob_model` (monomer / monomers / conditional / tuple),
complete word alphabets AND alphabets with excluded words (`motifs=` subsets, codon alphabets of several genetic codes).

Oracles (behavioural, no model source is read):
* the likelihoods of ALL possible columns of a small tree sum to one (theorem column_probs_sum_one needs row-stochastic
  P and a root distribution that sums to one);
* root probabilities sum to one, every P row sums to one;
* lnL equals exact pruning (Lean model) with P = scipy expm(Q t) where Q and the root distribution are built HERE from
  the definition of the motif-probability model:
    tuple       rate(i->j) = r_ij * pi_word[j]                                   root = pi_word
    monomer     rate(i->j) = r_ij * f[new nucleotide]                            root ~ prod_p f[w_p]   over the alphabet
    monomers    rate(i->j) = r_ij * f_p[new nucleotide] (p = changed position)   root ~ prod_p f_p[w_p] over the alphabet
    conditional rate(i->j) = r_ij * pi_word[j] / sum(pi_word[k] : k in alphabet, k equals j outside p)   root = pi_word
  r_ij = kappa for a transition at the changed position (x omega when the amino acid changes, codon models), only
  single-position changes are instantaneous, rows sum to zero, calibrated to one expected change per unit time."""
from __future__ import annotations

import itertools
import math

from . import c02_util as U
from .common import add_failure, bump, unrat

MPROB_MODELS = ["monomer", "monomers", "conditional", "tuple"]
TRANSITIONS = {frozenset("AG"), frozenset("CT")}
NUCS = "TCAG"


def _slim(spec):
    return {k: v for k, v in spec.items() if k != "tree"} | {"tree": spec["tree"]}


def rand_option_model(rng, cls, mprob_model):
    """model_kw of one constructor call; cls in dinuc / dinuc-subset / trinuc-subset / codon"""
    kw = dict(cls=cls, mprob_model=mprob_model)
    if cls in ("dinuc-subset", "trinuc-subset"):
        L, lo, hi = (2, 6, 14) if cls == "dinuc-subset" else (3, 8, 20)
        words = ["".join(p) for p in itertools.product(NUCS, repeat=L)]
        # the subset always contains one pair of words one transition apart (the constructor refuses a model whose
        # `kappa` predicate matches no instantaneous change)
        w = rng.choice(words)
        p = rng.randrange(L)
        v = w[:p] + {"A": "G", "G": "A", "C": "T", "T": "C"}[w[p]] + w[p + 1:]
        rest = [x for x in words if x not in (w, v)]
        kw["motifs"] = sorted([w, v] + rng.sample(rest, rng.randint(lo, hi) - 2))
    elif cls == "codon":
        kw["gc"] = rng.choice([1, 2, 4, 5, 11, 3, 6])
    return kw


def option_problem(rng, cls, mprob_model, ntips, ncols=None, all_columns=False, kw=None):
    kw = kw or rand_option_model(rng, cls, mprob_model)
    sm = U.get_sm(U.OPT, **kw)
    motifs = [str(m) for m in sm.get_alphabet()]
    if all_columns and len(motifs) ** ntips > 4000:
        ntips = 2
    kind = "codon" if cls == "codon" else "dinucleotide" if cls.startswith("dinuc") else "trinucleotide"
    tree = U.rand_tree(rng, ntips, zero_ok=False, root_deg=min(ntips, rng.choice([2, 3])))

    def relen(n):
        for c in n["children"]:
            c["len"] = round(rng.uniform(0.05, 0.8), 4)
            relen(c)

    relen(tree)
    tips = U.tree_tips(tree)
    if all_columns:
        cols = list(itertools.product(motifs, repeat=ntips))
        rng.shuffle(cols)
        seqs = {t: "".join(c[i] for c in cols) for i, t in enumerate(tips)}
    else:
        seqs = U.rand_alignment(rng, kind, motifs, tree, ncols, gaps=True)
    spec = dict(model=U.OPT, kind=kind, newick=U.newick(tree), tree=tree, seqs=seqs, moltype="dna", new_type=bool(rng.random() < 0.5),
                mprobs=U.rand_mprobs(rng, motifs), rules=[], bins=1, model_kw=kw, scoped=False, seed=rng.randrange(1 << 30),
                all_columns=all_columns)
    for p in ["kappa"] + (["omega"] if cls == "codon" else []):
        spec["rules"].append(dict(par_name=p, init=round(math.exp(rng.uniform(math.log(0.2), math.log(5.0))), 5)))
    return spec


def marginals(spec, motifs):
    """word frequencies supplied by the test, their position-specific and pooled nucleotide marginals"""
    import numpy

    L = len(motifs[0])
    pw = numpy.array([spec["mprobs"][m] for m in motifs], dtype=float)
    pw = pw / pw.sum()
    fp = []
    for p in range(L):
        f = {n: sum(pw[i] for i, m in enumerate(motifs) if m[p] == n) for n in NUCS}
        s = sum(f.values())
        fp.append({n: v / s for n, v in f.items()})
    pooled = {n: sum(fp[p][n] for p in range(L)) / L for n in NUCS}
    return pw, fp, pooled


def reported_freqs(lf, spec, motifs):
    """the motif-probability PARAMETER VALUES the function reports (the implementation raises frequencies below 1e-6 to
    that floor, e.g. a nucleotide that no word of a reduced alphabet has at some position): (pw, fp, pooled) or a
    description of a value that is further than 1e-5 from the marginals of the supplied word frequencies"""
    import numpy

    mp = spec["model_kw"]["mprob_model"]
    L = len(motifs[0])
    pw, fp, pooled = marginals(spec, motifs)
    if mp in ("tuple", "conditional"):
        d = {str(k): float(v) for k, v in lf.get_motif_probs().to_dict().items()}
        got = numpy.array([d[m] for m in motifs])
        dev = float(numpy.abs(got - pw).max())
        pw = got
    elif mp == "monomer":
        d = {str(k): float(v) for k, v in lf.get_motif_probs().to_dict().items()}
        dev = max(abs(d[n] - pooled[n]) for n in NUCS)
        pooled = d
    else:
        got = []
        for p in range(L):
            got.append({str(k): float(v) for k, v in lf.get_motif_probs(position=p).to_dict().items()})
        dev = max(abs(got[p][n] - fp[p][n]) for p in range(L) for n in NUCS)
        fp = got
    return (pw, fp, pooled), dev


def indep_Q(spec, motifs, freqs=None):
    """(root distribution, Q) from the definition in the module docstring"""
    import numpy

    kw = spec["model_kw"]
    mp = kw["mprob_model"]
    gc = kw.get("gc")
    par = {r["par_name"]: r["init"] for r in spec["rules"] if not r.get("edge")}
    L = len(motifs[0])
    pw, fp, pooled = freqs or marginals(spec, motifs)
    if mp == "tuple" or mp == "conditional":
        root = pw
    elif mp == "monomer":
        root = numpy.array([math.prod(pooled[c] for c in m) for m in motifs])
        root = root / root.sum()
    else:
        root = numpy.array([math.prod(fp[p][m[p]] for p in range(L)) for m in motifs])
        root = root / root.sum()
    m = len(motifs)
    Q = numpy.zeros((m, m))
    for i, x in enumerate(motifs):
        for j, y in enumerate(motifs):
            diff = [p for p in range(L) if x[p] != y[p]]
            if len(diff) != 1:
                continue
            p = diff[0]
            r = par["kappa"] if frozenset((x[p], y[p])) in TRANSITIONS else 1.0
            if gc is not None and U.translate(gc, x) != U.translate(gc, y):
                r *= par["omega"]
            if mp == "tuple":
                w = pw[j]
            elif mp == "monomer":
                w = pooled[y[p]]
            elif mp == "monomers":
                w = fp[p][y[p]]
            else:
                ctx = sum(pw[k] for k, z in enumerate(motifs) if all(z[q] == y[q] for q in range(L) if q != p))
                w = pw[j] / ctx
            Q[i, j] = r * w
    Q -= numpy.diag(Q.sum(axis=1))
    Q /= -(root * numpy.diag(Q)).sum()
    return root, Q


def _sig(spec, what):
    kw = spec["model_kw"]
    full = kw["cls"] == "dinuc"
    return f"options:{what}:{kw['mprob_model']}:{'complete' if full else 'excluded-words'}"


def check_sum_one(ctx, spec, out):
    """all possible columns; root probabilities; P rows"""
    import numpy

    try:
        lf = U.build_lf(spec, None)
        fl = numpy.array(lf.get_full_length_likelihoods(), dtype=float)
        ex = U.extract(lf, dict(spec, seqs={k: v[: 2 * len(str(lf._motifs[0]))] for k, v in spec["seqs"].items()}), profiles="oracle")
    except Exception as e:
        add_failure(out, "spec", "constructor option combination: likelihood function construction / evaluation raised",
                    dict(_slim(spec), check="opt-sum1"), "a likelihood", f"{type(e).__name__}: {e}",
                    sig=f"options-raised:{spec['model_kw']['mprob_model']}:{type(e).__name__}")
        return
    total = math.fsum(float(x) for x in fl)
    rootsum = float(numpy.sum(ex["bins"][0]["pi"]))
    rows = max(float(numpy.abs(numpy.asarray(P).sum(axis=1) - 1).max()) for P in ex["bins"][0]["P"])
    out["evaluations"] += 1
    kw = spec["model_kw"]
    bump(out, "options_sum_one", f"{kw['cls']}:{kw['mprob_model']}:m={ex['m']}")
    bump(out, "options_sum_one_columns_log2", int(math.log2(len(fl))))
    if abs(total - 1.0) > 1e-9 or abs(rootsum - 1.0) > 1e-9 or rows > 1e-9:
        add_failure(out, "spec", "constructor option combination: likelihoods of all possible columns / root probabilities / P rows do not sum to one",
                    dict(_slim(spec), check="opt-sum1"), dict(all_columns=1.0, root=1.0, row_err="<=1e-9"),
                    dict(all_columns=total, root=rootsum, row_err=rows), sig=_sig(spec, "sum1"))
    else:
        out["nontrivial"].add((str(sorted(kw.items())), spec["seed"], "opt-sum1"))


def check_definition(ctx, spec, out):
    """lnL vs exact pruning with Q, root built here from the definition"""
    import numpy
    from scipy.linalg import expm

    try:
        lf = U.build_lf(spec, None)
        got = float(lf.lnL)
        fl = [float(x) for x in lf.get_full_length_likelihoods()]
        ex = U.extract(lf, spec, profiles="oracle")
    except Exception as e:
        add_failure(out, "spec", "constructor option combination: likelihood function construction / evaluation raised",
                    dict(_slim(spec), check="opt-def"), "a likelihood", f"{type(e).__name__}: {e}",
                    sig=f"options-raised:{spec['model_kw']['mprob_model']}:{type(e).__name__}")
        return
    try:
        freqs, dev = reported_freqs(lf, spec, ex["motifs"])
    except Exception as e:
        add_failure(out, "spec", "constructor option combination: motif probabilities cannot be read back", dict(_slim(spec), check="opt-def"),
                    "motif probabilities", f"{type(e).__name__}: {e}", sig=f"options-raised:{spec['model_kw']['mprob_model']}:{type(e).__name__}")
        return
    if dev > 1e-5:
        add_failure(out, "spec", "constructor option combination: reported motif probabilities are not the (position-specific / pooled) marginals of the supplied word frequencies",
                    dict(_slim(spec), check="opt-def"), "within 1e-5 (floor 1e-6)", dev, sig=_sig(spec, "mprobs"))
        return
    root, Q = indep_Q(spec, ex["motifs"], freqs)
    Ps = [expm(Q * float(lf.get_param_value("length", edge=e))) for e in ex["edges"]]
    ex2 = dict(ex, bins=[dict(P=Ps, pi=root)], bprobs=[1.0])
    (res,) = ctx.driver.batch([U.lean_request(ex2, [])])
    if "error" in res:
        add_failure(out, "corr", "driver error (options)", _slim(spec), "reply", res["error"], confirmed=False)
        return
    lhs = [unrat(x) for x in res["lh"]]
    want = sum(k * U.log_fraction(l) for k, l in zip(res["counts"], lhs))
    out["evaluations"] += 1
    kw = spec["model_kw"]
    bump(out, "options_definition", f"{kw['cls']}:{kw['mprob_model']}")
    if any(not x > 1e-200 for x in fl):
        # a column that needs a change between words the (reduced) alphabet does not connect has likelihood ~0 and no
        # meaningful log: compare column by column instead
        bump(out, "options_definition_by_column")
        bad = [i for i, u in enumerate(res["index"]) if abs(fl[i] - float(lhs[u])) > 1e-7 * float(lhs[u]) + 1e-11]
        if bad:
            add_failure(out, "spec", "constructor option combination: a column likelihood differs from the sum-product with Q and root distribution built from the definition of the motif-probability model",
                        dict(_slim(spec), check="opt-def", column=bad[0]), float(lhs[res["index"][bad[0]]]), fl[bad[0]], sig=_sig(spec, "def"))
        return
    slack = sum(1e-12 / x for x in fl)
    if not (abs(got - want) <= 1e-7 * abs(want) + 1e-10 + slack):
        add_failure(out, "spec", "constructor option combination: lnL differs from the sum-product with Q and root distribution built from the definition of the motif-probability model",
                    dict(_slim(spec), check="opt-def"), want, got, sig=_sig(spec, "def"))
    else:
        out["nontrivial"].add((str(sorted(kw.items())), spec["seed"], "opt-def"))


def spec_stream(ctx, out, rng, budget):
    # cheap word alphabets: every mprob_model x complete / excluded words, every run
    for mp in MPROB_MODELS:
        for cls in ["dinuc", "dinuc-subset"] + (["trinuc-subset"] if budget > 1 or mp == MPROB_MODELS[ctx.seed % 4] else []):
            for _ in range(budget):
                spec = option_problem(rng, cls, mp, 2 if rng.random() < 0.7 or cls == "trinuc-subset" else 3, all_columns=True)
                check_sum_one(ctx, spec, out)
                check_definition(ctx, option_problem(rng, cls, mp, rng.choice([3, 4]), ncols=rng.randint(3, 7)), out)
    # codon alphabets (2 s to construct each): the mprob_model rotates with the seed in the quick tier
    ncod = 1 if budget == 1 else 4 if budget < 10 else 8
    for i in range(ncod):
        mp = MPROB_MODELS[(ctx.seed + i) % 4]
        spec = option_problem(rng, "codon", mp, 2, all_columns=True)
        check_sum_one(ctx, spec, out)
        # the same model object (cached by its keyword arguments) on a small problem, definition oracle
        check_definition(ctx, option_problem(rng, "codon", mp, 3, ncols=rng.randint(3, 6), kw=spec["model_kw"]), out)


def recheck(ctx, inp, out):
    check = inp.get("check")
    spec = {k: v for k, v in inp.items() if k not in ("check", "column")}
    if check == "opt-sum1":
        check_sum_one(ctx, spec, out)
    elif check == "opt-def":
        check_definition(ctx, spec, out)
    else:
        return False
    return True
