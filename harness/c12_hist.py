"""C12 — collections / alignments in a DERIVED state.

A case may carry `history`, a list of state-changing operations that are applied to a freshly built collection BEFORE
the method under test is called (rc, rc twice, take_seqs reordered / dropping a decoy, rename_seqs, copy, conversion
from the other nucleic-acid moltype, slicing a longer alignment).  The case's `seqs` are the strings the object must
DISPLAY after the history; `build` works backwards to the strings the fresh object has to be made from, so the plain
string oracle of the caller is unchanged: whatever happened to the object before, translation / stop handling speak
about the displayed sequences.
"""
from __future__ import annotations

import random

OPS = {
    "old.SequenceCollection": ["rc", "rcrc", "take_rev", "take_sub", "rename", "copy", "to_moltype"],
    "old.ArrayAlignment": ["rc", "rcrc", "take_rev", "take_sub", "rename", "copy", "to_moltype", "slice"],
    "old.Alignment": ["rc", "rcrc", "take_rev", "take_sub", "rename", "copy", "to_moltype", "slice"],
    "new.SequenceCollection": ["rc", "rcrc", "take_rev", "take_sub", "rename", "to_moltype"],
    "app.translate_seqs": ["rc", "rcrc", "take_rev", "take_sub", "rename", "copy", "to_moltype"],
}


def random_history(rng, entry):
    ops = OPS[entry]
    n = rng.choice([1, 1, 1, 2, 2, 3])
    h = [rng.choice(["rc", "rc", rng.choice(ops)]) for _ in range(n)]
    return h


def _rc(s, rna):
    return s.translate(str.maketrans("ACGUT", "UGCAA" if rna else "TGCAA"))[::-1]


def _preimage(names, seqs, moltype, history, aligned):
    """-> (names0, seqs0, moltype0, forward steps)"""
    r = random.Random(repr((seqs, moltype, history)))
    names, seqs = list(names), list(seqs)
    steps = []
    for op in reversed(history):
        rna = moltype == "rna"
        if op == "rc":
            seqs = [_rc(s, rna) for s in seqs]
            steps.append(("rc",))
        elif op == "rcrc":
            steps.append(("rc",))
            steps.append(("rc",))
        elif op == "take_rev":
            steps.append(("take", list(names)))
            names, seqs = names[::-1], seqs[::-1]
        elif op == "take_sub":
            steps.append(("take", list(names)))
            L = len(seqs[0]) if aligned else max(3, len(seqs[0]))
            names = names + ["zz_decoy"]
            seqs = seqs + ["".join(r.choice("ACGU" if rna else "ACGT") for _ in range(L))]
        elif op == "rename":
            steps.append(("rename",))
            names = ["q" + n for n in names]
        elif op == "copy":
            steps.append(("copy",))
        elif op == "to_moltype":
            steps.append(("to", moltype))
            moltype = "dna" if rna else "rna"
            seqs = [s.replace("U", "T") if rna else s.replace("T", "U") for s in seqs]
        elif op == "slice":
            a, b = r.choice([0, 1, 3, 4]), r.choice([0, 2, 3])
            L = len(seqs[0])
            steps.append(("slice", a, a + L))
            al = "ACGU" if rna else "ACGT"
            seqs = ["".join(r.choice(al) for _ in range(a)) + s + "".join(r.choice(al) for _ in range(b)) for s in seqs]
        else:
            raise ValueError(op)
    return names, seqs, moltype, steps[::-1]


def make(entry, names, seqs, moltype):
    import cogent3

    d = dict(zip(names, seqs))
    if entry in ("old.SequenceCollection", "app.translate_seqs"):
        return cogent3.make_unaligned_seqs(d, moltype=moltype)
    if entry == "old.ArrayAlignment":
        return cogent3.make_aligned_seqs(d, moltype=moltype, array_align=True)
    if entry == "old.Alignment":
        return cogent3.make_aligned_seqs(d, moltype=moltype, array_align=False)
    if entry == "new.SequenceCollection":
        from cogent3.core import new_alignment

        return new_alignment.make_unaligned_seqs(d, moltype=moltype)
    raise ValueError(entry)


def build(entry, seqs, moltype="dna", history=()):
    """the collection that DISPLAYS `seqs` under the names s0, s1, … after `history` has been applied to a fresh object"""
    names = [f"s{i}" for i in range(len(seqs))]
    aligned = "Alignment" in entry
    names0, seqs0, mt0, steps = _preimage(names, seqs, moltype, list(history or ()), aligned)
    o = make(entry, names0, seqs0, mt0)
    for st in steps:
        if st[0] == "rc":
            o = o.rc()
        elif st[0] == "take":
            o = o.take_seqs(st[1])
        elif st[0] == "rename":
            o = o.rename_seqs(lambda n: n[1:])
        elif st[0] == "copy":
            o = o.copy()
        elif st[0] == "to":
            o = o.to_rna() if st[1] == "rna" else o.to_dna()
        elif st[0] == "slice":
            o = o[st[1] : st[2]]
    return o
