"""C05 — substitution processes are valid, calibrated Markov processes.

Tie = exact-rational shadow: the implementation's own float64 inputs (parameters, motif probs, Q,
lengths) go to the Lean model (drv_c05) as exact rationals; the model's exact result is compared to the
implementation's float result under a stated tolerance.  spec_check evaluates the property's relational
identities on the real code only (numpy as calculator), plus an independent textbook reconstruction of
the named nucleotide / codon models.
"""
from __future__ import annotations

import ast
import math
import os
import warnings
from fractions import Fraction

# model construction runs an SVD per predicate set; multi-threaded BLAS is 3-4x slower here
for _v in ("OPENBLAS_NUM_THREADS", "OMP_NUM_THREADS", "MKL_NUM_THREADS"):
    os.environ.setdefault(_v, "1")

from . import c05_util as U
from .common import LEAN, SRC, VERIF, add_failure, bump, load_known, new_outcome, rat, unrat

PROP = "C05"
PROPS_FILES = [
    "CogentModel/Props/C05.lean",
    "CogentModel/Props/C05Real.lean",
    "CogentModel/Props/C05Expm.lean",
    "CogentModel/Props/C05Alphabet.lean",
    "CogentModel/Props/C05GenStat.lean",
    "CogentModel/Props/C05Gen.lean",
    "CogentModel/Props/C05Path.lean",
]
LEAN_TARGETS = [
    "CogentModel.Props.C05",
    "CogentModel.Props.C05Real",
    "CogentModel.Props.C05Expm",
    "CogentModel.Props.C05Alphabet",
    "CogentModel.Props.C05GenStat",
    "CogentModel.Props.C05Gen",
    "CogentModel.Props.C05Path",
]
DRIVER = "drv_c05"
GEN_PATH = LEAN / "CogentModel" / "Gen" / "C05Inst.lean"


def generate(ctx):
    """translator step: _is_instantaneous / _is_any_indel / _Codon._is_instantaneous, the long_indels class constants,
    ExpDefn.calc and _EigenPade.__call__ -> Gen/C05Inst.lean (every run, from the CURRENT source of the tree under test)"""
    import sys

    if str(VERIF) not in sys.path:
        sys.path.insert(0, str(VERIF))
    from translator import c05_inst2lean

    text, problems = c05_inst2lean.translate(SRC)
    if text is not None and c05_inst2lean.write_if_changed(GEN_PATH, text):
        ctx.notes.append("Gen/C05Inst.lean was rewritten (source of the translated functions differs from the last generated text, or first run)")
    return [f"c05_inst2lean: {p}" for p in problems]

TRUSTED = [
    "hand-written models lean/CogentModel/Model/RateMatrix.lean (calcQ, exchangeability, motif-prob models, rate classes) "
    "and Model/Expm.lean (Taylor, Pade + exact Gauss-Jordan solve), tied by exact-rational shadow evaluation against "
    "lf.get_rate_matrix_for_edge / PadeExponentiator / TaylorExponentiator on every named model",
    "predicate masks / param_pick tables are read from the model object as data (checked independently by the textbook "
    "reconstruction of 15 named models in spec_check)",
    "Mathlib NormedSpace.exp for the real-exponential theorems (Props/C05Real.lean)",
    "translator/c05_inst2lean.py (ast -> Lean, ~400 lines) and the meaning of its primitives in Model/C05GenPrelude.lean "
    "(countZip, index2, charAt, tryExcept); the translated predicates and back-end selection are additionally run against "
    "the real methods on an exhaustive small box of motif pairs / all settings / all exception kinds",
]
ASSUMPTIONS = [
    "float rounding, LAPACK eig/inv accuracy and numpy.maximum(result, 0) clipping are not modelled: back-ends are compared "
    "numerically against the exact Taylor value with an exact remainder bound (tolerance max(1e-9, bound))",
    "GammaDefn: only the normalisation given the bin medians is modelled (gdtri is not)",
    "GeneralStationary: pi Q = 0 is proved for the exact branch (all required values >= 0); in the allclose branch "
    "(-1e-8 <= required < 0 replaced by |required|) stationarity holds only up to ~2e-8 and is checked numerically",
    "eigen back-ends: proved for an exact decomposition and an abstract exponential; LAPACK eig/inv and float exp are inputs "
    "(the inner-product + clip step is shadowed exactly, real-eigenvalue case)",
]

Q_RTOL = 1e-10
P_ATOL = 1e-9
REL_ATOL = 1e-8  # relational identities on the float implementation


_KNOWN = None


def _fail(out, kind, what, inp, expected, got, sig=None):
    """add_failure, but failures that a listed known finding explains are kept at most 3 per signature, so that a flood
    of known-class failures can never push a *different* violation out of the runner's 200-failure window"""
    global _KNOWN
    if _KNOWN is None:
        try:
            _KNOWN = load_known(PROP)
        except Exception:
            _KNOWN = []
    probe = dict(sig=sig, input=inp)
    if any(match_finding(probe, k) for k in _KNOWN):
        cnt = out.setdefault("_known_count", {})
        cnt[sig] = cnt.get(sig, 0) + 1
        if cnt[sig] > 3:
            bump(out, "known_class_failures_not_listed", sig)
            return
    add_failure(out, kind, what, inp, expected, got, sig=sig)


def taylor_tolerances():
    """(rtol, atol) of the `numpy.allclose(eA, eA - trm, ...)` stopping test in TaylorExponentiator.__call__,
    read from the current source (numpy defaults when not given).  Raises if the loop has another shape."""
    tree = ast.parse((SRC / "maths" / "matrix_exponentiation.py").read_text())
    for node in tree.body:
        if isinstance(node, ast.ClassDef) and node.name == "TaylorExponentiator":
            for fn in node.body:
                if isinstance(fn, ast.FunctionDef) and fn.name == "__call__":
                    whiles = [w for w in ast.walk(fn) if isinstance(w, ast.While)]
                    if len(whiles) != 1:
                        raise ValueError("TaylorExponentiator.__call__: expected exactly one while loop")
                    t = whiles[0].test
                    if not (isinstance(t, ast.UnaryOp) and isinstance(t.op, ast.Not) and isinstance(t.operand, ast.Call)
                            and ast.unparse(t.operand.func) == "numpy.allclose"
                            and [ast.unparse(a) for a in t.operand.args] == ["eA", "eA - trm"]):
                        raise ValueError("TaylorExponentiator stopping test is not `not numpy.allclose(eA, eA - trm, ...)`")
                    kw = {k.arg: float(ast.literal_eval(k.value)) for k in t.operand.keywords}
                    if set(kw) - {"rtol", "atol"}:
                        raise ValueError("unexpected keyword in allclose")
                    return kw.get("rtol", 1e-5), kw.get("atol", 1e-8)
    raise ValueError("TaylorExponentiator.__call__ not found")


# --------------------------------------------------------------------------
# plan: which models, how many draws
# --------------------------------------------------------------------------
def _labels():
    named = U.named_models()
    return named, [l for l, _ in U.USER_SPECS]


def _get_model(out, label):
    """None when the constructor itself rejects the model (recorded in the histograms)"""
    try:
        return U.get_model_by_label(label)
    except (ValueError, AssertionError) as e:
        bump(out, "model_rejected_by_constructor", f"{label}: {type(e).__name__}")
        return None


def _size_class(n):
    return "n<=5" if n <= 5 else ("n<=25" if n <= 25 else "n=61")


def _np():
    import numpy

    return numpy


def _wprobs(sm, mp):
    """word probabilities from the input motif probs, written independently of motif_prob_model.py"""
    kind = sm._mprob_model
    if kind in ("tuple", "conditional"):
        return list(mp[0])
    monomers = [str(c) for c in sm.moltype.alphabet]
    idx = {c: i for i, c in enumerate(monomers)}
    words = [str(w) for w in sm.get_alphabet()]
    raw = []
    for w in words:
        p = 1.0
        for k, ch in enumerate(w):
            p *= (mp[k] if kind == "monomers" else mp[0])[idx[ch]]
        raw.append(p)
    z = math.fsum(raw)
    return [x / z for x in raw]


def _draw(sm, label, rng, **kw):
    """lf with random in-bounds values; GeneralStationary needs near-balanced parameters"""
    from cogent3.maths.optimisers import ParameterOutOfBoundsError

    if label == "user:GeneralStationary" and not kw.get("params"):
        for _ in range(50):
            params = {p: rng.uniform(0.6, 1.6) for p in sm.parameter_order}
            try:
                return U.make_lf(sm, rng, params=params, **kw)
            except ParameterOutOfBoundsError:
                continue
        raise RuntimeError("no in-bounds GeneralStationary draw")
    if sm._mprob_model == "monomers":
        return _make_monomers(sm, rng, **kw)
    kw.pop("wordprobs", None)
    return U.make_lf(sm, rng, **kw)


def _make_monomers(sm, rng, **kw):
    """position-specific monomer model: give word probs, cogent3 derives the per-position vectors"""
    import numpy
    from cogent3 import make_tree

    kw.pop("mprobs", None)
    tree = make_tree(U.TREE)
    with warnings.catch_warnings():
        warnings.simplefilter("ignore")
        lf = sm.make_likelihood_function(tree, **({"expm": kw["expm"]} if kw.get("expm") else {}))
        params = kw.get("params") or {p: U.rand_param(rng) for p in sm.parameter_order}
        for p, v in params.items():
            lf.set_param_rule(p, init=v)
        lengths = kw.get("lengths") or {e: U.rand_length(rng) for e in U.EDGES}
        for e, t in lengths.items():
            lf.set_param_rule("length", edge=e, init=t)
        wp = kw.get("wordprobs") or U.rand_probs(rng, len(sm.get_alphabet()))
        lf.set_motif_probs(numpy.array(wp))
    return lf, dict(params=params, lengths=lengths, mprobs=None, wordprobs=wp)


# --------------------------------------------------------------------------
# correspondence: Lean model vs implementation
# --------------------------------------------------------------------------
def _cmp_Q(out, label, what, exact, arr, inp, tol=Q_RTOL):
    mx = max((abs(float(x)) for r in exact for x in r), default=0.0)
    worst = 0.0
    for r1, r2 in zip(exact, arr):
        for x, y in zip(r1, r2):
            d = abs(float(x - Fraction(float(y))))
            lim = tol * abs(float(x)) + 1e-13 * mx
            if not d <= lim:
                worst = max(worst, d if d == d else float("inf"))
    if worst:
        add_failure(out, "corr", f"{what}: model != implementation", inp, "driver exact value", f"max excess diff {worst:.3e}",
                    sig=f"corr:{what}:{label}")
        return False
    return True


def correspondence(ctx):
    np = _np()
    out = new_outcome(
        "non-trivial = a (model, parameter/motif-prob draw) whose Q has at least two distinct off-diagonal values, or a "
        "(Q, t) with t*|Q| > 1e-3 for the exponentiators"
    )
    drv = ctx.driver
    named, user = _labels()
    rng = ctx.subrng("corr")
    reqs, meta = [], []

    def plan(label, reps):
        sm = _get_model(out, label)
        if sm is None or U.is_discrete(sm) or USERD(label).get("cls") == "solved":
            return
        st = U.model_struct(sm)
        if st["kind"] != "empirical":
            reqs.append(("inst", dict(words=st["words"], gap=st["gap"], codon=st["codon"])))
            meta.append(("inst", label, st, None))
        for r in range(reps):
            lf, info = _draw(sm, label, rng)
            edge = "a"
            scope = {}
            # time-heterogeneous variant: a different value of one parameter on edge b
            if st["param_names"] and rng.random() < 0.4 and label != "user:GeneralStationary":
                p = rng.choice(st["param_names"])
                lf.set_param_rule(p, edge="b", init=U.rand_param(rng))
                edge, scope = "b", {"edge": "b"}
            params = U.read_params(lf, sm, **scope)
            mp = U.read_mprobs(lf, sm)
            Qc = np.array(lf.get_rate_matrix_for_edge(edge, calibrated=True).array)
            Qu = np.array(lf.get_rate_matrix_for_edge(edge, calibrated=False).array)
            t = float(lf.get_param_value("length", edge=edge))
            reqs.append(("q", U.q_request(st, params, mp)))
            meta.append(("q", label, st, dict(params=params, mprobs=mp, edge=edge, t=t, Qc=Qc, Qu=Qu)))

    def USERD(label):
        return U.USER.get(label, {})

    thorough = ctx.thorough
    for typ, name in named:
        reps = {"nucleotide": (3, 30), "protein": (1, 8), "codon": (1, 4)}[typ][1 if thorough else 0]
        plan(name, reps)
    for label in user:
        big = any(k in label for k in ("Codon", "Tri"))
        n_reps = (1, 3) if big else ((2, 15) if "Di" not in label else (1, 6))
        plan(label, n_reps[1 if thorough else 0])

    replies = drv.batch(reqs)
    for (kind, label, st, d), rep in zip(meta, replies):
        out["evaluations"] += 1
        bump(out, "corr_kind", kind)
        if kind == "inst":
            if rep != st["inst"]:
                add_failure(out, "corr", "instantaneous mask: model != implementation", dict(model=label), st["inst"], rep,
                            sig=f"corr:inst:{label}")
            continue
        bump(out, "model", label)
        bump(out, "size", _size_class(st["n"]))
        bump(out, "mprob_model", st["mprob"])
        bump(out, "q_kind", st["kind"] + ("/stationary" if st["stationary"] else "/general"))
        inp = dict(model=label, params=d["params"], mprobs=d["mprobs"], edge=d["edge"])
        if "Q" not in rep:
            add_failure(out, "corr", "model could not build Q", inp, "Q", rep, sig=f"corr:qerr:{label}")
            continue
        Qe = U.fmat(rep["Q"])
        ok = _cmp_Q(out, label, "Q(calibrated)", Qe, d["Qc"], inp)
        tq = Fraction(d["t"])
        ok &= _cmp_Q(out, label, "Q(uncalibrated)", [[x * tq for x in r] for r in Qe], d["Qu"], inp)
        offd = {round(float(x), 12) for i, r in enumerate(Qe) for j, x in enumerate(r) if i != j and x != 0}
        if len(offd) >= 2:
            out["nontrivial"].add(("q", label, tuple(d["params"]), tuple(d["mprobs"][0][:4])))
        if len(out["samples"]) < 3 and st["n"] <= 5 and d["params"]:
            out["samples"].append(dict(model=label, params=d["params"], mprobs=d["mprobs"][0],
                                       Q_impl_row0=[float(x) for x in d["Qc"][0]], Q_model_row0=[float(x) for x in Qe[0]]))

    _corr_rates(ctx, out)
    _corr_expm(ctx, out)
    _corr_solve(ctx, out)
    _corr_hypotheses(ctx, out)
    _corr_gen(ctx, out)
    _corr_path(ctx, out)
    return out


def _corr_rates(ctx, out):
    """rate-class normalisation: Defn.calc on the real classes vs the model"""
    np = _np()
    from cogent3.maths.stats.distribution import gdtri
    from cogent3.recalculation.definition import GammaDefn, MonotonicDefn, WeightedPartitionDefn

    rng = ctx.subrng("rates")
    reqs, meta = [], []
    for _ in range(ctx.budget(30, 400)):
        k = rng.choice([2, 3, 4, 5, 8])
        w = np.array(U.rand_probs(rng, k))
        kind = rng.choice(["weighted", "monotonic", "gamma"])
        if kind == "gamma":
            a = math.exp(rng.uniform(math.log(0.05), math.log(20)))
            got = GammaDefn.calc(None, w, a)
            wn = w / np.sum(w)
            pct = np.add.accumulate(wn) - wn * 0.5
            vals = np.array([gdtri(a, a, p) for p in pct])
        else:
            vals = np.array(U.rand_probs(rng, k))
            got = (WeightedPartitionDefn if kind == "weighted" else MonotonicDefn).calc(None, w, vals)
        reqs.append(("rates", dict(kind=kind, weights=[rat(float(x)) for x in w], values=[rat(float(x)) for x in vals])))
        meta.append((kind, w, vals, got))
    for (kind, w, vals, got), rep in zip(meta, ctx.driver.batch(reqs)):
        out["evaluations"] += 1
        bump(out, "rates_kind", kind)
        bump(out, "rates_bins", len(w))
        exact = [unrat(x) for x in rep]
        bad = [i for i, (x, y) in enumerate(zip(exact, got)) if not abs(float(x) - float(y)) <= 1e-10 * abs(float(x))]
        if bad or len(exact) != len(got):
            add_failure(out, "corr", f"rate classes ({kind}): model != implementation",
                        dict(kind=kind, weights=list(map(float, w)), values=list(map(float, vals))),
                        [float(x) for x in exact], [float(x) for x in got], sig=f"corr:rates:{kind}")
        else:
            out["nontrivial"].add(("rates", kind, tuple(float(x) for x in w)))


def _qt_cases(ctx, rng, which):
    """(label, Q float matrix, t) triples from real likelihood functions"""
    np = _np()
    cases = []
    for label, reps in which:
        sm = U.get_model_by_label(label)
        for _ in range(reps):
            lf, info = _draw(sm, label, rng)
            e = rng.choice(U.EDGES)
            Q = np.array(lf.get_rate_matrix_for_edge(e, calibrated=True).array)
            t = float(lf.get_param_value("length", edge=e))
            cases.append((label, Q, t, lf, e))
    return cases


def _corr_expm(ctx, out):
    np = _np()
    from cogent3.maths.matrix_exponentiation import FastExponentiator, PadeExponentiator, TaylorExponentiator

    rng = ctx.subrng("expm")
    small = ["GN", "ssGN", "K80", "JC69", "GTR", "TN93", "HKY85", "F81", "user:TRN-gaps", "user:General", "user:NRN-fwd"]
    which = [(l, ctx.budget(2, 10)) for l in small]
    # exact Gauss-Jordan over Rat is slow beyond n ~ 5 (8-50 s per 16x16 / 20x20 case): mid sizes get the
    # Taylor shadow in quick and two Pade cases in thorough; 61x61 is covered by the reference check only
    which += [("user:TRDi-conditional", ctx.budget(1, 2)), ("JTT92", ctx.budget(1, 2))]
    cases = _qt_cases(ctx, rng, which)
    reqs, meta = [], []
    try:
        rtol, atol = taylor_tolerances()
    except ValueError as e:  # the code left the fragment the tie understands
        add_failure(out, "corr", f"translator: {e}", "matrix_exponentiation.py", "recognised loop", str(e), sig="corr:taylor:translate")
        rtol, atol = 1e-5, 1e-8
    for label, Q, t, lf, e in cases:
        n = Q.shape[0]
        norm = float(np.abs(Q).sum(axis=1).max()) * t
        with warnings.catch_warnings():
            warnings.simplefilter("ignore")
            Pp = PadeExponentiator(Q)(t)
            T = TaylorExponentiator(Q)
            Pt = T(t) if norm < 12 else None
            try:
                E = FastExponentiator(Q)
                if E.roots.dtype.kind != "c" and E.evT.dtype.kind != "c":
                    ev_e = np.exp(t * E.roots)
                    reqs.append(("eigen", dict(n=n, evT=U.rmat(E.evT), evI=U.rmat(E.evI), e=[rat(float(x)) for x in ev_e])))
                    scale = max(1.0, float(np.abs(E.evT).max() * np.abs(E.evI).max() * max(1.0, float(np.abs(ev_e).max()))))
                    meta.append(("eigen", label, Q, t, E(t), scale))
            except np.linalg.LinAlgError:
                pass
        base = dict(n=n, Q=U.rmat(Q), t=rat(t))
        # every squaring doubles the size of the exact rationals: j <= 6 keeps a 4x4 case under ~1 s
        if (n <= 5 and norm < 64) or (ctx.thorough and norm < 3):
            reqs.append(("pade", base))
            meta.append(("pade", label, Q, t, Pp, norm))
        if Pt is not None and n <= 25:
            reqs.append(("taylor", dict(base, q=21, fuel=400, rtol=rat(rtol), atol=rat(atol))))
            meta.append(("taylor", label, Q, t, (Pt, int(T.q)), norm))
    replies = ctx.driver.batch(reqs)
    for (kind, label, Q, t, Pimpl, norm), rep in zip(meta, replies):
        out["evaluations"] += 1
        bump(out, "expm_kind", kind)
        bump(out, "expm_norm", "<0.1" if norm < 0.1 else ("<1" if norm < 1 else ("<4" if norm < 4 else ">=4")))
        inp = dict(model=label, Q=Q.tolist(), t=t)
        if "P" not in rep:
            add_failure(out, "corr", f"{kind}: model returned no P", inp, "P", rep, sig=f"corr:{kind}:noP")
            continue
        Pe = U.fmat(rep["P"])
        if kind == "eigen":
            # `norm` slot carries the magnitude scale of the products here
            d = U.maxabs_diff(Pe, Pimpl)
            bump(out, "eigen_scale", "<1e2" if norm < 1e2 else ("<1e6" if norm < 1e6 else ">=1e6"))
            if not d <= 1e-10 * norm:
                add_failure(out, "corr", "eigen exponentiator (inner + clip): model != implementation", inp, "exact value",
                            f"max abs diff {d:.3e}", sig="corr:eigen")
            else:
                out["nontrivial"].add(("eigen", label, t))
            continue
        if kind == "taylor":
            Pimpl, impl_q = Pimpl
            k = int(rep["k"])
            model_q = k + 1 if k >= 21 else 21
            bump(out, "taylor_q_model_minus_impl", model_q - impl_q)
            if abs(model_q - impl_q) > 1:
                add_failure(out, "corr", "Taylor lengthening count: model and implementation differ by more than one step", inp,
                            model_q, impl_q, sig="corr:taylor:k")
        d = U.maxabs_diff(Pe, Pimpl)
        if kind == "pade":
            bump(out, "pade_q", rep["q"])
            bump(out, "pade_j", rep["j"])
            if unrat(rep["solve_residual"]) != 0:
                add_failure(out, "corr", "exact Gauss-Jordan residual D*F-N is non-zero", inp, 0, rep["solve_residual"],
                            sig="corr:pade:residual")
        else:
            bump(out, "taylor_k", rep["k"])
        if not d <= P_ATOL:
            add_failure(out, "corr", f"{kind} exponentiator: model != implementation", inp, "exact rational value",
                        f"max abs diff {d:.3e}", sig=f"corr:{kind}:{_size_class(Q.shape[0])}")
        elif norm > 1e-3:
            out["nontrivial"].add((kind, label, t))
        if kind == "pade" and len(out["samples"]) < 6 and Q.shape[0] == 4:
            out["samples"].append(dict(model=label, t=t, pade_q=rep["q"], pade_j=rep["j"],
                                       P_impl_row0=[float(x) for x in Pimpl[0]], P_model_row0=[float(x) for x in Pe[0]]))


def _corr_solve(ctx, out):
    """the Gauss-Jordan model of `solve` against numpy.linalg.solve on random well-conditioned and on singular matrices"""
    np = _np()
    rng = ctx.subrng("solve")
    reqs, meta = [], []
    for it in range(ctx.budget(40, 400)):
        n = rng.choice([1, 2, 3, 4, 5, 6])
        kind = rng.random()
        D = np.array([[rng.randint(-8, 8) / rng.choice([1, 2, 4, 8]) for _ in range(n)] for _ in range(n)], float)
        N = np.array([[rng.randint(-8, 8) / rng.choice([1, 2, 4]) for _ in range(n)] for _ in range(n)], float)
        if kind < 0.55:
            D += np.diag([rng.choice([-1, 1]) * (np.abs(D[i]).sum() + 1) for i in range(n)])  # diagonally dominant
            what = "dominant"
        elif kind < 0.75:
            what = "random"
        elif n > 1:
            i, j = rng.sample(range(n), 2)
            if rng.random() < 0.5:
                D[i] = D[j] * rng.choice([1, -2, 0.5])  # dependent rows: exactly singular in floats too
            else:
                D[:, i] = 0.0
            what = "singular"
        else:
            D[0, 0] = 0.0
            what = "singular"
        if rng.random() < 0.3 and n > 1:  # force a row swap: zero leading pivot
            D[0, 0] = 0.0
        reqs.append(("solve", dict(n=n, D=U.rmat(D), N=U.rmat(N))))
        meta.append((what, D, N))
    for (what, D, N), rep in zip(meta, ctx.driver.batch(reqs)):
        out["evaluations"] += 1
        bump(out, "solve_case", what)
        bump(out, "solve_n", D.shape[0])
        inp = dict(D=D.tolist(), N=N.tolist())
        try:
            X = np.linalg.solve(D, N)
            err = None
        except np.linalg.LinAlgError:
            X, err = None, "LinAlgError"
        if "err" in rep:
            bump(out, "solve_outcome", "model:singular")
            # numpy must refuse too, or return garbage (an exactly singular matrix can slip through LU with a tiny pivot)
            # (LU of an exactly singular matrix often meets a pivot ~1e-17 instead of 0 and returns entries ~1e16)
            if X is not None and np.isfinite(X).all() and np.abs(X).max() < 1e9 and np.abs(D @ X - N).max() <= 1e-9 * max(1.0, float(np.abs(N).max())):
                add_failure(out, "corr", "solve: model says singular, numpy returns an accurate solution", inp, "LinAlgError", X.tolist(),
                            sig="corr:solve:singular")
            continue
        bump(out, "solve_outcome", "model:solved")
        if unrat(rep["residual"]) != 0:
            add_failure(out, "corr", "solve: exact residual D*F-N is non-zero", inp, 0, rep["residual"], sig="corr:solve:residual")
        F = U.fmat(rep["F"])
        if X is None:
            # numpy refused a matrix the exact elimination solves: only acceptable for a numerically singular D
            if np.linalg.cond(D) < 1e12:
                add_failure(out, "corr", "solve: numpy raised on a well-conditioned matrix the model solves", inp, "solution", err,
                            sig="corr:solve:raise")
            continue
        cond = float(np.linalg.cond(D))
        d = U.maxabs_diff(F, X)
        mx = max(1.0, max(abs(float(x)) for r in F for x in r))
        if not d <= 1e-12 * cond * mx + 1e-12:
            add_failure(out, "corr", "solve: model != numpy.linalg.solve", inp, [[float(x) for x in r] for r in F], X.tolist(),
                        sig="corr:solve:value")
        else:
            out["nontrivial"].add(("solve", what, D.shape[0], float(D.sum())))


def _corr_hypotheses(ctx, out):
    """the structural hypotheses of the Lean theorems, checked on the real model objects:
    gap-free equal-length alphabets (C05Alphabet) and the shape of GeneralStationary's last_in_column (C05GenStat)"""
    named, user = _labels()
    for label in [n for _, n in named] + user:
        sm = _get_model(out, label)
        if sm is None or U.is_discrete(sm) or U.USER.get(label, {}).get("cls") == "solved":
            continue
        st = U.model_struct(sm)
        out["evaluations"] += 1
        gapfree = all(st["gap"] not in w for w in st["words"])
        eqlen = all(len(w) == st["L"] for w in st["words"])
        bump(out, "alphabet_hypotheses", "gap-free,equal-length" if (gapfree and eqlen) else "has-gap-motif")
        from cogent3.evolve import substitution_model as sub

        if not getattr(sm, "_serialisable", {}).get("model_gaps") and not (gapfree and eqlen):
            add_failure(out, "corr", "alphabet of a model without gap motif violates the hypotheses of C05Alphabet", dict(model=label),
                        "gap-free equal-length words", st["words"][:4], sig="corr:hyp:alphabet")
        if st["kind"] == "genstat":
            lic = [tuple(x) for x in st["last_in_column"]]
            n = st["n"]
            ok = (
                all(a[1] < b[1] for a, b in zip(lic, lic[1:]))
                and all(j < i < n for i, j in lic)
                and all(st["pick"][i][j] == 0 for i, j in lic)
                and {j for _, j in lic} == set(range(n - 1))
            )
            bump(out, "genstat_hypotheses", "hold" if ok else "violated")
            if not ok:
                add_failure(out, "corr", "GeneralStationary.last_in_column violates the hypotheses of generalStationary_piQ_zero",
                            dict(model=label), "sorted, i>j, empty target cells, all columns but the last", lic, sig="corr:hyp:genstat")


# --------------------------------------------------------------------------
# translated decision logic: instantaneous-change predicates and the selection of the exponentiator
# --------------------------------------------------------------------------
BOX_CHARS = "AC-"


def _stub_models():
    """objects that run the REAL _is_instantaneous / _is_any_indel methods on motifs of any length"""
    from cogent3.evolve import substitution_model as sub

    class _Word(sub._ContinuousSubstitutionModel):
        def __init__(self, gapmotif):
            self.gapmotif = gapmotif

    class _Cod(sub._Codon, _Word):
        pass

    return _Word, _Cod


def _inst_cases(ctx, rng):
    """(codon?, words) lists: every word over {A, C, -} of length 1..3 (4 in thorough), plus random longer pairs where
    the second word is the first with one run replaced by gaps / letters (the interesting neighbourhood)"""
    import itertools

    cases = []
    for L in (1, 2, 3) + ((4,) if ctx.thorough else ()):
        words = ["".join(w) for w in itertools.product(BOX_CHARS, repeat=L)]
        cases.append((False, words))
        cases.append((True, words))
    for _ in range(ctx.budget(120, 1200)):
        L = rng.randint(4, 9)
        x = [rng.choice("ACGT-") if rng.random() < 0.8 else "-" for _ in range(L)]
        y = list(x)
        for _k in range(rng.choice([1, 1, 2, 3])):
            a = rng.randrange(L)
            b = min(L, a + rng.choice([1, 1, 2, 3, L]))
            kind = rng.random()
            for i in range(a, b):
                y[i] = "-" if kind < 0.5 else (rng.choice("ACGT") if kind < 0.8 else x[i])
        if rng.random() < 0.3:
            x, y = y, x
        cases.append((rng.random() < 0.3, ["".join(x), "".join(y)]))
    return cases


def _spec_inst(x, y, codon):
    """which motif changes are instantaneous, written from the documentation: a change at exactly one position, or
    (word models) one contiguous insertion / deletion: every differing position pairs a gap with a non-gap, the gaps are
    all in the same motif, and the differing positions are adjacent.  Codon models: only a single-nucleotide change, or
    a whole-codon indel."""
    d = [k for k in range(len(x)) if x[k] != y[k]]
    if codon:
        gm = "-" * len(x)
        if x == gm or y == gm:
            return x != y
        return len(d) == 1
    if len(d) <= 1:
        return len(d) == 1
    in_x = all(x[k] == "-" for k in d)
    in_y = all(y[k] == "-" for k in d)
    return (in_x or in_y) and d == list(range(d[0], d[-1] + 1))


def _real_inst_mask(words, codon):
    Word, Cod = _stub_models()
    m = (Cod if codon else Word)("-" * len(words[0]))
    return [[int(bool(m._is_instantaneous(x, y))) for y in words] for x in words]


def _classify_constructor(mk):
    """which exponentiator constructor `mk` is, by behaviour on three probe matrices: a regular generator, a defective
    matrix (the reconstruction test of CheckedExponentiator fails, the unchecked one returns), a matrix with a NaN
    (numpy.linalg.eig raises LinAlgError; Pade's constructor does not look at Q)"""
    np = _np()

    def probe(Q):
        try:
            with warnings.catch_warnings():
                warnings.simplefilter("ignore")
                r = mk(np.array(Q, float))
            return type(r).__name__
        except np.linalg.LinAlgError:
            return "raise:linalg"
        except ArithmeticError:
            return "raise:arithmetic"
        except Exception as e:
            return f"raise:{type(e).__name__}"

    sig = (probe([[-1.0, 1.0], [1.0, -1.0]]), probe([[0.0, 1.0], [0.0, 0.0]]), probe([[float("nan"), 1.0], [1.0, -1.0]]))
    table = {
        ("PadeExponentiator", "PadeExponentiator", "PadeExponentiator"): "pade",
        ("EigenExponentiator", "EigenExponentiator", "raise:linalg"): "fast",
        ("EigenExponentiator", "raise:arithmetic", "raise:linalg"): "checked",
        ("EigenExponentiator", "PadeExponentiator", "PadeExponentiator"): "eigenPade(checked)",
        ("EigenExponentiator", "EigenExponentiator", "PadeExponentiator"): "eigenPade(fast)",
    }
    return table.get(sig, "?" + "/".join(sig))


class _StrLike:
    """ExpDefn.calc applies str() to its argument"""

    def __init__(self, s):
        self.s = s

    def __str__(self):
        return self.s


def _corr_gen(ctx, out):
    np = _np()
    from cogent3.evolve.substitution_calculation import ExpDefn, _EigenPade
    from cogent3.maths.matrix_exponentiation import PadeExponentiator

    rng = ctx.subrng("gen")
    code = {c: i for i, c in enumerate("ACGT-")}
    # --- instantaneous-change predicates: real methods vs hand model vs translated definitions
    cases = _inst_cases(ctx, rng)
    reqs = [("instbox", dict(words=[[code[c] for c in w] for w in words], gap=code["-"], gapmotif=[code["-"]] * len(words[0]), codon=codon))
            for codon, words in cases]
    for (codon, words), rep in zip(cases, ctx.driver.batch(reqs)):
        out["evaluations"] += 1
        real = _real_inst_mask(words, codon)
        kind = "codon" if codon else "word"
        bump(out, "instbox", f"{kind}:L={len(words[0])}" if len(words) > 2 else f"{kind}:random-pair")
        if "hand" not in rep:
            add_failure(out, "corr", "instbox: driver error", dict(words=words, codon=codon), "masks", rep, sig="corr:instbox:err")
            continue
        for which in ("hand", "gen"):
            if rep[which] != real:
                bad = [(words[i], words[j]) for i in range(len(words)) for j in range(len(words)) if rep[which][i][j] != real[i][j]]
                add_failure(out, "corr", f"_is_instantaneous ({kind}): {'hand model' if which == 'hand' else 'translated definition'} != real method",
                            dict(x=bad[0][0], y=bad[0][1], codon=codon, gapmotif="-" * len(words[0])),
                            dict(model=rep[which][words.index(bad[0][0])][words.index(bad[0][1])]),
                            dict(real=real[words.index(bad[0][0])][words.index(bad[0][1])], n_mismatches=len(bad)), sig=f"corr:instbox:{which}:{kind}")
        if any(real[i][j] for i in range(len(words)) for j in range(len(words)) if sum(a != b for a, b in zip(words[i], words[j])) > 1):
            out["nontrivial"].add(("instbox", kind, words[0], words[-1]))
    # --- ExpDefn.calc: every accepted setting and some that are not
    settings = ["eigen", "checked", "pade", "either", "taylor", "Either", "", "pade ", "eigen,pade"]
    reps = ctx.driver.batch([("expselect", dict(expm=s)) for s in settings])
    for s_, rep in zip(settings, reps):
        out["evaluations"] += 1
        for arg, how in ((s_, "str"), (_StrLike(s_), "str()-able")):
            try:
                real = _classify_constructor(ExpDefn.calc(None, arg))
            except KeyError:
                real = None
            bump(out, "expselect", f"{s_!r}:{real}")
            for which in ("hand", "gen"):
                if rep.get(which) != real:
                    add_failure(out, "corr", f"ExpDefn.calc: {'hand table' if which == 'hand' else 'translated definition'} != real selection",
                                dict(expm=s_, passed_as=how), rep.get(which), real, sig=f"corr:expselect:{which}")
        if real is not None:
            out["nontrivial"].add(("expselect", s_))
    # --- _EigenPade.__call__: every outcome of the inner constructor
    outcomes = [("ok", None), ("arithmetic", ArithmeticError), ("arithmetic", FloatingPointError), ("arithmetic", ZeroDivisionError),
                ("arithmetic", OverflowError), ("linalg", np.linalg.LinAlgError), ("other", ValueError), ("other", KeyError),
                ("other", RuntimeError)]
    reqs = [("eigenpade", dict(inner=inner, outcome=o)) for inner in ("fast", "checked") for o, _ in outcomes]
    reps = ctx.driver.batch(reqs)
    k = 0
    for inner in ("fast", "checked"):
        for o, exc in outcomes:
            rep = reps[k]
            k += 1
            out["evaluations"] += 1
            sentinel = object()

            def eigen(Q, exc=exc, sentinel=sentinel):
                if exc is None:
                    return sentinel
                raise exc("probe")

            try:
                with warnings.catch_warnings():
                    warnings.simplefilter("ignore")
                    r = _EigenPade(eigen=eigen)(np.identity(2))
                real = inner if r is sentinel else ("pade" if isinstance(r, PadeExponentiator) else f"?{type(r).__name__}")
            except np.linalg.LinAlgError:
                real = "raise:linalg"
            except ArithmeticError:
                real = "raise:arithmetic"
            except Exception:
                real = "raise:other"
            bump(out, "eigenpade", f"{o}->{real}")
            for which in ("hand", "gen"):
                if rep.get(which) != real:
                    add_failure(out, "corr", f"_EigenPade.__call__: {'hand model' if which == 'hand' else 'translated definition'} != real fall-back",
                                dict(inner_raises=getattr(exc, "__name__", None)), rep.get(which), real, sig=f"corr:eigenpade:{which}")
            if real == "pade":
                out["nontrivial"].add(("eigenpade", inner, getattr(exc, "__name__", None)))


# --------------------------------------------------------------------------
# products of transition matrices along the paths of the tree (time-heterogeneous / discrete-time models)
# --------------------------------------------------------------------------
PATHS = {"a": ["a"], "b": ["b"], "e": ["e"], "c": ["e", "c"], "d": ["e", "d"]}


def _node_table(lf):
    """{node: distribution} from lf.get_motif_probs_by_node(), None when the model does not support it"""
    np = _np()
    try:
        with warnings.catch_warnings():
            warnings.simplefilter("ignore")
            d = lf.get_motif_probs_by_node()
    except (NotImplementedError, AssertionError):
        # time-reversible 'monomers' models say NotImplementedError; for a non-reversible model with a monomer(s) motif-prob
        # model the method trips over its own DictArray template (cats vs dims) -- an API limitation outside this property
        return None
    names = list(d.template.names[0])
    arr = np.array(d.array, float)
    return {nm: arr[i] for i, nm in enumerate(names)}


def _hetero_lf(sm, label, rng, out=None):
    """a likelihood function whose edges differ: per-edge parameter values for continuous models, random row-stochastic
    psubs for the discrete-time models"""
    np = _np()
    lf, info = _draw(sm, label, rng)
    if U.is_discrete(sm):
        n = len(sm.get_alphabet())
        with warnings.catch_warnings():
            warnings.simplefilter("ignore")
            for e in U.EDGES:
                lf.set_param_rule("psubs", edge=e, init=np.array([U.rand_probs(rng, n) for _ in range(n)]))
        return lf, info, "discrete"
    names = list(getattr(sm, "parameter_order", []))
    kind = "homogeneous"
    if names and label != "user:GeneralStationary" and rng.random() < 0.7:
        with warnings.catch_warnings():
            warnings.simplefilter("ignore")
            for e in rng.sample(U.EDGES, rng.choice([1, 2, 3])):
                lf.set_param_rule(rng.choice(names), edge=e, init=U.rand_param(rng))
        kind = "time-heterogeneous"
    return lf, info, kind


def _corr_path(ctx, out):
    """LikelihoodFunction._nodeMotifProbs (numpy.dot(mprobs, psub) down the tree) vs the model's fold along each root path"""
    np = _np()
    rng = ctx.subrng("path")
    labels = ["GN", "ssGN", "user:General", "user:NRN-fwd", "user:GeneralStationary", "BH", "DT", "user:NRDi-fwd"]
    reqs, meta = [], []
    for label in labels:
        sm = _get_model(out, label)
        if sm is None:
            continue
        for _ in range(ctx.budget(1, 5) if len(sm.get_alphabet()) > 4 else ctx.budget(2, 12)):
            lf, info, kind = _hetero_lf(sm, label, rng)
            tab = _node_table(lf)
            if tab is None:
                bump(out, "path_unsupported", label)
                continue
            P = {e: np.array(lf.get_psub_for_edge(e).array, float) for e in U.EDGES}
            n = len(tab["root"])
            for node, path in PATHS.items():
                reqs.append(("path", dict(n=n, mp=[rat(float(x)) for x in tab["root"]], Ps=[U.rmat(P[e]) for e in path])))
                meta.append((label, kind, node, path, tab))
    for (label, kind, node, path, tab), rep in zip(meta, ctx.driver.batch(reqs)):
        out["evaluations"] += 1
        bump(out, "path_kind", kind)
        bump(out, "path_len", len(path))
        inp = dict(model=label, node=node, path=path)
        if "dists" not in rep:
            add_failure(out, "corr", "path: driver error", inp, "dists", rep, sig="corr:path:err")
            continue
        dists = [[unrat(x) for x in v] for v in rep["dists"]]
        if [unrat(x) for x in rep["viaProduct"]] != dists[-1]:  # an instance of path_chapman_kolmogorov, exactly
            add_failure(out, "corr", "path: fold != product form (contradicts path_chapman_kolmogorov)", inp, "equal", "differ", sig="corr:path:ck")
        ok = True
        for k, nd in enumerate(["root"] + path):
            d = max(abs(float(x) - float(y)) for x, y in zip(dists[k], tab[nd]))
            if not d <= 1e-12:
                ok = False
                add_failure(out, "corr", "node motif probs: model path fold != get_motif_probs_by_node", dict(inp, at=nd),
                            [float(x) for x in dists[k]], [float(x) for x in tab[nd]], sig=f"corr:path:{kind}")
        if ok and max(abs(float(x) - float(y)) for x, y in zip(dists[-1], dists[0])) > 1e-6:
            out["nontrivial"].add(("path", label, node, float(dists[-1][0])))


def _ens_reference(p0, Q, t):
    """-p0 . int_0^t exp(Qs) ds . diag(Q) by the power series of the integral (scaled by halving: I(2h) = I(h) + exp(Qh) I(h))"""
    np = _np()
    n = Q.shape[0]
    norm = float(np.abs(Q).sum(axis=1).max()) * t
    j = max(0, int(math.ceil(math.log2(max(norm, 1e-300)))) + 1) if norm > 0.5 else 0
    h = t / 2 ** j
    A = Q * h
    term = np.identity(n) * h  # A^k h / (k+1)!
    I = term.copy()
    E = np.identity(n)
    tk = np.identity(n)
    for k in range(1, 30):
        tk = tk @ A / k
        E = E + tk
        term = term @ A / (k + 1)
        I = I + term
    for _ in range(j):
        I = I + E @ I
        E = E @ E
    return -float(p0 @ I @ np.diag(Q))


def _check_nodes(out, label, sm, lf, inp, stationary, kind):
    """through the public API: the distribution at every node is a distribution, is the parent's times the edge's psub
    (Chapman-Kolmogorov down the tree), equals the motif probs at every node for a stationary process; expected numbers of
    substitutions: the branch length for a stationary process, -p0 int exp(Qs) ds diag(Q) otherwise"""
    np = _np()
    tab = _node_table(lf)
    if tab is None:
        bump(out, "nodes_unsupported", sm._mprob_model)
        return
    out["evaluations"] += 1
    bump(out, "nodes_checked", kind)
    parent = {"a": "root", "b": "root", "e": "root", "c": "e", "d": "e"}
    n = len(tab["root"])
    for nd, v in tab.items():
        tot = float(v.sum())
        if not abs(tot - 1) <= 1e-9 or not v.min() >= -1e-12:
            _fail(out, "spec", "distribution at a node is not a probability vector", dict(inp, node=nd), 1.0, [tot, float(v.min())], sig=f"nodes-distribution:{kind}")
    if U.is_discrete(sm) or not isinstance(sm, _trclass()):
        for nd, par in parent.items():
            P = np.array(lf.get_psub_for_edge(nd).array, float)
            d = float(np.abs(tab[par] @ P - tab[nd]).max())
            if not d <= 1e-10:
                _fail(out, "spec", "distribution at a node is not parent distribution x psub of the edge", dict(inp, node=nd, diff=d), 0.0, d,
                      sig=f"nodes-propagation:{kind}")
    if stationary:
        d = max(float(np.abs(v - tab["root"]).max()) for v in tab.values())
        if not d <= REL_ATOL:
            _fail(out, "spec", "stationary model: the distribution changes along the tree", dict(inp, diff=d), 0.0, d, sig="nodes-stationary")
    if U.is_discrete(sm):
        return
    try:
        with warnings.catch_warnings():
            warnings.simplefilter("ignore")
            ens = lf.get_lengths_as_ens()
    except NotImplementedError:
        return
    for e, par in parent.items():
        t = float(lf.get_param_value("length", edge=e))
        Q = np.array(lf.get_rate_matrix_for_edge(e, calibrated=True).array, float)
        if stationary:
            ref, tol, what = t, 1e-9 * max(1.0, t), "stationary"
        else:
            if float(np.abs(Q).sum(axis=1).max()) * t > 60 or _eig_cond(Q) > 1e4:
                continue
            ref = _ens_reference(tab[par], Q, t)
            tol, what = 1e-4 * max(1.0, abs(ref)), "non-stationary"
        bump(out, "ens_checked", what)
        got = float(ens[e])
        if not abs(got - ref) <= tol:
            _fail(out, "spec", f"expected number of substitutions on an edge ({what} process) is wrong", dict(inp, edge=e, t=t, diff=abs(got - ref)),
                  ref, got, sig=f"ens:{what}")


def _check_all_api(out, label, sm, lf, inp, wp, kind):
    """the collective accessors named by the property: get_all_psubs() / get_all_rate_matrices(calibrated=...) against the
    per-edge accessors and against each other: expm of the uncalibrated Q of a scope is that scope's psub; every calibrated
    Q has unit expected rate; with rate classes the bprob-weighted expected substitutions of an edge equal its length"""
    np = _np()
    from cogent3.maths.matrix_exponentiation import PadeExponentiator

    with warnings.catch_warnings():
        warnings.simplefilter("ignore")
        psubs = {tuple(str(x) for x in k): np.array(v.array, float) for k, v in lf.get_all_psubs().items()}
        if U.is_discrete(sm):
            qc = qu = {}
        else:
            qc = {tuple(str(x) for x in k): np.array(v.array, float) for k, v in lf.get_all_rate_matrices(calibrated=True).items()}
            qu = {tuple(str(x) for x in k): np.array(v.array, float) for k, v in lf.get_all_rate_matrices(calibrated=False).items()}
    out["evaluations"] += 1
    bump(out, "all_api_checked", kind)
    bins = list(getattr(lf, "bin_names", None) or [])
    multi = len(bins) > 1
    for key, P in psubs.items():
        edge = key[-1]
        kw = dict(bin=key[0]) if (multi and len(key) == 2) else {}
        d = float(np.abs(np.array(lf.get_psub_for_edge(edge, **kw).array, float) - P).max())
        if not d <= 1e-12:
            _fail(out, "spec", "get_all_psubs differs from get_psub_for_edge", dict(inp, scope=list(key), diff=d), 0.0, d, sig=f"all-psubs:{kind}")
        if key in qu:
            if float(np.abs(qu[key]).sum(axis=1).max()) <= 60:
                d = float(np.abs(PadeExponentiator(qu[key])(1.0) - P).max())
                if not d <= REL_ATOL and _eig_cond(qu[key]) < 1e4:
                    _fail(out, "spec", "expm of the uncalibrated rate matrix of a scope is not the psub of that scope", dict(inp, scope=list(key), diff=d),
                          0.0, d, sig=f"all-Q-psub:{kind}")
    for key, Q in qc.items():
        rate = -float(np.dot(wp, np.diag(Q)))
        if not abs(rate - 1.0) <= 1e-9:
            _fail(out, "spec", "get_all_rate_matrices(calibrated=True): expected rate at the motif probabilities is not one", dict(inp, scope=list(key)),
                  1.0, rate, sig=f"all-Q-calibration:{kind}")
        if key and key[-1] in U.EDGES:
            kw = dict(bin=key[0]) if (multi and len(key) == 2) else {}
            d = float(np.abs(np.array(lf.get_rate_matrix_for_edge(key[-1], calibrated=True, **kw).array, float) - Q).max())
            if not d <= 1e-12:
                _fail(out, "spec", "get_all_rate_matrices differs from get_rate_matrix_for_edge", dict(inp, scope=list(key), diff=d), 0.0, d,
                      sig=f"all-Q-edge:{kind}")
    if qu:
        bpr = np.array(lf.get_param_value("bprobs"), float) if multi else np.array([1.0])
        for e in U.EDGES:
            t = float(lf.get_param_value("length", edge=e))
            keys = [(b, e) for b in bins] if multi else [(e,)]
            if not all(k in qu for k in keys):
                bump(out, "all_api_scope_missing", kind)
                continue
            ens = float(sum(w * -np.dot(wp, np.diag(qu[k])) for w, k in zip(bpr, keys)))
            if not abs(ens - t) <= 1e-9 * max(1.0, t):
                _fail(out, "spec", "uncalibrated rate matrices: (bin-probability weighted) expected substitutions of an edge differ from its length",
                      dict(inp, edge=e, t=t, bins=len(bins)), t, ens, sig=f"all-Q-length:{kind}")


def _trclass():
    from cogent3.evolve import substitution_model as sub

    return sub.TimeReversible


def _check_inst_spec(out, ctx, rng):
    """instantaneous-change masks of the real code against the documented meaning (`_spec_inst`): the stub box and the
    masks of every supplied / user-built model"""
    for codon, words in _inst_cases(ctx, rng):
        real = _real_inst_mask(words, codon)
        out["evaluations"] += 1
        for i, x in enumerate(words):
            for j, y in enumerate(words):
                want = int(_spec_inst(x, y, codon))
                if real[i][j] != want:
                    _fail(out, "spec", "instantaneous-change predicate differs from its documented meaning",
                          dict(x=x, y=y, codon=codon, gapmotif="-" * len(x)), want, real[i][j], sig=f"inst-mask:{'codon' if codon else 'word'}")
                    break
            else:
                continue
            break
    named, user = _labels()
    from cogent3.evolve import substitution_model as sub

    for label in [n for _, n in named] + user:
        sm = _get_model(out, label)
        if sm is None or U.is_discrete(sm) or U.USER.get(label, {}).get("cls") == "solved" or isinstance(sm, sub.Empirical):
            continue  # (an empirical model's mask is the support of its published matrix)
        words = [str(w) for w in sm.get_alphabet()]
        mask = _np().asarray(sm._instantaneous_mask)
        codon = isinstance(sm, sub._Codon)
        out["evaluations"] += 1
        bump(out, "inst_mask_checked", "codon" if codon else f"word:L={len(words[0])}")
        bad = [(x, y) for i, x in enumerate(words) for j, y in enumerate(words) if bool(mask[i][j]) != _spec_inst(x, y, codon)]
        if bad:
            _fail(out, "spec", "instantaneous mask of a model differs from the documented meaning", dict(model=label, x=bad[0][0], y=bad[0][1]),
                  _spec_inst(bad[0][0], bad[0][1], codon), not _spec_inst(bad[0][0], bad[0][1], codon), sig=f"inst-mask-model:{'codon' if codon else 'word'}")


# --------------------------------------------------------------------------
# spec_check: the real implementation against the property itself
# --------------------------------------------------------------------------
GC = "FFLLSSSSYY**CC*WLLLLPPPPHHQQRRRRIIIMTTTTNNKKSSRRVVVVAAAADDEEGGGG"  # standard code, TCAG order
TS = {frozenset("AG"), frozenset("CT")}


def _aa(codon):
    i = ["TCAG".index(c) for c in codon]
    return GC[16 * i[0] + 4 * i[1] + i[2]]


def _lit_Q(name, words, pnames, params, mp, wp):
    """textbook definition of the named models, written without reference to cogent3's predicates.
    Returns un-normalised off-diagonal rates r[i][j] (None if the model is not covered)."""
    P = dict(zip(pnames, params))
    n = len(words)
    L = len(words[0])

    def nuc_rate(x, y):
        """exchangeability factor of the nucleotide change x -> y under the model's nucleotide part"""
        pair = frozenset((x, y))
        if name in ("JC69", "F81"):
            return 1.0
        if name in ("K80", "HKY85", "GY94", "Y98", "MG94HKY", "CNFHKY"):
            return P["kappa"] if pair in TS else 1.0
        if name == "TN93":
            return P["kappa_y"] if pair == frozenset("CT") else (P["kappa_r"] if pair == frozenset("AG") else 1.0)
        if name in ("GTR", "MG94GTR", "CNFGTR"):
            key = "/".join(sorted(pair))
            return P.get(key, 1.0)  # G/T is the reference
        if name in ("GN", "GNC"):
            return P.get(f"{x}>{y}", 1.0)  # T>G is the reference
        if name == "ssGN":
            comp = dict(A="T", T="A", C="G", G="C")
            for k, v in P.items():
                terms = [s.strip() for s in k.strip("()").split("|")]
                if f"{x}>{y}" in terms:
                    return v
            return 1.0
        return None

    covered = {"JC69", "F81", "K80", "HKY85", "TN93", "GTR", "GN", "ssGN", "GY94", "Y98", "MG94HKY", "MG94GTR", "CNFHKY",
               "CNFGTR", "GNC"}
    if name not in covered:
        return None
    stationary = name not in ("GN", "ssGN", "GNC")
    r = [[0.0] * n for _ in range(n)]
    for i, x in enumerate(words):
        for j, y in enumerate(words):
            diffs = [k for k in range(L) if x[k] != y[k]]
            if len(diffs) != 1:
                continue
            d = diffs[0]
            v = nuc_rate(x[d], y[d])
            if L == 3 and _aa(x) != _aa(y):
                v *= P["omega"]
            if stationary:
                if name.startswith("MG94"):
                    v *= mp[0]["TCAG".index(y[d])]
                elif name.startswith("CNF"):
                    ctx_tot = math.fsum(wp[k] for k, w in enumerate(words) if all(w[m] == y[m] for m in range(L) if m != d))
                    v *= wp[j] / ctx_tot
                else:
                    v *= wp[j]
            r[i][j] = v
    return r


def _check_Q(out, label, sm, lf, edge, inp, reversible, stationary):
    np = _np()
    Q = np.array(lf.get_rate_matrix_for_edge(edge, calibrated=True).array)
    mp = U.read_mprobs(lf, sm)
    wp = np.array(_wprobs(sm, mp))
    n = Q.shape[0]
    scale = max(1.0, float(np.abs(Q).max()))
    out["evaluations"] += 1
    # the word probabilities the calculator itself uses (they calibrate Q): a distribution, equal to the independent value
    try:
        wimpl = np.array(lf.get_param_value("wprobs" if sm._mprob_model in ("monomer", "monomers") else "mprobs"), float)
    except Exception as e:
        wimpl = None
        bump(out, "wprobs_unreadable", type(e).__name__)
    if wimpl is not None and wimpl.shape == wp.shape:
        bump(out, "wprobs_checked", sm._mprob_model)
        tot = float(wimpl.sum())
        if not abs(tot - 1.0) <= 1e-5 + 1e-9:  # PartitionDefn itself only guarantees 1e-5 for user-supplied vectors
            _fail(out, "spec", "word probabilities of the model do not sum to one", inp, 1.0, tot, sig=f"wprobs-sum:{sm._mprob_model}")
        dw = float(np.abs(wimpl - wp * (tot if sm._mprob_model in ("tuple", "conditional") else 1.0)).max())
        if not dw <= 1e-9:
            _fail(out, "spec", "word probabilities differ from the normalised product of monomer probabilities", inp, wp.tolist()[:6],
                  wimpl.tolist()[:6], sig=f"wprobs-value:{sm._mprob_model}")
    rs = np.abs(Q.sum(axis=1)).max()
    if not rs <= 1e-11 * scale * n:
        _fail(out, "spec", "rows of Q do not sum to zero", inp, 0.0, float(rs), sig="Q-rowsum")
    off = Q - np.diag(np.diag(Q))
    if off.min() < 0:
        _fail(out, "spec", "negative off-diagonal rate", inp, ">= 0", float(off.min()), sig="Q-offdiag")
    rate = -float(np.dot(wp, np.diag(Q)))
    if not abs(rate - 1.0) <= 1e-9:
        _fail(out, "spec", "expected rate at the motif probabilities is not one (-sum pi_i Q_ii)", inp, 1.0, rate,
                    sig="Q-calibration")
    t_edge = float(lf.get_param_value("length", edge=edge))
    Qu = np.array(lf.get_rate_matrix_for_edge(edge, calibrated=False).array)
    ens = -float(np.dot(wp, np.diag(Qu)))
    if not abs(ens - t_edge) <= 1e-9 * max(1.0, t_edge):
        _fail(out, "spec", "uncalibrated Q: expected substitutions per site differ from the branch length", inp, t_edge, ens,
                    sig="Q-length")
    if stationary:
        piQ = np.abs(wp @ Q).max()
        if not piQ <= 1e-10 * scale:
            _fail(out, "spec", "motif probabilities are not stationary (pi Q != 0)", inp, 0.0, float(piQ),
                        sig="Q-stationary")
    if reversible:
        F = wp[:, None] * Q
        db = np.abs(F - F.T).max()
        if not db <= 1e-10 * scale:
            _fail(out, "spec", "detailed balance fails (pi_i Q_ij != pi_j Q_ji)", inp, 0.0, float(db),
                        sig="Q-detailed-balance")
    # textbook reconstruction
    if not label.startswith("user:"):
        params = U.read_params(lf, sm, edge=edge)
        words = [str(w) for w in sm.get_alphabet()]
        r = _lit_Q(label, words, list(sm.parameter_order), params, mp, list(wp))
        if r is not None:
            R = np.array(r)
            Ql = R - np.diag(R.sum(axis=1))
            Ql /= -float(np.dot(wp, np.diag(Ql)))
            d = np.abs(Ql - Q).max()
            bump(out, "textbook_checked", label)
            if not d <= 1e-9 * scale:
                _fail(out, "spec", "Q differs from the textbook definition of the model", inp, "textbook Q",
                            float(d), sig="Q-textbook")
    return Q, wp


def _backends(Q):
    """exponentiator objects for Q under each setting, obtained the way a likelihood function obtains them
    (ExpDefn.calc(expm) applied to Q); `refused[name]` = the exception class when the constructor raised"""
    from cogent3.evolve.substitution_calculation import ExpDefn
    from cogent3.maths.matrix_exponentiation import TaylorExponentiator

    res = {}
    with warnings.catch_warnings():
        warnings.simplefilter("ignore")
        for name in ("eigen", "checked", "pade", "either", "taylor"):
            try:
                mk = TaylorExponentiator if name == "taylor" else ExpDefn.calc(None, name)
                res[name] = mk(Q)
            except (ArithmeticError, _np().linalg.LinAlgError) as e:
                # refusing is allowed for the eigen routes: "eigen failed precision test" / singular eigenvector matrix
                res[name] = None
                _REFUSED[(id(Q), name)] = type(e).__name__
    return res


_REFUSED = {}


def _eig_cond(Q):
    """condition number of the eigenvector matrix numpy finds for Q (large = near-defective / badly scaled)"""
    np = _np()
    try:
        c = float(np.linalg.cond(np.linalg.eig(Q)[1]))
        return c if c == c else float("inf")
    except Exception:
        return float("inf")


def _check_P(out, ctx, label, sm, Q, wp, lengths, inp, reversible, stationary, refs, only=None):
    """relational identities on every back-end; `refs` collects (Q,t,P by backend) for the exact reference check"""
    np = _np()
    n = Q.shape[0]
    eye = np.identity(n)
    bes = _backends(Q)
    s, t = lengths
    norm = float(np.abs(Q).sum(axis=1).max())
    cond = _eig_cond(Q)
    bump(out, "eig_cond", "<1e2" if cond < 1e2 else ("<1e4" if cond < 1e4 else ("<1e8" if cond < 1e8 else ">=1e8")))
    # float tolerance of the relational identities: 1e-8, widened for huge t*|Q| (rounding of exp(t*lambda) scales with it)
    TOL = max(REL_ATOL, 1e-11 * norm * (s + t) * min(max(1.0, cond), 1e2))
    Pst_by = {}
    for name, E in bes.items():
        if only and name not in only and name != "pade":
            continue
        if E is None:
            bump(out, "backend_unavailable", name)
            if name in ("either", "pade"):
                # 'either' exists to fall back to Pade when the eigen route fails, Pade's constructor cannot fail
                _fail(out, "spec", f"expm='{name}' refused a rate matrix ({_REFUSED.get((id(Q), name))}) instead of supplying a transition matrix",
                      dict(inp, backend=name, s=s, t=t, norm=norm * (s + t), eig_cond=cond), "a transition matrix", _REFUSED.get((id(Q), name)),
                      sig=f"P-refused:{name}")
            continue
        if name == "taylor" and norm * (s + t) > 12:
            continue
        out["evaluations"] += 1
        bump(out, "backend", name)
        with warnings.catch_warnings():
            warnings.simplefilter("ignore")
            P0, Ps, Pt, Pst = E(0.0), E(s), E(t), E(s + t)
        Pst_by[name] = Pst
        i2 = dict(inp, backend=name, s=s, t=t, norm=norm * (s + t), eig_cond=cond)
        for nm, P, tt in (("s", Ps, s), ("t", Pt, t), ("s+t", Pst, s + t)):
            rs = float(np.abs(P.sum(axis=1) - 1).max())
            if not rs <= TOL:
                _fail(out, "spec", f"P({nm}) rows do not sum to one", dict(i2, diff=rs), 1.0, rs, sig=f"P-rowsum:{name}")
            if not P.min() >= -TOL:
                _fail(out, "spec", f"P({nm}) has a negative entry", dict(i2, diff=float(-P.min())), ">= 0", float(P.min()),
                            sig=f"P-negative:{name}")
            if stationary:
                d = float(np.abs(wp @ P - wp).max())
                if not d <= TOL:
                    _fail(out, "spec", "pi P != pi for a stationary model", dict(i2, diff=d), 0.0, d, sig=f"P-stationary:{name}")
            if reversible:
                F = wp[:, None] * P
                d = float(np.abs(F - F.T).max())
                if not d <= TOL:
                    _fail(out, "spec", "detailed balance fails for P", dict(i2, diff=d), 0.0, d, sig=f"P-detailed-balance:{name}")
        d0 = float(np.abs(P0 - eye).max())
        if not d0 <= P_ATOL:
            _fail(out, "spec", "P(0) is not the identity", dict(i2, diff=d0), "I", d0, sig=f"P-zero:{name}")
        dsg = float(np.abs(Ps @ Pt - Pst).max())
        if not dsg <= TOL:
            _fail(out, "spec", "P(s)P(t) != P(s+t)", dict(i2, diff=dsg), 0.0, dsg, sig=f"P-semigroup:{name}")
        refs.append((label, name, Q, s + t, Pst, cond))
    # all back-ends agree: each one against Pade (Pade itself is held against the exact exponential by the reference check)
    if "pade" in Pst_by:
        for name, P in Pst_by.items():
            if name == "pade":
                continue
            d = float(np.abs(P - Pst_by["pade"]).max())
            if not d <= TOL:
                _fail(out, "spec", f"back-end {name} disagrees with pade",
                            dict(inp, s=s, t=t, backend=name, norm=norm * (s + t), eig_cond=cond, diff=d), 0.0, d,
                            sig=f"P-backends:{name}")


def _check_lf_psubs(out, label, sm, rng, inp_params):
    """through the public API: psubs of a likelihood function under every expm setting"""
    np = _np()
    lf0, info = _draw(sm, label, rng)
    s, t = info["lengths"]["a"], info["lengths"]["b"]
    if s + t > 10:
        s, t = s / 2, t / 2
    lengths = dict(info["lengths"], a=s, b=t, c=s + t, d=0.0)  # edge d: length zero (the lower bound of LengthDefn)
    Ps = {}
    cond = _eig_cond(np.array(lf0.get_rate_matrix_for_edge("a").array))
    for expm in ("eigen", "checked", "pade", "either"):
        try:
            kw = dict(params=info["params"], lengths=lengths, expm=expm)
            if sm._mprob_model == "monomers":
                kw["wordprobs"] = info["wordprobs"]
            else:
                kw["mprobs"] = info["mprobs"]
            lf, _ = _draw(sm, label, rng, **kw)
            Ps[expm] = {e: np.array(lf.get_psub_for_edge(e).array) for e in "abcd"}
            if expm == "either" and sm._mprob_model != "monomers":
                # lf.get_motif_probs(): the values the calculator uses, a distribution
                mp_api = np.array(lf.get_motif_probs().array, float)
                mp_calc = np.array(U.read_mprobs(lf, sm)[0], float)
                out["evaluations"] += 1
                if mp_api.shape != mp_calc.shape or not np.abs(mp_api - mp_calc).max() <= 1e-12 or not abs(mp_api.sum() - 1) <= 1e-5 + 1e-9:
                    _fail(out, "spec", "lf.get_motif_probs() is not the distribution the calculator uses", dict(model=label, mprobs=info.get("mprobs")),
                          mp_calc.tolist()[:6], mp_api.tolist()[:6], sig="lf-motif-probs")
        except (ArithmeticError, np.linalg.LinAlgError):
            bump(out, "backend_unavailable", expm)
    inp = dict(model=label, params=info["params"], mprobs=info.get("mprobs") or info.get("wordprobs"), lengths=lengths, eig_cond=cond)
    for expm, P in Ps.items():
        out["evaluations"] += 1
        d = float(np.abs(P["a"] @ P["b"] - P["c"]).max())
        if not d <= REL_ATOL:
            _fail(out, "spec", "lf psubs: P(s)P(t) != P(s+t)", dict(inp, backend=expm, diff=d), 0.0, d, sig=f"lf-semigroup:{expm}")
        d0 = float(np.abs(P["d"] - np.identity(P["d"].shape[0])).max())
        if not d0 <= P_ATOL:
            _fail(out, "spec", "lf psub of a zero-length edge is not the identity", dict(inp, backend=expm, edge="d", diff=d0), "I", d0, sig=f"lf-zero:{expm}")
        for e in "abc":
            rs = float(np.abs(P[e].sum(axis=1) - 1).max())
            if not rs <= REL_ATOL or not P[e].min() >= -REL_ATOL:
                _fail(out, "spec", "lf psub is not row-stochastic", dict(inp, backend=expm, edge=e, diff=max(rs, float(-P[e].min()))), 1.0,
                            [rs, float(P[e].min())], sig=f"lf-stochastic:{expm}")
        if expm != "pade" and "pade" in Ps:
            d = float(max(np.abs(P[e] - Ps["pade"][e]).max() for e in "abc"))
            if not d <= REL_ATOL:
                _fail(out, "spec", f"lf psubs differ between expm={expm} and expm=pade", dict(inp, backend=expm, diff=d), 0.0, d,
                            sig=f"lf-backends:{expm}")
    return lf0


def _check_history(out, label, sm, rng, expms):
    """no memory: the transition matrices of a likelihood function depend on the CURRENT values only.  A likelihood function
    whose first-evaluated edge was very short and whose lengths were then changed must show the same psubs as a fresh one
    built with the final values (exponentiator objects are cached per rate matrix and reused for every edge / update), and
    a matrix that was read must not change when other edges are evaluated (no shared output buffers)"""
    np = _np()
    base = {e: U.rand_length(rng) for e in U.EDGES}
    first = dict(base, a=rng.choice([1e-6, 1e-5, 1e-4]), b=rng.choice([1e-4, 0.5]))
    final = dict(base, a=rng.uniform(0.5, 3.0), b=rng.choice([1e-5, 0.3, 2.0]), c=rng.choice([1e-4, 1.5]))
    for expm in expms:
        try:
            kw = dict(lengths=first)
            if expm is not None:
                kw["expm"] = expm
            lf1, info1 = _draw(sm, label, rng, **kw)
            raw = {e: lf1.get_psub_for_edge(e).array for e in U.EDGES}  # evaluation order: a first
            snap = {e: np.array(v, float, copy=True) for e, v in raw.items()}
            for e in reversed(U.EDGES):
                lf1.get_psub_for_edge(e)
            alias = max(float(np.abs(np.asarray(raw[e], float) - snap[e]).max()) for e in U.EDGES)
            shared = [(e, f) for e in U.EDGES for f in U.EDGES if e < f and np.shares_memory(np.asarray(raw[e]), np.asarray(raw[f]))]
            with warnings.catch_warnings():
                warnings.simplefilter("ignore")
                for e, t in reversed(list(final.items())):  # (a fresh likelihood function sets them in the order a..e)
                    lf1.set_param_rule("length", edge=e, init=t)
            hist = {e: np.array(lf1.get_psub_for_edge(e).array, float, copy=True) for e in U.EDGES}
            kw2 = dict(lengths=final, params=info1["params"])
            if expm is not None:
                kw2["expm"] = expm
            if sm._mprob_model == "monomers":
                kw2["wordprobs"] = info1["wordprobs"]
            else:
                kw2["mprobs"] = info1["mprobs"]
            lf2, _ = _draw(sm, label, rng, **kw2)
            fresh = {e: np.array(lf2.get_psub_for_edge(e).array, float, copy=True) for e in reversed(U.EDGES)}
        except (ArithmeticError, np.linalg.LinAlgError):
            bump(out, "backend_unavailable", str(expm))
            continue
        out["evaluations"] += 1
        bump(out, "history_checked", str(expm))
        inp = dict(model=label, params=info1["params"], mprobs=info1.get("mprobs") or info1.get("wordprobs"), backend=str(expm),
                   first_lengths=first, final_lengths=final)
        if shared and abs(first[shared[0][0]] - first[shared[0][1]]) > 0:
            _fail(out, "spec", "the psubs of two edges with different lengths are one and the same array (shared output buffer)",
                  dict(inp, edges=list(shared[0])), "separate matrices", "shared memory", sig=f"lf-alias:{expm}")
        if not alias <= 1e-15:
            _fail(out, "spec", "a psub that was read changed when other edges were evaluated (shared output buffer)", dict(inp, diff=alias), 0.0, alias,
                  sig=f"lf-alias:{expm}")
        d = max(float(np.abs(hist[e] - fresh[e]).max()) for e in U.EDGES)
        if not d <= REL_ATOL:
            worst = max(U.EDGES, key=lambda e: float(np.abs(hist[e] - fresh[e]).max()))
            _fail(out, "spec", "psubs after a history of length updates differ from those of a fresh likelihood function with the same values",
                  dict(inp, edge=worst, diff=d), 0.0, d, sig=f"lf-history:{expm}")


def _search_backends(out, ctx, rng, iters, refs):
    """failing-input search aimed at near-defective / badly scaled generators: the non-reversible nucleotide models with
    parameters on the corners and along the edges of the bounds box [1e-6, 1e6]"""
    np = _np()
    labels = ["GN", "ssGN", "user:General", "user:NRN-fwd"]
    for it in range(iters):
        label = labels[it % len(labels)]
        sm = _get_model(out, label)
        if sm is None:
            continue
        if rng.random() < 0.5:
            params = {p: math.exp(rng.uniform(math.log(1e-6), math.log(1e6))) for p in sm.parameter_order}
        else:
            params = {p: rng.choice([1e-6, 1e-3, 1.0, 1e3, 1e6]) for p in sm.parameter_order}
        t = rng.choice([0.1, 1.0, 3.0])
        try:
            lf, info = U.make_lf(sm, rng, params=params, lengths={e: t for e in U.EDGES})
        except (ArithmeticError, np.linalg.LinAlgError) as e:
            # the default setting (expm='either') must supply a transition matrix for every in-bounds parameter vector
            _fail(out, "spec", f"likelihood function with the default expm setting raised {type(e).__name__} on in-bounds parameter values",
                  dict(model=label, params=params, t=t), "a valid rate / transition matrix", f"{type(e).__name__}: {str(e)[:120]}",
                  sig=f"raised-default-expm:{type(e).__name__}")
            continue
        Q = np.array(lf.get_rate_matrix_for_edge("a", calibrated=True).array)
        wp = np.array(_wprobs(sm, U.read_mprobs(lf, sm)))
        inp = dict(model=label, params=info["params"], mprobs=info["mprobs"])
        bump(out, "search_model", label)
        local, nf = [], len(out["failures"])
        _check_P(out, ctx, label, sm, Q, wp, (2 * t / 3, t / 3), inp, False, False, local, only=("eigen", "checked", "either"))
        if len(out["failures"]) > nf and len(refs) < 4000:
            refs.extend(local)  # let the exact reference say which back-end is wrong


def _check_discrete(out, label, sm, rng):
    np = _np()
    lf, _, kind = _hetero_lf(sm, label, rng)
    _check_nodes(out, label, sm, lf, dict(model=label), False, kind)
    _check_all_api(out, label, sm, lf, dict(model=label), None, kind)
    for e in U.EDGES:
        P = np.array(lf.get_psub_for_edge(e).array)
        out["evaluations"] += 1
        if np.abs(P.sum(axis=1) - 1).max() > 1e-9 or P.min() < 0:
            _fail(out, "spec", "discrete-time psub is not row-stochastic", dict(model=label, edge=e), 1.0, P.tolist(),
                        sig="discrete-stochastic")


def _check_solved(out, label, sm, rng):
    """closed-form TN93 family (rate_matrix_required=False) against Pade on the Q of the ordinary model"""
    np = _np()
    from cogent3.maths.matrix_exponentiation import PadeExponentiator

    name = U.USER[label]["name"]
    twin = U.get_named(name)
    lf, info = U.make_lf(sm, rng)
    lf2, _ = U.make_lf(twin, rng, params=info["params"], lengths=info["lengths"], mprobs=info["mprobs"])
    for e in ("a", "d"):
        out["evaluations"] += 1
        P = np.array(lf.get_psub_for_edge(e).array)
        Q = np.array(lf2.get_rate_matrix_for_edge(e).array)
        P2 = PadeExponentiator(Q)(info["lengths"][e])
        d = np.abs(P - P2).max()
        if not d <= REL_ATOL:
            _fail(out, "spec", "closed-form psub differs from exp(Qt)", dict(model=label, params=info["params"],
                        mprobs=info["mprobs"], t=info["lengths"][e]), 0.0, float(d), sig="solved-backend")


def _check_rate_classes(out, ctx, rng, reps):
    np = _np()
    from cogent3.recalculation.definition import GammaDefn, MonotonicDefn, WeightedPartitionDefn

    for _ in range(reps):
        k = rng.choice([2, 3, 4, 6])
        w = np.array(U.rand_probs(rng, k))
        out["evaluations"] += 1
        for nm, vals in (
            ("monotonic", MonotonicDefn.calc(None, w, np.array(U.rand_probs(rng, k)))),
            ("weighted", WeightedPartitionDefn.calc(None, w, np.array(U.rand_probs(rng, k)))),
            ("gamma", GammaDefn.calc(None, w, math.exp(rng.uniform(math.log(0.05), math.log(20))))),
        ):
            m = float(np.dot(w, vals))
            bump(out, "rate_class_kind", nm)
            if not abs(m - 1) <= 1e-9:
                _fail(out, "spec", "rate-class multipliers do not average to one", dict(kind=nm, weights=w.tolist()), 1.0, m,
                            sig=f"rates-mean:{nm}")
    # through a likelihood function with bins
    from cogent3 import make_tree
    from cogent3.evolve.models import get_model

    for dist in ("gamma", "free"):
        with warnings.catch_warnings():
            warnings.simplefilter("ignore")
            sm = get_model("HKY85", with_rate=True, distribution=dist)
            nb = rng.choice([2, 3, 4])
            lf = sm.make_likelihood_function(make_tree(U.TREE), bins=nb)
            bp = U.rand_probs(rng, nb, skew=1.0)
            lf.set_param_rule("bprobs", init=bp)
            if dist == "gamma":
                lf.set_param_rule("rate_shape", init=math.exp(rng.uniform(math.log(0.05), math.log(10))))
            lf.set_param_rule("kappa", init=U.rand_param(rng))
        rates = np.array([float(lf.get_param_value("rate", bin=b)) for b in lf.bin_names])
        bpr = np.array(lf.get_param_value("bprobs"))
        out["evaluations"] += 1
        m = float(np.dot(bpr, rates))
        if not abs(m - 1) <= 1e-9:
            _fail(out, "spec", "lf rate-class multipliers do not average to one", dict(distribution=dist, bprobs=bpr.tolist()),
                        1.0, m, sig=f"rates-mean-lf:{dist}")
        # each bin's psub is the exponential of rate*length*Q
        from cogent3.maths.matrix_exponentiation import PadeExponentiator

        Q = np.array(lf.get_rate_matrix_for_edge("a", calibrated=True, bin=lf.bin_names[0]).array)
        t = float(lf.get_param_value("length", edge="a"))
        P = np.array(lf.get_psub_for_edge("a", bin=lf.bin_names[-1]).array)
        d = np.abs(PadeExponentiator(Q)(t * rates[-1]) - P).max()
        if not d <= REL_ATOL:
            _fail(out, "spec", "bin psub is not exp(rate*length*Q)", dict(distribution=dist), 0.0, float(d), sig=f"rates-psub:{dist}")
        _check_all_api(out, f"HKY85+{dist}", sm, lf, dict(distribution=dist, bprobs=bpr.tolist(), bins=nb), np.array(U.read_mprobs(lf, sm)[0]), f"bins:{dist}")
        # calibration of the mixture (model: mixtureENS, theorem mixture_ens_calibrated): sum_b bprob_b * ENS(rate_b * t * Q) = t
        if ctx.driver is not None:
            pi = U.read_mprobs(lf, sm)[0]
            rep = ctx.driver.batch([("mixens", dict(n=4, pi=[rat(x) for x in pi], Q=U.rmat(Q), t=rat(t), w=[rat(float(x)) for x in bpr],
                                                     r=[rat(float(x)) for x in rates]))])[0]
            out["evaluations"] += 1
            ens = float(unrat(rep["ens"])) if "ens" in rep else float("nan")
            bump(out, "mixture_ens_checked", dist)
            if not abs(ens - t) <= 1e-9 * max(1.0, t):
                _fail(out, "spec", "rate-class mixture: expected substitutions per site differ from the branch length",
                      dict(distribution=dist, bprobs=bpr.tolist(), rates=rates.tolist(), t=t), t, ens, sig=f"rates-mixture-ens:{dist}")


def _reference_check(out, ctx, refs):
    """every back-end against the exact Taylor value of exp(tQ) with an exact remainder bound (driver)"""
    if ctx.driver is None or not refs:
        return
    reqs, meta = [], []
    seen = {}
    for label, name, Q, t, P, cond in refs:
        key = (label, id(Q), t)
        if key not in seen:
            norm = float(abs(Q).sum(axis=1).max()) * t
            n = Q.shape[0]
            if (n > 25 and norm > 3) or (n > 5 and norm > 8) or norm > 40:
                continue
            if key[0] is None:
                continue
            q = int(max(24, math.ceil(3.6 * norm + 30)))
            seen[key] = len(reqs)
            reqs.append(("expref", dict(n=Q.shape[0], Q=U.rmat(Q), t=rat(t), q=q)))
        meta.append((seen.get(key), label, name, Q, t, P, cond))
    replies = ctx.driver.batch(reqs)
    for k, label, name, Q, t, P, cond in meta:
        if k is None:
            continue
        rep = replies[k]
        out["evaluations"] += 1
        if rep.get("bound") is None:
            continue
        bound = float(unrat(rep["bound"]))
        d = U.maxabs_diff(U.fmat(rep["P"]), P)
        bump(out, "reference_checked", name)
        if not d <= max(P_ATOL, bound):
            _fail(out, "spec", f"back-end {name} differs from exp(tQ) (exact Taylor reference, remainder bound {bound:.1e})",
                        dict(model=label, Q=Q.tolist(), t=t, backend=name, norm=float(abs(Q).sum(axis=1).max()) * t, diff=float(d), eig_cond=cond),
                        "exp(tQ)", float(d), sig=f"P-accuracy:{name}")


def _spec_one_model(out, ctx, rng, label, sm, reps, refs):
    from cogent3.evolve import substitution_model as sub

    np = _np()

    if U.is_discrete(sm):
        _check_discrete(out, label, sm, rng)
        return
    if U.USER.get(label, {}).get("cls") == "solved":
        for _ in range(reps):
            _check_solved(out, label, sm, rng)
        _check_history(out, label, sm, rng, (None,))
        return
    reversible = isinstance(sm, sub.TimeReversible) or (isinstance(sm, sub.Empirical) and bool(sm.symmetric))
    stationary = isinstance(sm, (sub.Stationary, sub.Empirical)) or label == "user:GeneralStationary"
    n = len(sm.get_alphabet())
    for r in range(reps):
        lf, info = _draw(sm, label, rng)
        inp = dict(model=label, params=info["params"], mprobs=info.get("mprobs") or info.get("wordprobs"))
        bump(out, "spec_model", label)
        for e in ("a", "e"):
            Q, wp = _check_Q(out, label, sm, lf, e, dict(inp, edge=e), reversible, stationary)
        out["nontrivial"].add((label, tuple(info["params"].values()), r))
        s, t = info["lengths"]["a"], info["lengths"]["b"]
        if n > 25:
            s, t = min(s, 0.6), min(t, 0.4)
        if n <= 25 or r == 0:
            _check_P(out, ctx, label, sm, Q, wp, (s, t), inp, reversible, stationary, refs)
        if n <= 25 and r == 0:
            _check_lf_psubs(out, label, sm, rng, info)
            _check_history(out, label, sm, rng, ("pade", "either"))
        if r == 0:
            _check_nodes(out, label, sm, lf, inp, stationary, "homogeneous")
            if n <= 25:
                _check_all_api(out, label, sm, lf, inp, wp, "homogeneous")
            if n <= 25 or not isinstance(sm, sub.TimeReversible):
                lf2, info2, kind = _hetero_lf(sm, label, rng)
                if kind != "homogeneous":
                    inp2 = dict(model=label, params=info2["params"], mprobs=info2.get("mprobs") or info2.get("wordprobs"), edges="per-edge parameter values")
                    _check_nodes(out, label, sm, lf2, inp2, stationary, kind)
                    if n <= 25:
                        _check_all_api(out, label, sm, lf2, inp2, np.array(_wprobs(sm, U.read_mprobs(lf2, sm))), kind)
        if len(out["samples"]) < 4 and n == 4 and info["params"]:
            out["samples"].append(dict(model=label, params=info["params"], mprobs=info["mprobs"], Q=Q.tolist()))


def spec_check(ctx, budget):
    np = _np()
    out = new_outcome(
        "non-trivial = a (model, draw) whose Q passes through calcQ with non-default parameters or non-uniform motif probs; "
        "every such draw is checked for row sums, sign, calibration, stationarity / detailed balance where claimed, P identities "
        "on all five back-ends, agreement with the exact exponential and with the textbook definition"
    )
    from cogent3.evolve import substitution_model as sub

    rng = ctx.subrng(f"spec:{budget}")
    named, user = _labels()
    refs = []
    plan = []
    for typ, name in named:
        reps = {"nucleotide": 2, "protein": 1, "codon": 1}[typ] * budget
        if typ == "codon" and budget == 1 and not ctx.thorough:
            reps = 1
        plan.append((name, reps))
    for label in user:
        big = any(k in label for k in ("Codon", "Tri"))
        plan.append((label, (1 if ("Di" in label or big) else 2) * (1 if (big and not ctx.thorough) else budget)))
    for label, reps in plan:
        sm = _get_model(out, label)
        if sm is None:
            continue
        try:
            _spec_one_model(out, ctx, rng, label, sm, reps, refs)
        except Exception as e:  # the implementation raised on an in-bounds input: no valid process was produced
            import traceback

            tb = traceback.extract_tb(e.__traceback__)
            where = next((f"{fr.filename.split('/')[-1]}:{fr.name}" for fr in reversed(tb) if "cogent3" in fr.filename), "?")
            _fail(out, "spec", f"implementation raised {type(e).__name__} on in-bounds input ({where})", dict(model=label, **(getattr(e, "c05_info", None) or {})),
                        "a valid rate / transition matrix", f"{type(e).__name__}: {str(e)[:200]}", sig=f"raised:{type(e).__name__}:{where}")
    _search_backends(out, ctx, rng, 240 * budget, refs)
    _check_rate_classes(out, ctx, rng, 5 * budget)
    _check_inst_spec(out, ctx, ctx.subrng(f"instspec:{budget}"))
    # exact-reference accuracy check for a subset (all small ones, a few large)
    small = [r for r in refs if r[2].shape[0] <= 5]
    mid = [r for r in refs if 5 < r[2].shape[0] <= 25]
    big = [r for r in refs if r[2].shape[0] > 25]
    _reference_check(out, ctx, small + mid[: 5 * (6 if ctx.thorough else 1) * budget] + (big[: 5 * budget] if ctx.thorough else []))
    return out


# --------------------------------------------------------------------------
# findings
# --------------------------------------------------------------------------
def match_finding(f, k):
    if f.get("sig") not in k.get("sigs", []):
        return False
    r = k.get("restrict") or {}
    inp = f.get("input") or {}
    if r.get("model") and inp.get("model") != r["model"]:
        return False
    if r.get("backend") and inp.get("backend") != r["backend"]:
        return False
    if "min_norm" in r and not (inp.get("norm") is not None and inp["norm"] >= r["min_norm"]):
        return False
    if "min_eig_cond" in r and not (inp.get("eig_cond") is not None and inp["eig_cond"] >= r["min_eig_cond"]):
        return False
    if "max_diff" in r and not (inp.get("diff") is not None and inp["diff"] <= r["max_diff"]):
        return False
    return True


def _replay_input(ctx, inp, sig):
    """re-run the check class named by `sig` on the recorded input; returns outcome"""
    np = _np()
    from cogent3.evolve import substitution_model as sub

    out = new_outcome()
    label = inp["model"]
    sm = U.get_model_by_label(label)
    rng = ctx.subrng("replay")
    kw = dict(params=inp.get("params"))
    try:
        if sm._mprob_model == "monomers":
            lf, info = _make_monomers(sm, rng, params=inp.get("params"), wordprobs=inp.get("mprobs"))
        else:
            lf, info = U.make_lf(sm, rng, params=inp.get("params"), mprobs=inp.get("mprobs"), lengths=({e: inp["t"] for e in U.EDGES} if sig.startswith("raised-default-expm") else None))
    except (ArithmeticError, np.linalg.LinAlgError) as e:
        _fail(out, "spec", f"likelihood function with the default expm setting raised {type(e).__name__} on in-bounds parameter values",
              inp, "a valid rate / transition matrix", f"{type(e).__name__}: {str(e)[:120]}", sig=f"raised-default-expm:{type(e).__name__}")
        return out
    reversible = isinstance(sm, sub.TimeReversible) or (isinstance(sm, sub.Empirical) and bool(sm.symmetric))
    stationary = isinstance(sm, (sub.Stationary, sub.Empirical)) or label == "user:GeneralStationary"
    Q, wp = _check_Q(out, label, sm, lf, inp.get("edge", "a"), inp, reversible, stationary)
    if sig.startswith("P-") or sig.startswith("lf-"):
        refs = []
        _check_P(out, ctx, label, sm, Q, wp, (inp.get("s", 0.3), inp.get("t", 0.2)), inp, reversible, stationary, refs)
        _reference_check(out, ctx, refs)
    return out


def check_witness(ctx, w):
    try:
        out = _replay_input(ctx, w["input"], w["sig"])
    except (ValueError, AssertionError):  # e.g. the constructor now rejects the witness model
        return None
    for f in out["failures"]:
        if f["kind"] == "spec" and f["sig"] == w["sig"]:
            return f
    return None


def replay(ctx, data):
    f = data.get("failing_input") or {}
    inp, sig = f.get("input"), f.get("sig", "")
    if not inp or "model" not in inp:
        return False
    from .common import Driver

    ctx.driver = Driver(DRIVER)
    out = _replay_input(ctx, inp, sig)
    bad = [g for g in out["failures"] if g["kind"] == "spec"]
    for g in bad[:3]:
        print(g["what"], "expected", g["expected"], "got", g["got"])
    return bool(bad)
