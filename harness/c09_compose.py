"""C09 — COMPOSITIONS  transformation(s) -> serialisation round trip -> comparison, and ADVERSARIAL NAMES.

Runs the real cogent3 only.  Every expectation is computed by harness/c09_util.py on the plain nested
form of the ORIGINAL tree (tips, bipartitions of the retained tips, tip-to-tip path lengths), results
are identified by TIP names only (internal names may legitimately be lost / renamed by a transformation).

  * `compose_case`   one tree (built through TreeBuilder.create_edge or through make_tree on the text of
                     an independent writer)  x  every transformation of the property (and random pairs of
                     them)  x  EVERY serialisation round trip (get_newick flag combinations -> make_tree,
                     to_json / to_rich_dict -> deserialise_object, write -> load_tree for every suffix).
                     Additional oracle for trees whose node names were pairwise distinct: they still are
                     after each transformation (name-keyed serialisations rely on it).
  * `labels_case`    label lists with duplicates and labels that collide with generated names
                     (`x`, `x`, `x.2`, `edge.0`, unnamed nodes): make_tree / load_tree must return pairwise
                     distinct node names, the same shape and lengths, each name = its label (+ suffix).
  * name classes     plain, meta (quotes, doubled quotes, apostrophes, brackets, commas, colons, ...),
                     blank (inner / leading / trailing blanks, underscores), unicode, number-like, auto
                     (equal to generated names edge.N / root / x.2), leadq, punct — one class per tree so
                     that a signature names the class that failed.
"""
from __future__ import annotations

import itertools
import json
import re
from fractions import Fraction

from . import c09_util as U
from .common import bump

NEWICK_META = "[]'\"(),:;"
ALNUM = "abcdefghijklmnopqrstuvwxyzABCXYZ0123456789"
FRAGS_META = ["'", '"', "''", '""', "'''", '"""', "\"'", "'\"", "(", ")", "[", "]", ",", ":", ";", "()", "[x]", "_", " ", ".", "-", "#", "=", "/"]
FRAGS_UNI = ["é", "ß", "中", "Ω", "ё", "ñ", "𝛼", "ø", "İ", "ǆ", "…", "№"]
NUMBERLIKE = ["1.5", "1e3", "-2", "007", "nan", "inf", ".5", "1_0", "0x1", "1,5", "1:5", "+3"]
AUTO = ["edge.0", "edge.1", "edge.2", "edge.3", "edge.0.2", "edge.1.2", "root", "edge", "edge.10", "root.2"]
NAME_CLASSES = ["plain", "meta", "meta", "blank", "unicode", "number", "auto", "leadq", "punct"]


# --------------------------------------------------------------------------
# names
# --------------------------------------------------------------------------
def _alnum(rng, lo=1, hi=4):
    return "".join(rng.choice(ALNUM) for _ in range(rng.randint(lo, hi)))


def adv_name(rng, cls, used):
    """a printable name of the class, not yet in `used`"""
    for _ in range(200):
        if cls == "plain":
            s = _alnum(rng, 2, 6)
            if s.startswith(("edge", "root")):
                continue
        elif cls == "meta":
            parts = [rng.choice(FRAGS_META) if rng.random() < 0.55 else _alnum(rng, 1, 3) for _ in range(rng.randint(1, 5))]
            s = "".join(parts)
            if not any(ch in s for ch in NEWICK_META) or s.startswith("'") or s != s.strip() or len(s) < 2:
                continue
        elif cls == "blank":
            seps = [" ", "_", "  ", "_ ", " _", "__"]
            s = _alnum(rng, 1, 3) + "".join(rng.choice(seps) + _alnum(rng, 1, 3) for _ in range(rng.randint(0, 2)))
            r = rng.random()
            if r < 0.2:
                s = rng.choice([" ", "_", "  "]) + s
            elif r < 0.4:
                s = s + rng.choice([" ", "_", "  "])
            elif r < 0.45:
                s = rng.choice([" ", "_", "  ", " _", "_ "])
            if " " not in s and "_" not in s:
                continue
        elif cls == "unicode":
            s = "".join(rng.choice(FRAGS_UNI) if rng.random() < 0.6 else _alnum(rng, 1, 2) for _ in range(rng.randint(1, 4)))
            if rng.random() < 0.25:
                s = s + " " + rng.choice(FRAGS_UNI)
            if s.isascii():
                continue
        elif cls == "number":
            s = rng.choice(NUMBERLIKE) if rng.random() < 0.7 else str(rng.randint(0, 999)) + rng.choice(["", ".", ".0", "e-2"])
        elif cls == "auto":
            base = [u for u in used if u and "." not in u]
            s = rng.choice(AUTO) if (rng.random() < 0.7 or not base) else rng.choice(base) + rng.choice([".2", ".3", ".2.2"])
        elif cls == "leadq":
            s = "'" + _alnum(rng, 1, 3) + rng.choice(["", "", "'", "'x", " y"])
        elif cls == "punct":
            s = rng.choice("(),:;[")
        else:
            raise ValueError(cls)
        if s in used or not s or not s.isprintable():
            continue
        used.add(s)
        return s
    return adv_name(rng, "plain", used)


def name_class(names):
    """the narrow class of a set of loaded names (part of every signature); priority order = how
    strongly the class is known to matter; '+unicode' is appended when a name is not ASCII"""
    names = [n for n in names if n]
    uni = "+unicode" if any(not n.isascii() for n in names) else ""
    if any(n.startswith("'") for n in names):
        return "leading-quote-name" + uni
    if any(n in ("(", ")", ",", ":", ";", "[") for n in names):
        return "punct-name" + uni
    if any(n == "root" or re.fullmatch(r"edge(\.\d+)*", n) for n in names):
        return "generated-name" + uni
    if any(n != n.strip() for n in names):
        return "edge-blank-name" + uni
    if any(ch in n for n in names for ch in NEWICK_META):
        return "metachar-name" + uni
    if any(" " in n or "_" in n for n in names):
        return "blank-name" + uni
    return "plain-names" + uni


def gen_tree(rng, cls):
    """a tree (nested form) with positive dyadic lengths; 1-3 node names of class `cls`, the others plain"""
    n = rng.choice([3, 4, 5, 5, 6, 7, 8, 10, 12])
    t = U.rand_tree(rng, n, rng.random() < 0.45, rng.random() < 0.4, rng.choice(["all", "none", "none", "mixed"]), "pos", False)
    nodes = [nd for p, nd in U.n_internal_paths(t) if p]
    used = {nd[0] for nd in nodes}
    k = 0 if cls == "plain" else rng.randint(1, 3)
    targets = rng.sample(nodes, min(k, len(nodes)))
    if cls != "plain" and not any(not nd[2] for nd in targets):
        targets[0] = rng.choice([nd for nd in nodes if not nd[2]])  # at least one tip
    for nd in targets:
        nd[0] = adv_name(rng, cls, used)
    return t


# --------------------------------------------------------------------------
# an independent newick writer (every label that is not purely alphanumeric is single-quoted,
# inner single quotes doubled) — used to build trees through make_tree / load_tree
# --------------------------------------------------------------------------
def own_label(s):
    if s and all(ch in ALNUM or ch == "." for ch in s):
        return s
    return "'" + s.replace("'", "''") + "'"


def own_newick(t, top=True):
    ln = "" if t[1] is None else ":" + repr(float(t[1]))
    lab = own_label(t[0]) if t[0] else ""
    if not t[2]:
        return lab + ln
    return "(" + ",".join(own_newick(c, False) for c in t[2]) + ")" + lab + ln + (";" if top else "")


def build(t, how):
    import cogent3

    if how == "make_tree":
        return cogent3.make_tree(own_newick(t), underscore_unmunge=True)
    return U.build_real(t)


# --------------------------------------------------------------------------
# comparison by tip names
# --------------------------------------------------------------------------
def _nested_by_tips(node):
    ln = getattr(node, "length", None)
    return [node.name if not node.children else "", None if ln is None else Fraction(float(ln)), [_nested_by_tips(c) for c in node.children]]


def cmp_by_tips(out, fail, route, sigroute, inp, t, res, keep, dists, bips="equal", od=None):
    want_tips = set(keep)
    got_tips = [x.name for x in res.tips()]
    if set(got_tips) != want_tips or len(got_tips) != len(want_tips):
        fail(out, f"tip set wrong after {route}", inp, sorted(want_tips), sorted(map(str, got_tips)), f"tips:{sigroute}")
        return False
    got = _nested_by_tips(res)
    want_b = U.oracle_bips(t, keep=want_tips)
    got_b = U.oracle_bips(got)
    if not (want_b == got_b if bips == "equal" else want_b <= got_b):
        fail(out, f"unrooted topology among retained tips wrong after {route}", inp, sorted(sorted(map(sorted, b)) for b in want_b), sorted(sorted(map(sorted, b)) for b in got_b), f"topology:{sigroute}")
        return False
    if dists:
        od = od if od is not None else U.oracle_dists(t)
        gd = res.get_distances()
        bad = []
        for (a, b), v in od.items():
            if a in want_tips and b in want_tips:
                g = gd.get((a, b))
                if g is None or Fraction(float(g)) != v:
                    bad.append((a, b, str(v), None if g is None else str(Fraction(float(g)))))
        if bad:
            fail(out, f"tip-to-tip path length changed by {route}", dict(inp, pairs=bad[:4]), [b[2] for b in bad[:4]], [b[3] for b in bad[:4]], f"dist:{sigroute}")
            return False
    return True


# --------------------------------------------------------------------------
# transformations:  name -> f(tree, spec) ; spec = dict drawn once per (tree, transformation) so a replay
# repeats the same call
# --------------------------------------------------------------------------
TRANSFORMS = ["rooted_at", "rooted_with_tip", "root_at_midpoint", "unrooted", "bifurcating", "bifurcating(name_unnamed)",
              "multifurcating(3)", "prune", "get_sub_tree", "sorted", "copy", "deepcopy", "unrooted_deepcopy"]


def draw_spec(rng, name, tree, keep):
    """arguments for the transformation `name` applied to the real `tree` whose retained tips are `keep`"""
    tips = [x.name for x in tree.tips()]
    if name == "rooted_at":
        cands = [i for i, n in enumerate(tree.traverse()) if n.children and n.parent is not None]
        if not cands:
            return None
        return dict(node=rng.choice(cands))
    if name == "rooted_with_tip":
        return dict(tip=rng.choice(tips))
    if name in ("prune", "get_sub_tree"):
        if len(tips) < 3:
            return None
        k = rng.randint(2, len(tips) - 1) if rng.random() < 0.8 else len(tips)
        sub = rng.sample(tips, k)
        return dict(keep=sorted(sub), keep_root=rng.random() < 0.2, tipsonly=rng.random() < 0.7)
    if name == "sorted":
        return dict(order=rng.sample(tips, rng.randint(0, min(3, len(tips)))))
    if name == "bifurcating(name_unnamed)":
        return dict(seed=rng.randint(0, 10**6))
    return {}


def apply_transform(name, tree, spec):
    """returns (result, retained tips or None (= all), bipartition mode)"""
    if name == "rooted_at":
        node = list(tree.traverse())[spec["node"]]
        return tree.rooted_at(node.name), None, "equal"
    if name == "rooted_with_tip":
        return tree.rooted_with_tip(spec["tip"]), None, "equal"
    if name == "root_at_midpoint":
        return tree.root_at_midpoint(), None, "equal"
    if name == "unrooted":
        return tree.unrooted(), None, "equal"
    if name == "unrooted_deepcopy":
        return tree.unrooted_deepcopy(), None, "equal"
    if name == "bifurcating":
        return tree.bifurcating(), None, "superset"
    if name == "bifurcating(name_unnamed)":
        # the generated names are drawn with the global `random`: pin it so a run (and a replay) is deterministic
        import random as _random

        state = _random.getstate()
        _random.seed(spec.get("seed", 0))
        try:
            return tree.bifurcating(name_unnamed=True), None, "superset"
        finally:
            _random.setstate(state)
    if name == "multifurcating(3)":
        return tree.multifurcating(3), None, "superset"
    if name == "prune":
        priv = tree.deepcopy()
        keep = set(spec["keep"])
        priv.remove_deleted(lambda n: not n.children and n.name not in keep)
        priv.prune()
        return priv, spec["keep"], "equal"
    if name == "get_sub_tree":
        return tree.get_sub_tree(list(spec["keep"]), keep_root=spec["keep_root"], tipsonly=spec["tipsonly"]), spec["keep"], "equal"
    if name == "sorted":
        return tree.sorted(list(spec["order"]) or None), None, "equal"
    if name == "copy":
        return tree.copy(), None, "equal"
    if name == "deepcopy":
        return tree.deepcopy(), None, "equal"
    raise ValueError(name)


# --------------------------------------------------------------------------
# serialisation round trips
# --------------------------------------------------------------------------
def serialisers(names, scratch):
    """[(route, f(tree) -> tree, lengths kept?)] applicable to trees whose loaded names are `names`.
    Restrictions (stated, each is a documented behaviour or an OPEN known finding exercised elsewhere):
      escape_name=False / JSON / XML write names raw: only for names without newick metacharacters and
      without leading / trailing blanks (known finding C09-json-unescaped-names);
      raw underscores are un-munged by underscore_unmunge=True, blanks are written as underscores and need it."""
    import cogent3
    from cogent3.util.deserialise import deserialise_object

    names = [n for n in names if n]
    meta = any(ch in n for n in names for ch in NEWICK_META)
    edge_blank = any(n != n.strip() for n in names)
    under = any("_" in n for n in names)
    xml_ok = not meta and not edge_blank and not any(ch in n for n in names for ch in "<>&_ ") and all(n.isascii() for n in names)
    res = []
    for wd, esc, wnn, semi in itertools.product((True, False), (True, False), (False, True), (True, False)):
        if semi is False and (wd or wnn):
            continue  # one combination without the semicolon is enough
        if not esc and (meta or edge_blank):
            continue
        for unmunge in (True, False):
            if unmunge is False and esc and (wnn or not wd):
                continue  # underscore_unmunge=False: once per escape mode is enough
            if esc and not unmunge and any(" " in n and not any(ch in n for ch in NEWICK_META + "_") for n in names):
                continue  # an unquoted name: its blanks were written as underscores
            if not esc and unmunge and under:
                continue
            route = f"get_newick[with_distances={wd},escape_name={esc},with_node_names={wnn},semicolon={semi}]->make_tree[underscore_unmunge={unmunge}]"

            def f(tree, wd=wd, esc=esc, wnn=wnn, semi=semi, unmunge=unmunge):
                return cogent3.make_tree(tree.get_newick(with_distances=wd, escape_name=esc, with_node_names=wnn, semicolon=semi), underscore_unmunge=unmunge)

            res.append((route, f, wd))
    if not meta and not edge_blank:
        res.append(("to_json->deserialise_object", lambda tree: deserialise_object(tree.to_json()), True))
        res.append(("to_rich_dict->deserialise_object", lambda tree: deserialise_object(json.loads(json.dumps(tree.to_rich_dict()))), True))
    counter = itertools.count()

    def via_file(suffix, kw_write, kw_load):
        def f(tree):
            path = scratch / f"cmp{next(counter)}{suffix}"
            try:
                tree.write(str(path), **kw_write)
                return cogent3.load_tree(str(path), **kw_load)
            finally:
                try:
                    path.unlink()
                except OSError:
                    pass

        return f

    res.append(("write/load_tree[.nwk]", via_file(".nwk", {}, dict(underscore_unmunge=True)), True))
    res.append(("write/load_tree[.tree]", via_file(".tree", {}, dict(underscore_unmunge=True)), True))
    res.append(("write[with_distances=False]/load_tree[.nwk]", via_file(".nwk", dict(with_distances=False), dict(underscore_unmunge=True)), False))
    if not meta and not edge_blank:
        res.append(("write/load_tree[.json]", via_file(".json", {}, {}), True))
        res.append(("write[format=json]/load_tree[format=json]", via_file(".txt", dict(format="json"), dict(format="json")), True))
    if xml_ok:
        res.append(("write/load_tree[.xml]", via_file(".xml", {}, {}), True))
    return res


def _all_names(tree):
    return [n.name for n in tree.traverse()]


def _dups(names):
    seen, d = set(), []
    for n in names:
        if n is None:
            continue
        if n in seen and n not in d:
            d.append(n)
        seen.add(n)
    return d


# --------------------------------------------------------------------------
# one composition case (also the replay entry point: everything random is in `plan`)
# --------------------------------------------------------------------------
def make_plan(rng, t, how):
    """[(transformation names, specs)] to run for the tree: every single transformation and random pairs"""
    tree = build(t, how)
    plan = []
    for name in TRANSFORMS:
        spec = draw_spec(rng, name, tree, None)
        if spec is not None:
            plan.append([[name, spec]])
    for _ in range(4):
        a = rng.choice(TRANSFORMS)
        spec_a = draw_spec(rng, a, tree, None)
        if spec_a is None:
            continue
        try:
            mid, _k, _b = apply_transform(a, tree, spec_a)
        except Exception:  # noqa: BLE001
            continue
        if len(list(mid.tips())) < 3 or len(mid.children) < 2:
            continue
        b = rng.choice(TRANSFORMS)
        spec_b = draw_spec(rng, b, mid, None)
        if spec_b is not None:
            plan.append([[a, spec_a], [b, spec_b]])
    return plan


def compose_case(out, fail, t, how, plan, scratch, only_route=None, identity=True):
    """t: nested form; how: 'make_tree' | 'TreeBuilder'; plan: list of chains [[name, spec], ...]"""
    inp0 = dict(compose=True, tree=U.frac_json(t), built=how)
    loaded = [nd[0] for _, nd in U.n_internal_paths(t)]
    ncls = name_class(loaded)
    tips = U.n_tips(t)
    od = U.oracle_dists(t)
    try:
        tree = build(t, how)
    except Exception as e:  # noqa: BLE001
        fail(out, f"building the tree through {how} raised", dict(inp0, text=own_newick(t)), "a tree", repr(e)[:160], f"raised:compose:build[{how}]:{ncls}")
        return
    out["evaluations"] += 1
    if not cmp_by_tips(out, fail, f"build[{how}]", f"compose:build[{how}]:{ncls}", dict(inp0, text=own_newick(t)), t, tree, tips, True, od=od):
        return
    base_unique = not _dups(_all_names(tree))
    sers = [x for x in serialisers(loaded, scratch) if only_route is None or x[0] == only_route]
    dead = set()
    # the untransformed tree through every serialisation too
    for chain in ([[]] if identity else []) + plan:
        label = "+".join(c[0] for c in chain) or "identity"
        inp = dict(inp0, chain=chain)
        before = U.snapshot(tree)
        cur, keep, mode = tree, list(tips), "equal"
        try:
            for name, spec in chain:
                cur, k2, m2 = apply_transform(name, cur, spec)
                if k2 is not None:
                    keep = [x for x in keep if x in set(k2)]
                if m2 == "superset":
                    mode = "superset"
        except Exception as e:  # noqa: BLE001
            fail(out, f"{label} raised on a valid tree", inp, "a tree", repr(e)[:160], f"raised:compose:{label}:{ncls}")
            continue
        out["evaluations"] += 1
        if U.snapshot(tree) != before:
            fail(out, f"{label} modified the tree it was called on", inp, "unmodified", U.snapshot_diff(before, U.snapshot(tree)), f"mutated:compose:{label}")
            return
        if not cmp_by_tips(out, fail, label, f"compose:{label}:{ncls}", inp, t, cur, keep, True, mode, od):
            continue
        if base_unique:
            d = _dups(_all_names(cur))
            if d:
                fail(out, f"node names are no longer pairwise distinct after {label} (they were before)", inp, "pairwise distinct names", dict(duplicates=d, names=[str(x) for x in _all_names(cur)]), f"names-not-unique:compose:{label}")
        bump(out, "compose_transform", label if len(chain) < 2 else "pair")
        for route, f, has_len in sers:
            if route in dead:
                continue  # already fails on the untransformed tree: not a matter of the composition
            out["evaluations"] += 1
            sig = f"compose:{label}->{route.split('[')[0] if route.startswith('get_newick') else route}:{ncls}"
            full = f"{label} -> {route}"
            inp2 = dict(inp, route=route)
            try:
                res = f(cur)
            except Exception as e:  # noqa: BLE001
                fail(out, f"{full} raised", inp2, "a tree", repr(e)[:160], f"raised:{sig}")
                if not chain:
                    dead.add(route)
                continue
            if not cmp_by_tips(out, fail, full, sig, inp2, t, res, keep, has_len, mode, od):
                if not chain:
                    dead.add(route)
            else:
                bump(out, "compose_serialiser", route.split("[")[0] if route.startswith("get_newick") else route)
                out["nontrivial"].add(json.dumps([inp0["tree"], how, label, route]))


# --------------------------------------------------------------------------
# label lists with duplicates / collisions with generated names
# --------------------------------------------------------------------------
def gen_labels_tree(rng):
    """a tree whose labels repeat and collide with the names TreeBuilder generates"""
    n = rng.choice([3, 4, 5, 6, 8])
    t = U.rand_tree(rng, n, rng.random() < 0.5, rng.random() < 0.4, rng.choice(["none", "mixed", "all"]), "pos", False)
    nodes = [nd for p, nd in U.n_internal_paths(t) if p]
    pool = [rng.choice(["x", "a", "edge", "t1"])]
    pool += [pool[0] + ".2", pool[0] + ".3", pool[0] + ".2.2", "edge.0", "edge.1", "edge.0.2", "root", "y"]
    for nd in nodes:
        if nd[0] or not nd[2]:
            nd[0] = rng.choice(pool[:4]) if rng.random() < 0.7 else rng.choice(pool)
    return t


def labels_case(out, fail, t, scratch):
    import cogent3

    text = own_newick(t)
    inp = dict(labels=True, tree=U.frac_json(t), text=text)
    path = scratch / "labels.nwk"
    path.write_text(text)
    try:
        routes = [("make_tree", lambda: cogent3.make_tree(text)), ("load_tree", lambda: cogent3.load_tree(str(path)))]
        for route, f in routes:
            out["evaluations"] += 1
            try:
                tree = f()
            except Exception as e:  # noqa: BLE001
                fail(out, f"{route} raised on a tree with repeated labels", inp, "a tree", repr(e)[:160], f"raised:labels:{route}")
                continue
            names = _all_names(tree)
            d = _dups(names)
            if d:
                fail(out, f"{route} returned node names that are not pairwise distinct", dict(inp, route=route), "pairwise distinct names", dict(duplicates=d, names=[str(x) for x in names]), f"names-not-unique:labels:{route}:{'dup-root' if d == ['root'] else 'dup-other'}")
                continue

            def shape(x):
                return [x[1], [shape(c) for c in x[2]]]

            def rshape(nd):
                return [None if nd.length is None else Fraction(float(nd.length)), [rshape(c) for c in nd.children]]

            if [None, shape(t)[1]] != [None, rshape(tree)[1]]:
                fail(out, f"{route} changed the shape / lengths of a tree with repeated labels", dict(inp, route=route), "same shape", tree.get_newick(with_distances=True), f"shape:labels:{route}")
                continue
            labs = [nd[0] for _, nd in _preorder(t)]
            got = [n.name for n in tree.traverse()]
            bad = [(l, g) for l, g in zip(labs[1:], got[1:]) if l and not (g == l or (g.startswith(l + ".") and g[len(l) + 1 :].replace(".", "").isdigit()))]
            if bad:
                fail(out, f"{route} gave a node a name that is not its label (+ numeric suffix)", dict(inp, route=route), "label or label.N", bad[:4], f"renamed:labels:{route}")
                continue
            bump(out, "labels_route", route + ":ok")
            out["nontrivial"].add("labels:" + text)
    finally:
        try:
            path.unlink()
        except OSError:
            pass


def names_case(out, fail, t):
    """many adversarial names, only the plain newick round trips: the real writer read back by make_tree
    (with and without lengths) and the text of the independent writer read by make_tree"""
    import cogent3

    loaded = [nd[0] for _, nd in U.n_internal_paths(t)]
    ncls = name_class(loaded)
    tips = U.n_tips(t)
    od = U.oracle_dists(t)
    inp0 = dict(names=True, tree=U.frac_json(t))
    tree = U.build_real(t)
    routes = [
        ("get_newick[with_distances=True]->make_tree[underscore_unmunge=True]", lambda: cogent3.make_tree(tree.get_newick(with_distances=True), underscore_unmunge=True), True),
        ("get_newick[with_distances=False,with_node_names=True]->make_tree[underscore_unmunge=True]", lambda: cogent3.make_tree(tree.get_newick(with_node_names=True), underscore_unmunge=True), False),
        ("independent-writer->make_tree[underscore_unmunge=False]", lambda: cogent3.make_tree(own_newick(t)), True),
    ]
    for route, f, has_len in routes:
        out["evaluations"] += 1
        inp = dict(inp0, route=route)
        sig = f"names:{route.split('[')[0]}:{ncls}"
        try:
            res = f()
        except Exception as e:  # noqa: BLE001
            fail(out, f"{route} raised", inp, "a tree", repr(e)[:160], f"raised:{sig}")
            continue
        if cmp_by_tips(out, fail, route, sig, inp, t, res, tips, has_len, od=od):
            bump(out, "names_route", route.split("[")[0] + ":" + ncls)
            out["nontrivial"].add("names:" + json.dumps([inp0["tree"], route]))


def gen_names_tree(rng, cls):
    """a small tree in which EVERY tip (and sometimes an internal node) has a name of the class"""
    n = rng.choice([3, 3, 4, 5])
    t = U.rand_tree(rng, n, rng.random() < 0.4, False, rng.choice(["none", "all"]), "pos", False)
    used = set()
    for p, nd in U.n_internal_paths(t):
        if p and (not nd[2] or nd[0]):
            nd[0] = adv_name(rng, cls, used)
    return t


def _preorder(t, path=()):
    yield path, t
    for i, c in enumerate(t[2]):
        yield from _preorder(c, path + (i,))


# --------------------------------------------------------------------------
# driver of the two checks
# --------------------------------------------------------------------------
def spec_compositions(ctx, out, rng, small, budget, fail):
    cases = []
    n_trees = 22 * budget
    for i in range(n_trees):
        cls = NAME_CLASSES[i % len(NAME_CLASSES)] if i < 2 * len(NAME_CLASSES) else rng.choice(NAME_CLASSES)
        t = gen_tree(rng, cls)
        how = "TreeBuilder" if cls in ("leadq", "punct") or rng.random() < 0.35 else "make_tree"
        cases.append((t, how))
    for t, how in cases:
        ncls = name_class([nd[0] for _, nd in U.n_internal_paths(t)])
        bump(out, "compose_name_class", ncls)
        bump(out, "compose_built", how)
        if ncls in ("leading-quote-name", "punct-name"):
            # OPEN known findings (newick cannot represent these names); exercised by the chain check of
            # spec_check with their own signatures — here only the transformations themselves
            plan = make_plan(rng, t, "TreeBuilder")
            compose_case_no_io(out, fail, t, plan)
            continue
        try:
            plan = make_plan(rng, t, how)
        except Exception:  # noqa: BLE001
            plan = []  # the build failure is reported by compose_case
        compose_case(out, fail, t, how, plan, ctx.scratch)
    for _ in range(60 * budget):
        labels_case(out, fail, gen_labels_tree(rng), ctx.scratch)
    for i in range(160 * budget):
        names_case(out, fail, gen_names_tree(rng, ["meta", "meta", "blank", "unicode", "number", "plain"][i % 6]))


def compose_case_no_io(out, fail, t, plan):
    tree = U.build_real(t)
    tips = U.n_tips(t)
    od = U.oracle_dists(t)
    ncls = name_class([nd[0] for _, nd in U.n_internal_paths(t)])
    for chain in plan:
        label = "+".join(c[0] for c in chain)
        inp = dict(compose=True, tree=U.frac_json(t), built="TreeBuilder", chain=chain, no_io=True)
        cur, keep, mode = tree, list(tips), "equal"
        try:
            for name, spec in chain:
                cur, k2, m2 = apply_transform(name, cur, spec)
                if k2 is not None:
                    keep = [x for x in keep if x in set(k2)]
                if m2 == "superset":
                    mode = "superset"
        except Exception as e:  # noqa: BLE001
            fail(out, f"{label} raised on a valid tree", inp, "a tree", repr(e)[:160], f"raised:compose:{label}:{ncls}")
            continue
        out["evaluations"] += 1
        cmp_by_tips(out, fail, label, f"compose:{label}:{ncls}", inp, t, cur, keep, True, mode, od)


def replay_input(out, fail, inp, scratch):
    """re-run a recorded failing input of this module (only the recorded chain and route)"""
    t = U.unfrac_json(inp["tree"])
    if inp.get("labels"):
        labels_case(out, fail, t, scratch)
    elif inp.get("names"):
        names_case(out, fail, t)
    elif inp.get("no_io"):
        compose_case_no_io(out, fail, t, [inp["chain"]])
    else:
        chain = inp.get("chain") or []
        compose_case(out, fail, t, inp["built"], [chain] if chain else [], scratch, only_route=inp.get("route", "-"), identity=not chain)


# --------------------------------------------------------------------------
# correspondence of the name models (Lean: roundTrips / nameRoundTrip / escapeName, pySpace,
# assignNames / makeTreeNames) with the real code
# --------------------------------------------------------------------------
ODD_WS = ["\t", "\n", "\r", "\x0b", "\x0c", "\x1c", "\x1f", "\x85", "\xa0", " ", " ", " ", " ", "　", "​", "\x00", "\x7f"]


def raw_name(rng):
    """any characters: printable classes plus control characters / Unicode white space"""
    r = rng.random()
    if r < 0.45:
        cls = rng.choice(["meta", "blank", "unicode", "number", "auto", "leadq", "punct", "plain"])
        return adv_name(rng, cls, set())
    parts = []
    for _ in range(rng.randint(1, 5)):
        q = rng.random()
        if q < 0.35:
            parts.append(rng.choice(ODD_WS))
        elif q < 0.55:
            parts.append(rng.choice(FRAGS_META))
        elif q < 0.65:
            parts.append(rng.choice(FRAGS_UNI))
        else:
            parts.append(_alnum(rng, 1, 2))
    return "".join(parts)


def real_name_roundtrip(name):
    """(text written for the name, name read back by parse_string(get_newick()) or None)"""
    from cogent3.core.tree import PhyloNode, TreeBuilder
    from cogent3.parse.newick import parse_string

    tree = PhyloNode(name="root", children=[PhyloNode(name=name), PhyloNode(name="z")])
    tree.name_loaded = False
    text = tree.get_newick()
    try:
        back = parse_string(text, TreeBuilder().create_edge, underscore_unmunge=True)
    except Exception:  # noqa: BLE001
        return text, None
    kids = back.children
    if len(kids) != 2 or kids[0].children or kids[1].children or not kids[1].name_loaded or kids[1].name != "z":
        return text, None
    return text, (kids[0].name if kids[0].name_loaded else "")


def corr_names(ctx, out, rng, add_failure):
    # 1. white space: the model's pySpace == str.isspace on every code point
    out["evaluations"] += 1
    rep = ctx.driver.batch([("spaces", dict(upto=0x110000))])[0]
    want = [c for c in range(0x110000) if not 0xD800 <= c <= 0xDFFF and chr(c).isspace()]
    if rep != want:
        add_failure(out, "corr", "model pySpace differs from str.isspace", dict(), want[:40], rep[:40] if isinstance(rep, list) else rep, confirmed=False)
    else:
        bump(out, "names_corr", "pySpace==str.isspace on all code points")
    # 2. one name through writer + tokeniser + parser; the predicate must be EXACT on the real code
    names = ["'ab", "'ab'", "'", "''", "(", ")", ",", ":", ";", "[", "]", "a\nb", "\tab", "ab\r", "\xa0a", " a", "a ", "_", " ", "a\tb", "\ta,b", 'a""b', "a''b", "it's", "edge.0", "root"]
    seen = set(names)
    for _ in range(ctx.budget(1500, 30000)):
        n = raw_name(rng)
        if n and "z" not in n and n not in seen and n != "edge":
            seen.add(n)
            names.append(n)
    reps = ctx.driver.batch([("rtname", dict(name=n)) for n in names])
    for n, rep in zip(names, reps):
        out["evaluations"] += 1
        inp = dict(name=n)
        if isinstance(rep, dict) and "error" in rep:
            add_failure(out, "corr", "driver error", inp, "reply", rep, confirmed=False)
            continue
        text, back = real_name_roundtrip(n)
        want_text = "(" + rep["written"] + ",z);"
        if text != want_text:
            add_failure(out, "corr", "get_newick name escaping differs from model escapeName", inp, want_text, text, confirmed=False)
            continue
        if rep["back"] == "" and back is not None and re.fullmatch(r"edge\.\d+", back):
            back = ""  # an empty quoted label is a loaded name that TreeBuilder replaces by edge.N; "" in the model
        if back != rep["back"]:
            add_failure(out, "corr", "name read back by parse_string(get_newick()) differs from model nameRoundTrip", dict(inp, text=text), rep["back"], back, confirmed=False)
            continue
        if rep["ok"] != (back == n):
            add_failure(out, "corr", "the predicate roundTrips is not exact: it " + ("admits a name the code does not hand back" if rep["ok"] else "excludes a name the code hands back unchanged"), dict(inp, text=text), n if rep["ok"] else "excluded", back, confirmed=False)
            continue
        bump(out, "names_corr", "roundtrip:" + ("kept" if rep["ok"] else ("changed" if back is not None else "rejected")))
        out["nontrivial"].add("rt:" + n)
    # 3. TreeBuilder / make_tree naming of label lists
    import cogent3
    from cogent3.core.tree import TreeBuilder

    cases = []
    for _ in range(ctx.budget(300, 5000)):
        t = gen_labels_tree(rng)
        labels = []

        def post(x, top=True):
            for c in x[2]:
                post(c, False)
            labels.append(x[0] or None)

        post(t)
        cases.append((t, labels))
    reps = ctx.driver.batch([("names", dict(labels=l)) for _, l in cases])
    for (t, labels), rep in zip(cases, reps):
        out["evaluations"] += 1
        inp = dict(labels=labels, text=own_newick(t))
        if isinstance(rep, dict) and "error" in rep:
            add_failure(out, "corr", "driver error", inp, "reply", rep, confirmed=False)
            continue
        b = TreeBuilder()
        got = [b._unique_name(l) for l in labels]
        if got != rep["builder"]:
            add_failure(out, "corr", "TreeBuilder._unique_name differs from model assignNames", inp, rep["builder"], got, confirmed=False)
            continue
        tree = cogent3.make_tree(own_newick(t))
        got = [n.name for n in tree.postorder()]
        if got != rep["make_tree"]:
            add_failure(out, "corr", "make_tree node names differ from model makeTreeNames", inp, rep["make_tree"], got, confirmed=False)
            continue
        bump(out, "names_corr", "naming:" + ("distinct" if len(set(got)) == len(got) else "root-collision"))
        if len(set(labels)) < len(labels):
            out["nontrivial"].add("nm:" + json.dumps(labels))
    # 4. wave 3: the TRANSLATED _unique_name (Gen/C09Newick.lean) against the real method: arbitrary dict states (reachable or not:
    # any counters, keys that look like suffixed names so the recursive re-check runs several levels deep), a sequence of calls;
    # compared: every returned name and the dict afterwards with its insertion order
    gcases = []
    for i in range(ctx.budget(400, 6000)):
        init = i % 4 == 0
        base = rng.choice(["x", "edge", "a b", "it's", "é", "1", "x.1", "root"])
        pool = [base, None, "", "edge", "y"]
        used = []
        if not init:
            ks = []
            k = base
            for _ in range(rng.randint(0, 4)):  # a chain k, k.c+1, k.c+1.d+1, ... so that the re-check recurses
                cnt = rng.randint(-2, 3)
                ks.append((k, cnt))
                k = k + "." + str(cnt + 1)
            for _ in range(rng.randint(0, 3)):
                ks.append((rng.choice(["edge", "y", "edge.0", "edge.1", "x.2", "x.2.2", "é.1", ""]), rng.randint(-3, 4)))
            rng.shuffle(ks)
            seen_k = set()
            for kk, vv in ks:
                if kk not in seen_k:
                    seen_k.add(kk)
                    used.append([kk, vv])
            pool += [kk for kk, _ in used]
        labels = [rng.choice(pool) for _ in range(rng.randint(1, 6))]
        gcases.append((init, used, labels))
    reps = ctx.driver.batch([("gen_unique", dict(init=i, used=u, labels=l)) for i, u, l in gcases])
    for (init, used, labels), rep in zip(gcases, reps):
        out["evaluations"] += 1
        inp = dict(init=init, used=used, labels=labels)
        if isinstance(rep, dict) and "error" in rep:
            add_failure(out, "corr", "driver error", inp, "reply", rep, confirmed=False)
            continue
        b = TreeBuilder()
        if not init:
            b._used_names = {k: v for k, v in used}
        try:
            got = [b._unique_name(l) for l in labels]
            got_used = [[k, v] for k, v in b._used_names.items()]
        except Exception as e:  # noqa: BLE001
            got, got_used = f"{type(e).__name__}: {e}", None
        if got != rep["names"]:
            add_failure(out, "corr", "TreeBuilder._unique_name differs from its translation (Gen/C09Newick.lean uniqueName): returned names", inp, rep["names"], got, confirmed=False)
            continue
        if got_used != rep["used"]:
            add_failure(out, "corr", "TreeBuilder._unique_name differs from its translation (Gen/C09Newick.lean uniqueName): _used_names afterwards", inp, rep["used"], got_used, confirmed=False)
            continue
        bump(out, "names_corr", "gen_unique:" + ("init" if init else "state") + (":recursed" if any(n not in (l or "edge", ) and n.count(".") >= 2 for n, l in zip(got, labels)) else ""))
        out["nontrivial"].add("gu:" + json.dumps(inp, ensure_ascii=False))
