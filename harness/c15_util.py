"""C15 helpers: generating trees, exact tree metrics, independent estimator oracle.

Trees are nested tuples:  ("tip", name)  |  ("node", [(length, child), ...])
Lengths are Fractions (exact) on the generating / model side and floats on the implementation side.
"""
from __future__ import annotations

import math
from fractions import Fraction

UNIT = 64  # generating branch lengths are k/64: exactly representable, sums exact in float64


# --------------------------------------------------------------------------
# generating trees
# --------------------------------------------------------------------------
def _partition(rng, items, k, shape):
    """split items into k non-empty groups; shape in {'random','ladder','balanced'}"""
    items = list(items)
    rng.shuffle(items)
    n = len(items)
    k = min(k, n)
    if shape == "ladder":
        sizes = [1] * (k - 1) + [n - (k - 1)]
    elif shape == "balanced":
        sizes = [n // k + (1 if i < n % k else 0) for i in range(k)]
    else:
        cuts = sorted(rng.sample(range(1, n), k - 1))
        sizes = [b - a for a, b in zip([0] + cuts, cuts + [n])]
    out, pos = [], 0
    for s in sizes:
        out.append(items[pos : pos + s])
        pos += s
    return out


def gen_additive_tree(rng, names, multifurc=False, shape=None, maxlen=256):
    """random unrooted tree (root of degree >= 3) with positive dyadic branch lengths"""
    shape = shape or rng.choice(["random", "random", "ladder", "balanced"])

    def length():
        r = rng.random()
        if r < 0.15:
            return Fraction(1, UNIT)  # very short edges
        if r < 0.3:
            return Fraction(rng.randint(1, 8), UNIT)
        return Fraction(rng.randint(1, maxlen), UNIT)

    def sub(tips):
        if len(tips) == 1:
            return ("tip", tips[0])
        k = 2
        if multifurc and len(tips) > 2 and rng.random() < 0.35:
            k = rng.randint(3, min(4, len(tips)))
        return ("node", [(length(), sub(g)) for g in _partition(rng, tips, k, shape)])

    k = 3
    if multifurc and len(names) > 3 and rng.random() < 0.3:
        k = rng.randint(4, min(5, len(names)))
    return ("node", [(length(), sub(g)) for g in _partition(rng, names, k, shape)])


def gen_ultrametric_tree(rng, names, multifurc=True, shape=None):
    """random rooted ultrametric tree, node heights are integers / 64, all edges positive"""
    shape = shape or rng.choice(["random", "random", "ladder", "balanced"])
    n = len(names)

    def sub(tips, h):
        """subtree whose root sits at height h (in units) with these tips (len >= 2)"""
        k = 2
        if h == 1:
            k = len(tips)
        elif multifurc and len(tips) > 2 and rng.random() < 0.35:
            k = rng.randint(3, min(4, len(tips)))
        kids = []
        for g in _partition(rng, tips, k, shape):
            if len(g) == 1:
                kids.append((Fraction(h, UNIT), ("tip", g[0])))
            else:
                hc = rng.randint(1, h - 1)
                if rng.random() < 0.2:
                    hc = h - 1  # very short internal edge
                kids.append((Fraction(h - hc, UNIT), sub(g, hc)))
        return ("node", kids)

    top = rng.randint(max(2, n // 2), 512)
    return sub(list(names), top)


# --------------------------------------------------------------------------
# reading trees
# --------------------------------------------------------------------------
def depths(t):
    """[(tip, depth)]"""
    if t[0] == "tip":
        return [(t[1], 0)]
    out = []
    for l, c in t[1]:
        out += [(x, d + l) for x, d in depths(c)]
    return out


def tip_names(t):
    return [x for x, _ in depths(t)]


def tip_dists(t):
    """{(a,b): path length} for a != b (both orders)"""
    res = {}

    def rec(t):
        if t[0] == "tip":
            return [(t[1], 0)]
        groups = [[(x, d + l) for x, d in rec(c)] for l, c in t[1]]
        for i in range(len(groups)):
            for j in range(i + 1, len(groups)):
                for x, dx in groups[i]:
                    for y, dy in groups[j]:
                        res[(x, y)] = res[(y, x)] = dx + dy
        return [p for g in groups for p in g]

    rec(t)
    return res


def rooted_clades(t, tol=0):
    """{frozenset(tips): length of the edge above} for every non-root node; edges with
    length <= tol above INTERNAL nodes are dropped (collapsed)"""
    res = {}

    def rec(t, above):
        if t[0] == "tip":
            s = frozenset([t[1]])
        else:
            s = frozenset().union(*[rec(c, l) for l, c in t[1]])
        if above is not None and (t[0] == "tip" or abs(above) > tol):
            res[s] = res.get(s, 0) + above
        return s

    rec(t, None)
    return res


def unrooted_splits(t, tol=0):
    """{frozenset(side not containing the anchor): length}; the anchor is the smallest tip name.
    A degree-2 root is suppressed (its two edges are one edge)."""
    names = sorted(tip_names(t))
    anchor, allt = names[0], frozenset(names)
    res = {}
    raw = []

    def rec(t, above):
        if t[0] == "tip":
            s = frozenset([t[1]])
        else:
            s = frozenset().union(*[rec(c, l) for l, c in t[1]])
        if above is not None:
            raw.append((s, above, t[0] == "tip"))
        return s

    rec(t, None)
    acc = {}
    tipflag = {}
    for s, l, is_tip in raw:
        key = allt - s if anchor in s else s
        acc[key] = acc.get(key, 0) + l
        tipflag[key] = tipflag.get(key, False) or is_tip or len(key) == 1 or len(key) == len(allt) - 1
    for k, l in acc.items():
        if tipflag[k] or abs(l) > tol:
            res[k] = l
    return res


def from_cogent(node):
    if node.is_tip():
        return ("tip", node.name)
    return ("node", [(float(c.length) if c.length is not None else None, from_cogent(c)) for c in node.children])


def from_model(j, names):
    """driver JSON -> nested tuple with Fractions"""
    from .common import unrat

    if "t" in j:
        return ("tip", names[j["t"]])
    return ("node", [(unrat(l), from_model(c, names)) for l, c in j["c"]])


def canon_rooted(t):
    """canonical nested form of a rooted tree: children sorted by smallest tip name"""
    if t[0] == "tip":
        return (t[1],), t[1]
    kids = []
    for l, c in t[1]:
        form, key = canon_rooted(c)
        kids.append((key, l, form))
    kids.sort(key=lambda k: k[0])
    return tuple((l, f) for _, l, f in kids), kids[0][0]


def close(a, b, tol):
    return abs(float(a) - float(b)) <= tol


def same_rooted(a, b, tol):
    """structural equality of canonical rooted forms with length tolerance"""
    fa, _ = canon_rooted(a)
    fb, _ = canon_rooted(b)

    def eq(x, y):
        if len(x) != len(y):
            return False
        if len(x) == 1 and isinstance(x[0], str):
            return x == y
        if isinstance(x[0], str) or isinstance(y[0], str):
            return False
        return all(close(lx, ly, tol) and eq(fx, fy) for (lx, fx), (ly, fy) in zip(x, y))

    return eq(fa, fb)


def dict_close(a, b, tol):
    """None if the two {key: number} maps agree, else a short description"""
    if set(a) != set(b):
        return f"key sets differ: only-left={sorted(map(sorted, set(a) - set(b)))[:3]} only-right={sorted(map(sorted, set(b) - set(a)))[:3]}"
    for k in a:
        if not close(a[k], b[k], tol):
            return f"value at {sorted(k) if not isinstance(k, tuple) else k}: {float(a[k])!r} vs {float(b[k])!r}"
    return None


def matrix_of(names, dists):
    return [[Fraction(0) if a == b else dists[(a, b)] for b in names] for a in names]


# --------------------------------------------------------------------------
# independent estimator oracle: published formulas on one pair of strings, by character
# --------------------------------------------------------------------------
def det_frac(m):
    """determinant by fraction Gaussian elimination"""
    m = [row[:] for row in m]
    n = len(m)
    det = Fraction(1)
    for c in range(n):
        piv = next((r for r in range(c, n) if m[r][c] != 0), None)
        if piv is None:
            return Fraction(0)
        if piv != c:
            m[c], m[piv] = m[piv], m[c]
            det = -det
        det *= m[c][c]
        for r in range(c + 1, n):
            f = m[r][c] / m[c][c]
            if f:
                m[r] = [x - f * y for x, y in zip(m[r], m[c])]
    return det


INVALID = "invalid"  # the estimator is not defined for this pair (log of a non-positive number, no data)
UNDEF = "undef"  # the published formula itself contains 0/0 (a base with zero frequency in TN93)


def oracle_pair(calc, s1, s2, canon):
    """expected distance for the pair (float), or INVALID / UNDEF.
    `canon` is the 4-letter canonical alphabet ("ACGT" or "ACGU")."""
    cols = [(a, b) for a, b in zip(s1, s2) if a in canon and b in canon]
    n = len(cols)
    if n == 0:
        return INVALID
    diffs = sum(1 for a, b in cols if a != b)
    if diffs == 0:
        return 0.0
    p = Fraction(diffs, n)
    if calc == "hamming":
        return float(diffs)
    if calc == "pdist":
        return float(p)
    if calc == "jc69":
        if p >= Fraction(3, 4):
            return INVALID
        return -0.75 * math.log(1 - Fraction(4, 3) * p)
    A, C, G, T = canon[0], canon[1], canon[2], canon[3]  # canon is given as A,C,G,T/U
    if calc == "tn93":
        pi = {x: Fraction(sum(1 for a, b in cols if a == x) + sum(1 for a, b in cols if b == x), 2 * n) for x in canon}
        P1 = Fraction(sum(1 for a, b in cols if {a, b} == {A, G}), n)
        P2 = Fraction(sum(1 for a, b in cols if {a, b} == {C, T}), n)
        Q = p - P1 - P2
        if any(v == 0 for v in pi.values()):
            return UNDEF
        piR, piY = pi[A] + pi[G], pi[C] + pi[T]
        w1 = 1 - piR * P1 / (2 * pi[A] * pi[G]) - Q / (2 * piR)
        w2 = 1 - piY * P2 / (2 * pi[T] * pi[C]) - Q / (2 * piY)
        w3 = 1 - Q / (2 * piR * piY)
        if w1 <= 0 or w2 <= 0 or w3 <= 0:
            return INVALID
        k1 = 2 * pi[A] * pi[G] / piR
        k2 = 2 * pi[T] * pi[C] / piY
        k3 = 2 * (piR * piY - pi[A] * pi[G] * piY / piR - pi[T] * pi[C] * piR / piY)
        return -float(k1) * math.log(w1) - float(k2) * math.log(w2) - float(k3) * math.log(w3)
    # paralinear / logdet: joint frequency matrix, 0.5 pseudo-count on empty diagonal cells (as documented
    # in _logdetcommon), renormalised
    J = [[Fraction(sum(1 for a, b in cols if a == x and b == y)) for y in canon] for x in canon]
    for i in range(4):
        if J[i][i] == 0:
            J[i][i] = Fraction(1, 2)
    tot = sum(map(sum, J))
    J = [[v / tot for v in row] for row in J]
    d = det_frac(J)
    if d <= 0:
        return INVALID
    fx = [sum(J[i]) for i in range(4)]
    fy = [sum(J[i][j] for i in range(4)) for j in range(4)]
    prod = Fraction(1)
    for i in range(4):
        prod *= fx[i] * fy[i]
    core = math.log(d) - 0.5 * math.log(prod)
    if calc == "paralinear":
        return -core / 4
    if calc == "logdet":
        g2 = sum(((fx[i] + fy[i]) / 2) ** 2 for i in range(4))
        return -float((1 - g2) / 3) * core
    if calc == "logdet_notk":
        return -math.log(d) / 4 - math.log(4)
    raise ValueError(calc)


def validity_margin(calc, s1, s2, canon):
    """smallest |x| among the exact quantities whose sign decides validity (log arguments / determinant)
    for this pair, or None when there is no such quantity; used to skip numerically delicate decisions"""
    cols = [(a, b) for a, b in zip(s1, s2) if a in canon and b in canon]
    n = len(cols)
    if n == 0 or all(a == b for a, b in cols):
        return None
    A, C, G, T = canon
    if calc == "tn93":
        pi = {x: Fraction(sum(1 for a, b in cols if a == x) + sum(1 for a, b in cols if b == x), 2 * n) for x in canon}
        P1 = Fraction(sum(1 for a, b in cols if {a, b} == {A, G}), n)
        P2 = Fraction(sum(1 for a, b in cols if {a, b} == {C, T}), n)
        Q = Fraction(sum(1 for a, b in cols if a != b), n) - P1 - P2
        piR, piY = pi[A] + pi[G], pi[C] + pi[T]
        ws = []
        if pi[A] * pi[G]:
            ws.append(1 - piR * P1 / (2 * pi[A] * pi[G]) - Q / (2 * piR))
        if pi[C] * pi[T]:
            ws.append(1 - piY * P2 / (2 * pi[T] * pi[C]) - Q / (2 * piY))
        if piR * piY:
            ws.append(1 - Q / (2 * piR * piY))
        return min(abs(w) for w in ws) if ws else None
    if calc in ("paralinear", "logdet", "logdet_notk"):
        J = [[Fraction(sum(1 for a, b in cols if a == x and b == y)) for y in canon] for x in canon]
        for i in range(4):
            if J[i][i] == 0:
                J[i][i] = Fraction(1, 2)
        tot = sum(map(sum, J))
        return abs(det_frac([[v / tot for v in row] for row in J]))
    return None


# --------------------------------------------------------------------------
# exact saturation boundaries (a log argument / determinant that is exactly 0)
# --------------------------------------------------------------------------
def _dyadic(x):
    """exactly representable as a float64 with room to spare (so sums / products of a few such values are exact too)"""
    x = Fraction(x)
    d = x.denominator
    return d & (d - 1) == 0 and abs(x.numerator).bit_length() <= 40 and d.bit_length() <= 40


def float_exact_boundary(calc, s1, s2, canon):
    """True when the pair lies EXACTLY on the validity boundary of `calc` (validity_margin == 0) and float64 evaluation
    of the estimator is exact, so that the validity decision cannot depend on rounding noise:
    tn93 -- every quotient the formula forms (frequencies, proportions, coefficients, the ratios inside the three log
    arguments) is a dyadic rational, hence every IEEE operation returns the exact value;
    paralinear / logdet -- the joint frequency matrix has 16 equal entries (complete saturation: every elimination
    step of the determinant is exact)."""
    mg = validity_margin(calc, s1, s2, canon)
    if mg is None or mg != 0:
        return False
    cols = [(a, b) for a, b in zip(s1, s2) if a in canon and b in canon]
    n = len(cols)
    A, C, G, T = canon
    if calc == "tn93":
        pi = {x: Fraction(sum(1 for a, b in cols if a == x) + sum(1 for a, b in cols if b == x), 2 * n) for x in canon}
        if any(v == 0 for v in pi.values()):
            return False
        P1 = Fraction(sum(1 for a, b in cols if {a, b} == {A, G}), n)
        P2 = Fraction(sum(1 for a, b in cols if {a, b} == {C, T}), n)
        Q = Fraction(sum(1 for a, b in cols if a != b), n) - P1 - P2
        piR, piY = pi[A] + pi[G], pi[C] + pi[T]
        prR, prY = pi[A] * pi[G], pi[C] * pi[T]
        c1, c2 = 2 * prR / piR, 2 * prY / piY
        qs = list(pi.values()) + [P1, P2, Q, P1 + P2 + Q, c1, c2, prR * piY / piR, prY * piR / piY, P1 / c1, P2 / c2,
                                  Q / (2 * piR), Q / (2 * piY), Q / (2 * piR * piY)]
        return all(_dyadic(q) for q in qs)
    if calc in ("paralinear", "logdet", "logdet_notk"):
        J = [sum(1 for a, b in cols if a == x and b == y) for x in canon for y in canon]
        return len(set(J)) == 1 and J[0] > 0
    return False


def delicate(calc, s1, s2, canon):
    """the validity of `calc` on this pair is decided by float rounding noise (an exact log argument / determinant of
    size < 1e-9) -- except on exact boundaries where float evaluation is exact (float_exact_boundary)"""
    mg = validity_margin(calc, s1, s2, canon)
    return mg is not None and mg < 1e-9 and not float_exact_boundary(calc, s1, s2, canon)


BOUNDARY_KINDS = ["uniform16", "tn93-w3", "tn93-w1", "tn93-w2", "jc69-p34", "near-w3"]


def gen_boundary_pair(rng, canon, kind):
    """the canonical columns [(x, y), ...] of a pair lying exactly on a saturation boundary (`canon` = A,C,G,T/U order):
    uniform16  all 16 column types equally often: p = 3/4, all TN93 arguments 0 or on the boundary, det F = 0
    tn93-w3    uniform composition, half the columns transversions, no transitions: w3 = 0
    tn93-w1/2  uniform composition, a quarter of the columns purine (pyrimidine) transitions, no transversions: w1 (w2) = 0
    jc69-p34   any composition, exactly 3/4 of the columns differ
    near-w3    tn93-w3 with ONE transversion column replaced by an identical one (just inside the valid region)"""
    A, C, G, T = canon
    m = rng.choice([1, 1, 2, 3, 4, 5, 8, 12])
    if kind == "uniform16":
        m = rng.choice([1, 2, 3, 4])
        cols = [(a, b) for a in canon for b in canon] * m
    elif kind in ("tn93-w3", "near-w3"):
        tv = rng.choice([[(A, C), (C, A), (G, T), (T, G)], [(A, T), (T, A), (G, C), (C, G)], [(A, C), (C, G), (G, T), (T, A)]])
        cols = [(x, x) for x in canon] * m + tv * m
        if kind == "near-w3":
            cols[-1] = (cols[-1][0], cols[-1][0])
    elif kind == "tn93-w1":
        cols = [(A, G), (G, A), (A, A), (G, G)] * m + [(C, C), (T, T)] * (2 * m)
    elif kind == "tn93-w2":
        cols = [(C, T), (T, C), (C, C), (T, T)] * m + [(A, A), (G, G)] * (2 * m)
    elif kind == "jc69-p34":
        k = rng.choice([1, 2, 3, 5, 8])
        cols = []
        for _ in range(3 * k):
            x = rng.choice(canon)
            cols.append((x, rng.choice([y for y in canon if y != x])))
        for _ in range(k):
            x = rng.choice(canon)
            cols.append((x, x))
    else:
        raise ValueError(kind)
    return cols
