"""C01 — second tie: the TRANSLATOR (translator/py2lean_view.py).

`generate(ctx)` regenerates lean/CogentModel/Gen/C01View.lean from the CURRENT python source of the checked
tree (harness.common.SRC, so VERIF_REPO is honoured); Proofs/C01GenEq.lean then proves that every generated
definition equals the hand model for all arguments (a semantic change of the python breaks that proof at
`lake build` time).  `gen_corr(ctx, out)` is the translator's own correspondence check: the GENERATED
functions (through the driver command `gen`) against the python originals on the same argument tuples
(exhaustive small boxes + seeded random incl. huge integers).
"""
from __future__ import annotations

import itertools
import json

from .common import LEAN, SRC, VERIF, add_failure, bump

GEN_FILE = LEAN / "CogentModel" / "Gen" / "C01View.lean"
GEN_PROOFS = "CogentModel/Proofs/C01GenEq.lean"


def generate(ctx):
    import sys

    if str(VERIF) not in sys.path:
        sys.path.insert(0, str(VERIF))
    from translator import py2lean_view

    lean, info, problems = py2lean_view.translate(SRC)
    nfun = {k: len(v["functions"]) for k, v in info.get("namespaces", {}).items()}
    ass = {k: v["assumptions"] for k, v in info.get("namespaces", {}).items()}
    ctx.notes.append(f"py2lean_view: source tree {SRC}; functions translated per namespace {json.dumps(nfun)}; conventions used {json.dumps(ass)}")
    if problems:
        # keep the last good generated file so that the rest of the check still runs; the run is reported as broken
        ctx.notes.append("py2lean_view: translation problems -> Gen/C01View.lean left as it was (stale)")
        return [f"py2lean_view: {p}" for p in problems]
    if py2lean_view.write_if_changed(GEN_FILE, lean):
        ctx.notes.append("Gen/C01View.lean was rewritten (python source differs from the last generated text)")
    ctx.c01_gen_text = lean
    return []


# --------------------------------------------------------------------------
# python originals on explicit arguments
# --------------------------------------------------------------------------
class _Seq:
    """stands for a parent string: only its length matters to the slice-record arithmetic;
    `parent[a:b]` answers with the bounds it was asked for (used to read off to_rich_dict's truncation)"""

    def __init__(self, n):
        self.n = n

    def __len__(self):
        return self.n

    def __getitem__(self, sl):
        return ("bounds", sl.start, sl.stop)


SLICE_FNS = {
    "fwdFromFwd": "_get_forward_slice_from_forward_seqview_",
    "fwdFromRev": "_get_forward_slice_from_reverse_seqview_",
    "revFromFwd": "_get_reverse_slice_from_forward_seqview_",
    "revFromRev": "_get_reverse_slice_from_reverse_seqview_",
}


def _impl(ns):
    from cogent3.core import new_alignment, new_moltype, new_sequence, sequence

    if ns == "old":
        mod, cls = sequence, sequence.SeqView
    elif ns == "new":
        mod, cls = new_sequence, new_sequence.SeqView
    else:
        mod, cls = new_sequence, new_alignment.SeqDataView
    alpha = new_moltype.get_moltype("dna").most_degen_alphabet()
    sd = new_alignment.SeqsData(data={"a": "ACGT"}, alphabet=alpha) if ns == "data" else None

    def construct(n, a, b, c, off, sl):
        if ns == "old":
            return cls(seq=_Seq(n), start=a, stop=b, step=c, offset=off, seq_len=sl)
        if ns == "new":
            return cls(seq=_Seq(n), alphabet=alpha, start=a, stop=b, step=c, offset=off, seq_len=sl)
        return cls(seq=sd, seqid="a", seq_len=n, start=a, stop=b, step=c, offset=off)

    def raw(v):
        """a view object in an explicit (not necessarily reachable) state, with len(seq) == seq_len"""
        o = cls.__new__(cls)
        o.seq = sd if ns == "data" else _Seq(v["seq_len"])
        if ns == "new":
            o.alphabet = alpha
        o.start, o.stop, o.step = v["start"], v["stop"], v["step"]
        o._offset, o._seqid, o._seq_len = v["offset"], "a", v["seq_len"]
        return o

    seq_cls = sequence.Sequence if ns == "old" else new_sequence.Sequence

    def wrap(o):
        """a Sequence object around the view `o` (only `_seq` is read by annotation_offset / parent_coordinates)"""
        q = seq_cls.__new__(seq_cls)
        q._seq = o
        return q

    return mod, construct, raw, wrap


def _view_state(o):
    return dict(start=o.start, stop=o.stop, step=o.step, offset=o.offset, seq_len=o.seq_len)


class _Skip(Exception):
    pass


def _py_call(impl, fn, q):
    mod, construct, raw, wrap = impl
    try:
        if fn == "inputValsPos":
            return list(mod._input_vals_pos_step(q["n"], q["a"], q["b"], q["c"]))
        if fn == "inputValsNeg":
            return list(mod._input_vals_neg_step(q["n"], q["a"], q["b"], q["c"]))
        if fn == "mk":
            return _view_state(construct(q["n"], q["a"], q["b"], q["c"], q["off"], q["sl"]))
        o = raw(q["v"])
        if fn == "len":
            return o.__len__()
        if fn == "isReversed":
            return bool(o.is_reversed)
        if fn == "parentStart":
            return o.parent_start
        if fn == "parentStop":
            return o.parent_stop
        if fn == "getIndex":
            return list(o._get_index(q["x"], include_boundary=q["flag"]))
        if fn == "absolutePosition":
            return o.absolute_position(q["x"], include_boundary=q["flag"])
        if fn == "relativePosition":
            return o.relative_position(q["x"], stop=q["flag"])
        if fn == "annotationOffset":
            return wrap(o).annotation_offset
        if fn == "parentCoordinates":
            sid, a, b, strand = wrap(o).parent_coordinates()
            if sid != "a":
                raise ValueError(f"seqid {sid!r} is not the view's")      # the component the translation drops (A5)
            return [a, b, strand]
        if fn == "zeroSlice":
            return _view_state(o._zero_slice)
        if fn == "copy":
            return _view_state(o.copy())
        if fn in SLICE_FNS:
            return _view_state(getattr(o, SLICE_FNS[fn])(q["a"], q["b"], q["c"], **o._get_init_kwargs()))
        if fn == "getitemInt":
            return _view_state(o[q["x"]])
        if fn == "getitemSlice":
            return _view_state(o[slice(q["a"], q["b"], q["c"])])
        if fn == "richDictBounds":
            tag, lo, hi = o.to_rich_dict()["init_args"]["seq"]
            return [lo, hi]
    except (ValueError, IndexError, AssertionError) as e:
        for k in ("ValueError", "IndexError", "AssertionError"):
            if isinstance(e, eval(k)):
                return {"err": k}
    except (OverflowError, ZeroDivisionError):
        raise _Skip()      # builtin len() > 2**63-1, or step == 0: outside what the model claims
    raise ValueError(f"unknown function {fn}")


# --------------------------------------------------------------------------
# argument streams
# --------------------------------------------------------------------------
def _states_small():
    out = []
    for n in range(0, 4):
        r = range(-n - 2, n + 3)
        for s, t, c in itertools.product(r, r, (1, 2, 3, -1, -2, -3)):
            out.append(dict(start=s, stop=t, step=c, offset=0, seq_len=n))
    for s, t, c in itertools.product(range(-4, 5), range(-4, 5), (1, 2, -1, -2)):
        out.append(dict(start=s, stop=t, step=c, offset=5, seq_len=2))
    return out


REACHABLE = [  # a few reachable states on which the argument boxes are exhaustive
    dict(start=0, stop=5, step=1, offset=0, seq_len=5),
    dict(start=1, stop=5, step=2, offset=0, seq_len=5),
    dict(start=0, stop=0, step=1, offset=0, seq_len=0),
    dict(start=-1, stop=-6, step=-1, offset=0, seq_len=5),
    dict(start=-2, stop=-6, step=-2, offset=3, seq_len=5),
    dict(start=1, stop=4, step=3, offset=3, seq_len=4),
    dict(start=-1, stop=-4, step=-3, offset=0, seq_len=4),
]


def _huge(rng):
    r = rng.random()
    if r < 0.5:
        return rng.randint(-(10**17), 10**17)
    if r < 0.8:
        return rng.randint(-(2**40), 2**40)
    return rng.choice([2**31, -(2**31), 2**53 + 1, -(2**53) - 1, 2**62, 10**17])


def _rand_state(rng, huge):
    if huge:
        n = rng.randint(0, 10**17)
        c = rng.choice([1, -1, 2, -3, rng.randint(1, 10**9), -rng.randint(1, 10**9)])
        return dict(start=_huge(rng), stop=_huge(rng), step=c, offset=rng.choice([0, 7, 10**15]), seq_len=n)
    n = rng.randint(0, 12)
    return dict(start=rng.randint(-n - 3, n + 3), stop=rng.randint(-n - 3, n + 3),
                step=rng.choice([1, 1, 2, 3, 5, -1, -1, -2, -3, -5]), offset=rng.choice([0, 0, 4]), seq_len=n)


def _rand_reachable(rng, impl, huge):
    """a state produced by the real constructor (satisfies the invariant)"""
    _, construct, _, _ = impl
    n = rng.randint(0, 10**15) if huge else rng.randint(0, 12)
    arg = (lambda: rng.choice([None, _huge(rng), rng.randint(-n - 2, n + 2)])) if huge else (
        lambda: rng.choice([None, rng.randint(-n - 3, n + 3)]))
    c = rng.choice([None, 1, 2, 3, -1, -2, -3, 7, -7])
    return _view_state(construct(n, arg(), arg(), c, rng.choice([0, 0, 9]), None))


def _cases(ctx, ns, impl):
    rng = ctx.subrng("gen:" + ns)
    cases = []
    small = [None, -6, -5, -3, -1, 0, 1, 2, 4, 5, 6]
    for n, a, b, c in itertools.product(range(0, 5), small, small, (1, 2, -1, -2)):
        cases.append(("inputValsPos", dict(n=n, a=a, b=b, c=c)))
        cases.append(("inputValsNeg", dict(n=n, a=a, b=b, c=c)))
    arg6 = [None, -4, -1, 0, 2, 4]
    for n, a, b, c in itertools.product(range(0, 4), arg6, arg6, (None, 0, 1, 2, -1, -2)):
        for sl in (None, n, n + 1, 0):
            cases.append(("mk", dict(n=n, a=a, b=b, c=c, off=0, sl=sl)))
    unary = ["len", "isReversed", "parentStart", "parentStop", "zeroSlice", "copy", "annotationOffset", "parentCoordinates"] + (["richDictBounds"] if ns != "data" else [])
    for v in _states_small():
        for fn in unary:
            cases.append((fn, dict(v=v)))
    box = [-7, -3, -1, 0, 1, 2, 6]
    for v in REACHABLE:
        for x in range(-8, 9):
            for flag in (False, True):
                for fn in ("getIndex", "absolutePosition"):
                    cases.append((fn, dict(v=v, x=x, flag=flag)))
                cases.append(("relativePosition", dict(v=v, x=x + 3, flag=flag)))
            cases.append(("getitemInt", dict(v=v, x=x)))
        for a, b in itertools.product(box, box):
            for c in (1, 2):
                cases.append(("fwdFromFwd", dict(v=v, a=a, b=b, c=c)))
                cases.append(("fwdFromRev", dict(v=v, a=a, b=b, c=c)))
            for c in (-1, -2):
                cases.append(("revFromFwd", dict(v=v, a=a, b=b, c=c)))
                cases.append(("revFromRev", dict(v=v, a=a, b=b, c=c)))
        for a, b, c in itertools.product([None] + box, [None] + box, (None, 1, 2, -1, -3, 0)):
            cases.append(("getitemSlice", dict(v=v, a=a, b=b, c=c)))
    # seeded random: arbitrary and reachable states, small and huge integers
    fns = ["getIndex", "absolutePosition", "relativePosition", "getitemInt", "getitemSlice", "fwdFromFwd", "fwdFromRev",
           "revFromFwd", "revFromRev", "len", "parentStart", "parentStop", "copy", "zeroSlice", "annotationOffset", "parentCoordinates"] + (
        ["richDictBounds"] if ns != "data" else [])
    for _ in range(ctx.budget(9000, 120000)):
        huge = rng.random() < 0.35
        v = _rand_reachable(rng, impl, huge) if rng.random() < 0.6 else _rand_state(rng, huge)
        L = abs((v["start"] - v["stop"]) // v["step"])
        fn = rng.choice(fns)
        pick = (lambda: rng.choice([_huge(rng), rng.randint(-L - 2, L + 2), 0, -1])) if huge else (lambda: rng.randint(-L - 3, L + 3))
        q = dict(v=v)
        if fn in ("getIndex", "absolutePosition", "relativePosition"):
            q.update(x=pick(), flag=rng.random() < 0.5)
        elif fn == "getitemInt":
            q.update(x=pick())
        elif fn == "getitemSlice":
            q.update(a=rng.choice([None, pick()]), b=rng.choice([None, pick()]), c=rng.choice([None, 1, 2, 3, -1, -2, -3, 0]))
        elif fn in SLICE_FNS:
            q.update(a=pick(), b=pick(), c=rng.choice([1, 2, 5]) * (1 if fn.startswith("fwd") else -1))
        cases.append((fn, q))
    for _ in range(ctx.budget(3000, 40000)):
        big = lambda: rng.choice([None, rng.randint(-(10**30), 10**30), rng.randint(-50, 50)])
        n = rng.choice([rng.randint(0, 10**30), rng.randint(0, 40)])
        c = rng.choice([1, 2, -1, -2, rng.randint(1, 10**20), -rng.randint(1, 10**20)])
        cases.append((rng.choice(["inputValsPos", "inputValsNeg"]), dict(n=n, a=big(), b=big(), c=c)))
        if ns == "data":
            cases.append(("mk", dict(n=n, a=big(), b=big(), c=rng.choice([None, 0, c]), off=rng.choice([0, 10**25]), sl=None)))
        else:
            n2 = rng.randint(0, 10**17)
            cases.append(("mk", dict(n=n2, a=big(), b=big(), c=rng.choice([None, 0, c]), off=rng.choice([0, 10**25]),
                                     sl=rng.choice([None, n2, n2, n2 + 1]))))
    return cases


def gen_corr(ctx, out):
    """translator self-test: generated Lean definitions vs the python originals, same arguments"""
    out["rule"] += (
        "; plus translator self-test (gen): every GENERATED definition of Gen/C01View.lean (3 namespaces) vs the python original "
        "on explicit arguments -- exhaustive small boxes (normalisers, constructor incl. seq_len check, all unary methods on all "
        "states with |start|,|stop|<=n+2, n<=3; argument boxes on 7 reachable states) then seeded random arbitrary/reachable states "
        "with integers up to 1e17 (1e30 for the normalisers); non-trivial = distinct (namespace, function, arguments) not raising"
    )
    want = getattr(ctx, "c01_gen_text", None)
    if want is not None and GEN_FILE.read_text() != want:
        # the generated module lives in the shared lake workspace: a concurrent `./check C01` on ANOTHER source tree
        # (VERIF_REPO=...) rewrote it after this run generated it, so proofs/driver of this run may have seen that text
        raise RuntimeError("Gen/C01View.lean was rewritten by another process during this run (concurrent ./check C01 "
                           "on a different VERIF_REPO?); the translator tie of this run is void -- rerun")
    for ns in ("old", "new", "data"):
        impl = _impl(ns)
        todo = []
        for fn, q in _cases(ctx, ns, impl):
            try:
                real = _py_call(impl, fn, q)
            except _Skip:
                bump(out, "gen_skipped", "overflow-or-step0")
                continue
            except Exception as e:  # noqa: BLE001 -- anything else is a finding about the stream itself
                add_failure(out, "corr", f"python original of translated {ns}.{fn} raised {type(e).__name__}",
                            dict(stream="gen", ns=ns, fn=fn, args=q), "ValueError/IndexError/AssertionError or a value", repr(e), confirmed=False)
                continue
            todo.append((fn, q, real))
        replies = ctx.driver.batch([("gen", dict(q, ns=ns, fn=fn)) for fn, q, _ in todo])
        for (fn, q, real), got in zip(todo, replies):
            out["evaluations"] += 1
            bump(out, "gen_fn", f"{ns}.{fn}")
            if got != real:
                add_failure(out, "corr", f"translated {ns}.{fn} differs from the python original",
                            dict(stream="gen", ns=ns, fn=fn, args=q), got, real, confirmed=False,
                            sig=f"gen:{ns}.{fn}")
            elif not (isinstance(real, dict) and "err" in real):
                out["nontrivial"].add(("gen", ns, fn, json.dumps(q, sort_keys=True)))
            else:
                bump(out, "gen_raises", real["err"])
    return out
