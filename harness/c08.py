"""C08 — Gapped-coordinate maps agree with the gapped string they describe."""
from __future__ import annotations

import itertools

from .common import add_failure as _add_failure
from .common import bump, new_outcome

MAX_PER_SIG = 6


def add_failure(out, kind, what, inp, expected, got, confirmed=True, sig=None):
    """keep at most MAX_PER_SIG failures per signature so one class cannot hide another"""
    key = f"{kind}:{sig or what}"
    cnt = out.setdefault("_sigcount", {})
    cnt[key] = cnt.get(key, 0) + 1
    bump(out, "failure_sigs", key)
    if cnt[key] <= MAX_PER_SIG:
        _add_failure(out, kind, what, inp, expected, got, confirmed=confirmed, sig=sig, maxkeep=400)

PROP = "C08"


def generate(ctx):
    """translator tie: re-translate the pure span algebra of core/location.py (_norm_index, _norm_slice, span_and_span,
    the Span / SpanI / _LostSpan methods, FeatureMap.__mul__/__truediv__/__add__/without_gaps/get_coordinates) from the
    CURRENT source of the checked tree (VERIF_REPO is honoured through harness.common.SRC) into Gen/C08Span.lean;
    Props/C08Gen.lean then proves every generated definition equal to the hand model for all arguments"""
    import json
    import sys

    from .common import LEAN, SRC, VERIF

    if str(VERIF) not in sys.path:
        sys.path.insert(0, str(VERIF))
    from translator import c08_span2lean as tr

    gen_file = LEAN / "CogentModel" / "Gen" / "C08Span.lean"
    lean, info, problems = tr.translate(SRC)
    ctx.notes.append(f"c08_span2lean: source tree {SRC}; statements translated {json.dumps(info)}")
    if problems or lean is None:
        # the last good generated file is kept so that the rest of the check still runs; the run is reported as broken
        ctx.notes.append("c08_span2lean: translation problems -> Gen/C08Span.lean left as it was (stale)")
        return [f"c08_span2lean: {p}" for p in problems]
    if tr.write_if_changed(gen_file, lean):
        ctx.notes.append("Gen/C08Span.lean was rewritten (python source differs from the last generated text)")
    return []
# Props/C08Gen.lean: the definitions GENERATED from the current python source (Gen/C08Span.lean) equal the hand model;
# Props/C08Ops.lean: set-theoretic meaning of the span predicates and FeatureMap + * / without_gaps
PROPS_FILES = ["CogentModel/Props/C08.lean", "CogentModel/Props/C08FMap.lean", "CogentModel/Props/C08Ops.lean",
               "CogentModel/Props/C08Gen.lean", "CogentModel/Props/C08Loops.lean", "CogentModel/Props/C08Gaps.lean"]
LEAN_TARGETS = ["CogentModel.Props.C08", "CogentModel.Props.C08FMap", "CogentModel.Props.C08Ops", "CogentModel.Props.C08Gen",
                "CogentModel.Props.C08Loops", "CogentModel.Props.C08Gaps"]
DRIVER = "drv_c08"
TRUSTED = [
    "translator/c08_span2lean.py (python ast -> Lean for the pure span algebra: _norm_index, _norm_slice, span_and_span, Span / "
    "SpanI / _LostSpan methods, FeatureMap + * / without_gaps get_coordinates; wave 2: `for` loops as structural recursion -> "
    "coords_minus_coords, coords_intersect, FeatureMap.__post_init__/gaps/nongap/inverse/start/end/absolute_position/"
    "relative_position; conventions S1-S10 in its header): the output "
    "Gen/C08Span.lean is proved equal to the hand models for all arguments (Props/C08Gen.lean, Props/C08Loops.lean, re-checked against freshly "
    "generated text every run)",
    "hand-written model lean/CogentModel/Model/FMapOps.lean (span predicates, Span[int], * / reversed_relative_to, FeatureMap "
    "+ * / without_gaps get_coordinates start end get_covering_span), also tied by the `spanops` / `fmops` correspondence",
    "hand-written models lean/CogentModel/Model/IndelMap.lean (IndelMap, coords_* helpers) and Model/FMap.lean "
    "(FeatureMap/Span algebra), tied by exhaustive (all gap layouts of length<=8 x all intervals incl. None/negative/"
    "out-of-range) + random correspondence against cogent3.core.location",
    "Spec/Gapped.lean (a gapped string is List (Option Nat)), validated against CPython str operations each run",
    "numpy searchsorted/cumsum/union1d/intersect1d are modelled by list functions (sorted inputs only)",
]
ASSUMPTIONS = [
    "numpy int32/int64 arithmetic does not overflow (coordinates < 2^31)",
    "an IndexError for a negative index beyond -len is accepted as a loud refusal (Python would clamp); "
    "a silently wrong map is not",
    "termini_unknown flags, tidy_start/tidy_end, Span.value and the serialisation dicts are exercised only",
    "FeatureMap set-theoretic clauses: 26 theorems in Props/C08FMap.lean over Model/FMap.lean (tied by the `fmap` / `from_locations` "
    "correspondence streams) + 13 in Props/C08Ops.lean over Model/FMapOps.lean (span predicates, + * / without_gaps "
    "reversed_relative_to get_covering_span; tied by translation and the `spanops` / `fmops` streams) plus the spec-level differential; "
    "from_spans, to_feature_map, with_termini_unknown, rich dict / json round trips, array forms of shared_gaps / minus_gaps, "
    "make_seq_feature_map, FeatureMap[int] / [list of slices] are checked at spec level only (no model); zeroed / "
    "absolute_position / relative_position are not checked",
]


# --------------------------------------------------------------------------
# real side helpers
# --------------------------------------------------------------------------
def _err(e):
    return {"err": type(e).__name__}


def _ints(a):
    return [int(x) for x in a]


def _mapd(m):
    return {"gp": _ints(m.gap_pos), "cum": _ints(m.cum_gap_lengths), "pl": int(m.parent_length)}


def _spd(s):
    return [int(s.length)] if s.lost else [int(s.start), int(s.end)]


def _mk_real(d):
    import numpy
    from cogent3.core.location import IndelMap

    return IndelMap(
        gap_pos=numpy.array(d["gp"], dtype=int),
        cum_gap_lengths=numpy.array(d["cum"], dtype=int),
        parent_length=d["pl"],
    )


def _from_pattern(pat):
    """pattern '0110' -> (gapped str, IndelMap, ungapped Sequence) through the real parse_out_gaps"""
    import cogent3

    letters = "ACGT"
    s = "".join("-" if c == "1" else letters[i % 4] for i, c in enumerate(pat))
    m, seq = cogent3.make_seq(s, moltype="dna").parse_out_gaps()
    return s, m, seq


CATCH = (ValueError, IndexError, NotImplementedError, AssertionError, RuntimeError, TypeError)


def _try(f, conv=lambda x: x):
    try:
        return conv(f())
    except CATCH as e:
        return _err(e)


def _observe_real(m, q):
    """the same record the driver's `observe` prints"""
    r = {
        "m": _mapd(m),
        "len": len(m),
        "spans": [_spd(s) for s in m.spans],
        "coords": [[int(a), int(b)] for a, b in m.get_coordinates()],
        "nongap": [[int(s.start), int(s.end)] for s in m.nongap()],
        "gapcoords": [[int(a), int(b)] for a, b in m.get_gap_coordinates()],
        "gapalign": [[int(a), int(b)] for a, b in m.get_gap_align_coordinates().tolist()],
        "rev": _try(lambda: m.nucleic_reversed(), _mapd),
        "get": [_try(lambda: m[slice(*iv)], _mapd) for iv in q.get("iv", [])],
        "seq": [_try(lambda: m.get_seq_index(i), int) for i in q.get("ai", [])],
        "aln": [_try(lambda: m.get_align_index(i, slice_stop=st), int) for i, st in q.get("si", [])],
    }
    return r


def _layout_class(pat):
    if "1" not in pat:
        return "no-gap"
    if "0" not in pat:
        return "all-gap"
    c = []
    if pat[0] == "1":
        c.append("leading")
    if pat[-1] == "1":
        c.append("trailing")
    if "11" in pat:
        c.append("run")
    if pat.strip("1").count("1"):
        c.append("internal")
    return "+".join(c) or "other"


def _interval_class(pat, a, b):
    """where start / stop fall relative to the gap runs"""
    n = len(pat)

    def cls(i, is_stop):
        if i is None:
            return "none"
        if i < -n:
            return "neg-oob"
        if i < 0:
            i += n
            tag = "neg:"
        else:
            tag = ""
        if i > n:
            return tag + "beyond"
        if i == n:
            return tag + "at-len"
        cur = pat[i] == "1"
        prev = i > 0 and pat[i - 1] == "1"
        if cur and prev:
            return tag + "in-gap"
        if cur:
            return tag + "gap-start"
        if prev:
            return tag + "gap-end"
        return tag + "residue"

    return cls(a, False) + "/" + cls(b, True)


def _queries(n, full):
    rng_ = list(range(-n - 2, n + 3)) if full else list(range(0, n + 2)) + [-1, -2, -n, -n - 1]
    vals = [None] + rng_
    iv = [[a, b] for a in vals for b in vals]
    ai = list(range(-n - 2, n + 3))
    return iv, ai


def _rand_pattern(rng, n):
    """run-structured random layout of length n"""
    out = []
    gap = rng.random() < 0.4
    while len(out) < n:
        k = rng.choice([1, 1, 2, 3, 5, 8]) if gap else rng.choice([1, 1, 2, 4, 7, 12])
        out += ["1" if gap else "0"] * k
        gap = not gap
    return "".join(out[:n])


def _rand_bound(rng, n):
    r = rng.random()
    if r < 0.08:
        return None
    if r < 0.8:
        return rng.randint(0, n + 1)
    if r < 0.95:
        return rng.randint(-n - 1, -1)
    return rng.randint(n, n + 5)


def _rand_layout(rng, n):
    """_rand_pattern with the end classes forced often: leading / trailing / both / all-gap / no-gap"""
    r = rng.random()
    if r < 0.03:
        return "1" * n
    if r < 0.05:
        return "0" * n
    pat = _rand_pattern(rng, n)
    if r < 0.45 and n >= 2:
        lead = rng.choice([0, 0, 1, 2, 5]) if r < 0.3 else rng.choice([1, 2, 3])
        trail = rng.choice([1, 1, 2, 3, 6]) if r < 0.3 else rng.choice([0, 1, 4])
        lead, trail = min(lead, n // 2), min(trail, n // 2)
        core = pat[lead : n - trail]
        if r < 0.15 and len(core) >= 2:
            # residues directly next to the terminal runs
            core = "0" + core[1:-1] + "0"
        pat = "1" * lead + core + "1" * trail
    return pat


def _gap_runs(pat):
    runs, i, n = [], 0, len(pat)
    while i < n:
        if pat[i] == "1":
            j = i
            while j < n and pat[j] == "1":
                j += 1
            runs.append((i, j))
            i = j
        else:
            i += 1
    return runs


def _targets(pat):
    """the positions where IndelMap.__getitem__ changes branch: 0, len, every gap start / end, +-1, a point strictly
    inside every run"""
    n = len(pat)
    pts = {0, 1, n - 1, n, n + 1}
    for a, b in _gap_runs(pat):
        pts |= {a - 1, a, a + 1, b - 1, b, b + 1, (a + b) // 2}
    return sorted(p for p in pts if 0 <= p <= n + 1)


def _targeted_bound(rng, pat, pts):
    n = len(pat)
    r = rng.random()
    if r < 0.05:
        return None
    if r < 0.8:
        p = rng.choice(pts)
        if p < n and rng.random() < 0.15:
            return p - n  # the same position written as a negative index
        return p
    return _rand_bound(rng, n)


def _targeted_intervals(rng, pat, count):
    """deliberately chosen (start, stop): exactly a gap, a gap +-1 on either side, both strictly inside one gap,
    start inside gap k and stop inside gap k+1, from a gap end to the next gap start/end, before the first gap,
    after the last gap, from 0 / to len; filled up with pairs of targeted bounds"""
    n = len(pat)
    runs = _gap_runs(pat)
    pts = _targets(pat)
    cands = []
    if runs:
        def inside(a, b):
            return rng.randint(a + 1, b - 1) if b - a >= 2 else a

        for _ in range(2):
            k = rng.randrange(len(runs))
            a, b = runs[k]
            cands += [(a, b), (a, b + 1), (a - 1, b), (a + 1, b), (a, b - 1), (a - 1, b + 1), (a - 1, a), (b, b + 1),
                      (0, a), (0, a + 1), (0, b), (0, inside(a, b)), (b, n), (b - 1, n), (a, n), (inside(a, b), n),
                      (None, a), (b, None), (a, None), (None, b)]
            x, y = sorted((inside(a, b), inside(a, b)))
            cands += [(x, y), (x, y + 1), (a, y), (x, b)]
            if k + 1 < len(runs):
                c, d = runs[k + 1]
                cands += [(inside(a, b), inside(c, d)), (inside(a, b), c), (inside(a, b), d), (a, inside(c, d)),
                          (b, inside(c, d)), (b, c), (b, d), (a, c), (a, d), (b - 1, c + 1), (b + 1, c - 1), (b, c + 1)]
            if k + 2 < len(runs):
                e, f = runs[k + 2]
                cands += [(inside(a, b), inside(e, f)), (b, e), (a, f)]
        f0, l1 = runs[0][0], runs[-1][1]
        if f0 > 0:
            cands += [(rng.randint(0, f0), f0), (0, f0 - 1), (rng.randint(0, f0 - 1), rng.randint(0, f0))]
        if l1 < n:
            cands += [(l1, rng.randint(l1, n)), (l1 + 1, n), (rng.randint(l1, n), n), (l1, n + 2)]
        cands += [(f0, l1), (0, n), (runs[0][1], runs[-1][0])]
    cands = [(a, b) for a, b in cands if (a is None or -n <= a <= n + 2) and (b is None or -n <= b <= n + 2)]
    rng.shuffle(cands)
    res = cands[: max(count * 2 // 3, 1)]
    while len(res) < count:
        res.append((_targeted_bound(rng, pat, pts), _targeted_bound(rng, pat, pts)))
    # a few written with negative indices
    out = []
    for a, b in res:
        if n and rng.random() < 0.1:
            a = a - n if a is not None and 0 <= a < n else a
        if n and rng.random() < 0.1:
            b = b - n if b is not None and 0 <= b < n else b
        out.append((a, b))
    return out


# --------------------------------------------------------------------------
# correspondence: Lean model vs the real IndelMap / FeatureMap
# --------------------------------------------------------------------------
OBS_KEYS = ["m", "len", "spans", "coords", "nongap", "gapcoords", "gapalign", "rev"]


def _compare_obs(out, what, inp, pat, q, model, real):
    ok = True
    for k in OBS_KEYS:
        if model.get(k) != real.get(k):
            add_failure(out, "corr", f"{what}: {k} differs", dict(inp, field=k), model.get(k), real.get(k), confirmed=False)
            ok = False
    for k, qs in (("get", q.get("iv", [])), ("seq", q.get("ai", [])), ("aln", q.get("si", []))):
        for x, mo, re_ in zip(qs, model[k], real[k]):
            out["evaluations"] += 1
            if mo != re_:
                add_failure(out, "corr", f"{what}: {k} differs", dict(inp, query=x), mo, re_, confirmed=False)
                ok = False
            elif k == "get":
                if pat is not None:
                    bump(out, "interval_class", _interval_class(pat, x[0], x[1]))
                if "err" in mo:
                    bump(out, "getitem_result", "raises:" + mo["err"])
                else:
                    bump(out, "getitem_result", "gaps=%d" % min(len(mo["gp"]), 4))
                    if mo["gp"]:
                        out["nontrivial"].add(("get", pat or str(inp), str(x)))
    return ok


def correspondence(ctx):
    out = new_outcome(
        "IndelMap: every gap layout of alignment length<=8 (<=10 thorough) x intervals (None, negatives, out of range; full box "
        "for n<=6) x every align/seq index; random run-structured layouts <=200 (terminal gaps forced often) with bounds "
        "aimed at gap starts/ends +-1; maps reached by reversal / slicing / both, re-observed through the validating "
        "constructor; binary ops over all pairs of short layouts, + with forced junction classes and chains (a+b)+c; "
        "FeatureMap index maps with reverse spans in any order poking up to 3 outside (each poking span touches [0,len]); "
        "joined_segments/mul/from_aligned_segments/gap_coords_to_map; malformed constructor stream; coords_* helpers and "
        "span_and_span exhaustive box; FeatureMap algebra on random span lists. non-trivial = distinct (layout, query) whose "
        "result map has at least one gap, or distinct binary/feature-map case with non-empty result"
    )
    drv = ctx.driver
    rng = ctx.subrng("corr")
    nmax = ctx.budget(8, 10)

    # ---- 1. exhaustive layouts ------------------------------------------------
    reqs, reals, meta = [], [], []
    for n in range(0, nmax + 1):
        iv, ai = _queries(n, full=n <= 6)
        for bits in itertools.product("01", repeat=n):
            pat = "".join(bits)
            s, m, seq = _from_pattern(pat)
            pl = int(m.parent_length)
            si = [[i, st] for i in range(-pl - 1, pl + 2) for st in (False, True)]
            q = dict(iv=iv, ai=ai, si=si)
            if n <= 4:
                q["iv"] = iv + [[0, n, 1], [None, None, 2], [1, 2, -1]]
            reqs.append(("layout", dict(s=pat, **q)))
            real = _observe_real(m, q)
            # what the Sequence displays through the map must be the gapped string we started from
            real["display"] = str(seq.gapped_by_map(m))
            reals.append(real)
            meta.append((pat, q, s))
            bump(out, "layout_class", _layout_class(pat))
            bump(out, "layout_len", n)
    # ---- 2. random long layouts ----------------------------------------------
    dreqs, dreals, dmeta = [], [], []  # maps reached by an operation, observed through the validating constructor

    def _long_queries(pat, pl, niv):
        n = len(pat)
        pts = _targets(pat)
        iv = [list(t) for t in _targeted_intervals(rng, pat, niv)]
        iv += [[_rand_bound(rng, n), _rand_bound(rng, n)] for _ in range(3)]
        ai = [rng.choice(pts) for _ in range(5)] + [rng.randint(-n - 1, n + 1) for _ in range(3)]
        # sequence indices of the residues next to gaps, 0, parent_length, negatives
        spts = sorted({0, pl, max(pl - 1, 0)} | {pat[:p].count("0") for p in pts if p <= n})
        si = [[rng.choice(spts) - (pl if rng.random() < 0.2 else 0), rng.random() < 0.5] for _ in range(6)]
        si += [[rng.randint(-pl - 1, pl + 1), rng.random() < 0.5] for _ in range(2)]
        return dict(iv=iv, ai=ai, si=si)

    def add_derived(how, d, dpat):
        dq = _long_queries(dpat, dpat.count("0"), 6)
        dreqs.append(("map", dict(_mapd(d), **dq)))
        dreals.append(_observe_real(d, dq))
        dmeta.append((how, dpat, dq))
        bump(out, "derived_map", how)

    for _ in range(ctx.budget(400, 6000)):
        n = rng.choice([9, 10, 12, 17, 30, 60, 120, 200]) if rng.random() < 0.7 else rng.randint(9, 200)
        pat = _rand_layout(rng, n)
        s, m, seq = _from_pattern(pat)
        pl = int(m.parent_length)
        q = _long_queries(pat, pl, 14)
        reqs.append(("layout", dict(s=pat, **q)))
        real = _observe_real(m, q)
        real["display"] = str(seq.gapped_by_map(m))
        reals.append(real)
        meta.append((pat, q, s))
        bump(out, "layout_class", _layout_class(pat))
        bump(out, "layout_len", "9-200")
        # reversed / sliced / sliced-then-reversed / reversed-then-sliced maps, queried again
        a, b = _targeted_intervals(rng, pat, 1)[0]
        if (a is not None and a < -n) or (b is not None and b < -n):
            continue
        try:
            add_derived("reversed", m.nucleic_reversed(), pat[::-1])
            add_derived("sliced", m[a:b], pat[a:b])
            add_derived("sliced-reversed", m[a:b].nucleic_reversed(), pat[a:b][::-1])
            add_derived("reversed-sliced", m.nucleic_reversed()[a:b], pat[::-1][a:b])
        except CATCH as e:
            add_failure(out, "corr", "deriving a map raised", dict(s=pat, a=a, b=b), None, _err(e), confirmed=False)
    for (cmd, rq), real, model, (how, dpat, dq) in zip(dreqs, dreals, drv.batch(dreqs), dmeta):
        if "error" in model or "err" in model:
            add_failure(out, "corr", "derived map rejected by the model", dict(how=how, m=real["m"]), model, real["m"], confirmed=False)
            continue
        _compare_obs(out, "derived:" + how, dict(how=how, m=real["m"]), dpat, dq, model, real)
    for (cmd, rq), real, model, (pat, q, s) in zip(reqs, reals, drv.batch(reqs), meta):
        if "error" in model:
            add_failure(out, "corr", "driver error", rq, model, None, confirmed=False)
            continue
        _compare_obs(out, "layout", dict(s=pat), pat, q, model, real)
        disp_pat = "".join("1" if c == "-" else "0" for c in real["display"])
        for key in ("abs", "abs_spans"):
            mpat = "".join("1" if x is None else "0" for x in model[key])
            idx = [x for x in model[key] if x is not None]
            if mpat != disp_pat or idx != list(range(len(idx))):
                add_failure(out, "corr", f"model {key} differs from the string the Sequence displays through the map", dict(s=pat), disp_pat, model[key], confirmed=False)
        if len(out["samples"]) < 3 and len(pat) > 12 and 0 < pat.count("1") < len(pat):
            out["samples"].append(dict(layout=pat, map=real["m"], first_query=q["iv"][0], result=real["get"][0]))

    # ---- 3. binary operations over all pairs of short layouts -----------------
    small = {}
    for n in range(0, 6):
        for bits in itertools.product("01", repeat=n):
            pat = "".join(bits)
            # rebuilt with integer arrays: parse_out_gaps hands a float64 array to gapless maps, which only
            # numpy's casting rules (not modelled) care about; the spec-level differential uses the originals
            small[pat] = _mk_real(_mapd(_from_pattern(pat)[1]))
    breqs, breal = [], []

    def add_bin(op, pa, pb, f, conv, extra=None):
        a, b = small[pa], small[pb]
        rq = dict(a=_mapd(a), b=_mapd(b), op=op)
        if extra:
            rq.update(extra)
        breqs.append(("binary", rq))
        breal.append((op, pa, pb, _try(lambda: f(a, b), conv)))

    pats = sorted(small, key=lambda p: (len(p), p))
    pairs_conv = lambda r: [[int(x), int(y)] for x, y in (r.tolist() if hasattr(r, "tolist") else r)]
    for pa in pats:
        for pb in pats:
            if len(pa) <= 4 and len(pb) <= 4:
                add_bin("add", pa, pb, lambda a, b: a + b, _mapd)
            if len(pa) == len(pb):
                add_bin("minus", pa, pb, lambda a, b: a.minus_gaps(b), _mapd)
                add_bin("shared", pa, pb, lambda a, b: a.shared_gaps(b), pairs_conv)
            elif len(pa) <= 3 and len(pb) <= 3:
                # different aligned lengths: the AssertionError path
                add_bin("minus", pa, pb, lambda a, b: a.minus_gaps(b), _mapd)
                add_bin("shared", pa, pb, lambda a, b: a.shared_gaps(b), pairs_conv)
            if pa.count("0") == pb.count("0") and len(pa) <= 5 and len(pb) <= 5:
                add_bin("merge", pa, pb, lambda a, b: a.merge_maps(b), _mapd, dict(pl=None))
    for _ in range(ctx.budget(300, 3000)):
        n = rng.randint(6, 40)
        pa, pb = _rand_layout(rng, n), _rand_layout(rng, n)
        # a third operand of another length; the junctions gap|gap, gap|residue, residue|gap are forced often
        pc = _rand_layout(rng, rng.randint(1, 60))
        r = rng.random()
        if r < 0.35:
            pa, pb = pa[:-1] + "1", "1" + pb[1:]
        elif r < 0.45:
            pa = pa[:-2] + "01"
        elif r < 0.55:
            pb = "10" + pb[2:]
        if rng.random() < 0.4:
            pc = "1" * rng.randint(1, 3) + pc[1:] if rng.random() < 0.7 else "1" * len(pc)
        for p in (pa, pb, pc):
            small.setdefault(p, _mk_real(_mapd(_from_pattern(p)[1])))
        add_bin("minus", pa, pb, lambda a, b: a.minus_gaps(b), _mapd)
        add_bin("shared", pa, pb, lambda a, b: a.shared_gaps(b), pairs_conv)
        add_bin("add", pa, pb, lambda a, b: a + b, _mapd)
        add_bin("add", pb, pc, lambda a, b: a + b, _mapd)
        bump(out, "add_junction", ("gap" if pa[-1] == "1" else "res") + "|" + ("gap" if pb[0] == "1" else "res"))
        # chain (a + b) + c : the left operand is itself a result of +
        ab = _try(lambda: small[pa] + small[pb])
        if not isinstance(ab, dict):
            breqs.append(("binary", dict(a=_mapd(ab), b=_mapd(small[pc]), op="add")))
            breal.append(("add3", pa + "+" + pb, pc, _try(lambda: ab + small[pc], _mapd)))
    for (cmd, rq), (op, pa, pb, real), model in zip(breqs, breal, drv.batch(breqs)):
        out["evaluations"] += 1
        bump(out, "binary_op", op)
        if model != real:
            add_failure(out, "corr", f"binary {op} differs", dict(op=op, a=pa, b=pb), model, real, confirmed=False)
        elif not isinstance(real, dict) or "err" not in real:
            if (real if isinstance(real, list) else real["gp"]):
                out["nontrivial"].add((op, pa, pb))
        else:
            bump(out, "binary_err", real["err"])

    # ---- 4. joined_segments / mul / from_aligned_segments / gap_coords_to_map --
    jreqs, jreal = [], []
    for pat in pats + [_rand_layout(rng, rng.randint(6, 40)) for _ in range(ctx.budget(200, 2000))]:
        m = small.get(pat) or _mk_real(_mapd(_from_pattern(pat)[1]))
        n = len(pat)
        md = _mapd(m)
        coordsets = []
        if n <= 4:
            cuts = list(range(0, n + 1))
            for k in (1, 2):
                for c in itertools.combinations(cuts, 2 * k):
                    coordsets.append([[c[2 * i], c[2 * i + 1]] for i in range(k)])
        else:
            for _ in range(4):
                k = rng.randint(1, 3)
                c = sorted(rng.sample(range(0, n + 1), min(2 * k, n + 1) // 2 * 2))
                cs = [[c[2 * i], c[2 * i + 1]] for i in range(len(c) // 2)]
                rng.shuffle(cs)
                coordsets.append(cs)
        for cs in coordsets:
            jreqs.append(("joined", dict(m=md, coords=cs)))
            jreal.append(("joined", pat, cs, _try(lambda: m.joined_segments([tuple(c) for c in cs]), _mapd)))
        for k in (1, 2, 3):
            jreqs.append(("mul", dict(m=md, k=k)))
            jreal.append(("mul", pat, k, _try(lambda: m * k, _mapd)))
        from cogent3.core.location import IndelMap, gap_coords_to_map

        locs = [[int(s.start), int(s.end)] for s in m.nongap()]
        jreqs.append(("from_segments", dict(locs=locs, n=n)))
        jreal.append(("from_segments", pat, locs, _try(lambda: IndelMap.from_aligned_segments([tuple(l) for l in locs], n), _mapd)))
        items = [[int(a), int(b)] for a, b in m.get_gap_coordinates()]
        rng.shuffle(items)
        jreqs.append(("gap_coords", dict(items=items, n=int(m.parent_length))))
        jreal.append(("gap_coords", pat, items, _try(lambda: gap_coords_to_map(dict((a, b) for a, b in items), int(m.parent_length)), _mapd)))
    # malformed from_aligned_segments / constructor stream
    for _ in range(ctx.budget(200, 1000)):
        n = rng.randint(0, 8)
        k = rng.randint(0, 3)
        c = sorted(rng.randint(0, n + 2) for _ in range(2 * k))
        locs = [[c[2 * i], c[2 * i + 1]] for i in range(k)]
        jreqs.append(("from_segments", dict(locs=locs, n=n)))
        jreal.append(("from_segments", "malformed", locs, _try(lambda: IndelMap.from_aligned_segments([tuple(l) for l in locs], n), _mapd)))
        gp = sorted(rng.sample(range(0, 8), rng.randint(0, 3)))
        cum = sorted(rng.sample(range(1, 9), rng.choice([len(gp), len(gp), max(len(gp) - 1, 0), len(gp) + 1])))
        pl = rng.randint(0, 8)
        jreqs.append(("map", dict(gp=gp, cum=cum, pl=pl)))
        r = _try(lambda: _mk_real(dict(gp=gp, cum=cum, pl=pl)), lambda m: {"m": _mapd(m), "len": len(m)})
        jreal.append(("map", "malformed", [gp, cum, pl], r))
    for (cmd, rq), (op, pat, arg, real), model in zip(jreqs, jreal, drv.batch(jreqs)):
        out["evaluations"] += 1
        bump(out, "other_op", op)
        if op == "map" and "err" not in model:
            model = {"m": model["m"], "len": model["len"]}
        if model != real:
            add_failure(out, "corr", f"{op} differs", dict(op=op, layout=pat, arg=arg), model, real, confirmed=False)
        elif "err" not in real and real.get("gp"):
            out["nontrivial"].add((op, pat, str(arg)))
        elif "err" in real:
            bump(out, "other_err", f"{op}:{real['err']}")

    # ---- 5. coords helpers -----------------------------------------------------
    from cogent3.core import location as loc
    import numpy

    creqs, creal = [], []
    for a1, a2, b1, b2 in itertools.product(range(0, 5), repeat=4):
        creqs.append(("span_and_span", dict(a1=a1, a2=a2, b1=b1, b2=b2)))
        r = _try(lambda: loc.span_and_span((a1, a2), (b1, b2)), lambda t: None if t[0] is None else [int(t[0]), int(t[1])])
        creal.append(r)

    def rand_coords():
        k = rng.randint(0, 4)
        if rng.random() < 0.85:
            c = sorted(rng.sample(range(0, 14), 2 * k))
        else:
            c = [rng.randint(0, 10) for _ in range(2 * k)]
        return [[c[2 * i], c[2 * i + 1]] for i in range(k)]

    for _ in range(ctx.budget(1500, 15000)):
        a, b = rand_coords(), rand_coords()
        creqs.append(("coords_ops", dict(a=a, b=b)))
        A = numpy.array(a, dtype=int).reshape((len(a), 2))
        B = numpy.array(b, dtype=int).reshape((len(b), 2))
        creal.append(
            dict(
                minus=_try(lambda: loc.coords_minus_coords(A, B), lambda r: [[int(x), int(y)] for x, y in r.tolist()]),
                inter=_try(lambda: loc.coords_intersect(A, B), lambda r: [[int(x), int(y)] for x, y in r]),
            )
        )
    for (cmd, rq), real, model in zip(creqs, creal, drv.batch(creqs)):
        out["evaluations"] += 1
        bump(out, "other_op", cmd)
        if model != real:
            add_failure(out, "corr", f"{cmd} differs", rq, model, real, confirmed=False)
        elif real and not (isinstance(real, dict) and "err" in real):
            out["nontrivial"].add((cmd, str(rq)))

    # ---- 6. FeatureMap algebra ---------------------------------------------------
    _fmap_correspondence(ctx, out, rng)
    # ---- 6b. span predicates / slicing / scaling / mirroring, FeatureMap + * / without_gaps get_covering_span
    from .c08_ops import ops_correspondence

    ops_correspondence(ctx, out, ctx.subrng("ops"))

    # ---- 7. the Lean spec functions against CPython string semantics -------------
    sreqs, swant = [], []
    for n in range(0, 6):
        for bits in itertools.product("01", repeat=n):
            pat = "".join(bits)
            for a, b in itertools.product([None] + list(range(-n - 1, n + 2)), repeat=2):
                if n >= 4 and rng.random() < 0.7:
                    continue
                sreqs.append(("spec", dict(s=pat, a=a, b=b)))
                swant.append(_spec_record(pat, a, b))
    for (cmd, rq), want, got in zip(sreqs, swant, drv.batch(sreqs)):
        out["evaluations"] += 1
        if want != got:
            add_failure(out, "corr", "Spec/Gapped.lean differs from CPython string semantics", rq, want, got, confirmed=False)
    bump(out, "other_op", "spec_vs_cpython")
    return out


def _gapped_of(pat):
    k = 0
    r = []
    for c in pat:
        if c == "1":
            r.append(None)
        else:
            r.append(k)
            k += 1
    return r


def _spec_record(pat, a, b):
    """what plain python says about the pattern (the oracle for Spec/Gapped.lean)"""
    n = len(pat)
    sub = pat[a:b]
    runs = []
    i = 0
    while i < n:
        if pat[i] == "1":
            j = i
            while j < n and pat[j] == "1":
                j += 1
            runs.append([i, j - i])
            i = j
        else:
            i += 1
    return dict(
        slice=_gapped_of(sub),
        seq_index=[pat[:i].count("0") for i in range(n + 1)],
        align_index=[i for i, c in enumerate(pat) if c == "0"],
        reversed=_gapped_of(pat[::-1]),
        runs=runs,
        concat=_gapped_of(pat + pat[::-1]),
        scaled=[_gapped_of("".join(c * k for c in pat)) for k in range(4)],
        # gap columns standing immediately before residue k (k = number of residues: the trailing run; beyond: 0)
        gaps_before=[_gaps_before(pat, k) for k in range(pat.count("0") + 2)],
    )


def _gaps_before(pat, k):
    """by the regular expression reading of the string: the gap run that ends where residue k starts"""
    import re

    pos = [i for i, c in enumerate(pat) if c == "0"]
    if k > len(pos):
        return 0
    end = pos[k] if k < len(pos) else len(pat)
    return len(re.search("1*$", pat[:end]).group(0))


# ---- feature maps ------------------------------------------------------------
def _fm_real(spans, pl):
    from cogent3.core.location import FeatureMap, LostSpan, Span

    sp = []
    for s in spans:
        if len(s) == 1:
            sp.append(LostSpan(s[0]))
        else:
            sp.append(Span(s[0], s[1], reverse=bool(s[2]) if len(s) > 2 else False))
    return FeatureMap(spans=sp, parent_length=pl)


def _fspd(s):
    return [int(s.length)] if s.lost else [int(s.start), int(s.end), bool(s.reverse)]


def _fmd(m):
    return {"spans": [_fspd(s) for s in m.spans], "pl": int(m.parent_length)}


def _cover_real(m):
    r = []
    for s in m.spans:
        if s.lost:
            r += [None] * s.length
        else:
            xs = list(range(s.start, s.end))
            r += xs[::-1] if s.reverse else xs
    return r


FM_KINDS = ["disjoint"] * 9 + ["minus"] * 3 + ["mixed"] * 3 + ["any"] * 5


def _rand_index(rng, L, outside=False):
    """spans of an index map in the coordinates of a map of length L: forward / reverse (negative strand) spans,
    ascending, descending or unordered, sometimes poking outside [0, L] (a poking span still touches [0, L]),
    sometimes with a lost span; outside=True: spans lying entirely outside [0, L] are kept (a class of its own)"""
    k = rng.randint(1, 3)
    lo = -rng.randint(1, 3 + 3 * outside) if rng.random() < 0.15 + 0.5 * outside else 0
    hi = L + (rng.randint(1, 3 + 3 * outside) if rng.random() < 0.15 + 0.5 * outside else 0)
    if rng.random() < 0.75:
        c = sorted(rng.randint(lo, hi) for _ in range(2 * k))
        pairs = [[c[2 * j], c[2 * j + 1]] for j in range(k)]
    else:
        pairs = [sorted((rng.randint(lo, hi), rng.randint(lo, hi))) for _ in range(k)]
    prev = rng.choice([0.0, 0.0, 0.15, 0.5, 1.0])
    ospans = [[a, b, rng.random() < prev] for a, b in pairs if outside or (b >= 0 and a <= L)]
    if rng.random() < 0.3:
        ospans.reverse()
    if rng.random() < 0.2:
        ospans.insert(rng.randint(0, len(ospans)), [rng.randint(1, 2)])
    return ospans


def _index_class(ospans, L):
    real = [s for s in ospans if len(s) > 1]
    if any(s[1] < 0 or s[0] > L for s in real):
        # an index span (also a zero-length one) strictly outside the map, not merely touching 0 / len: a class of its own
        return "index-span-outside"
    c = []
    if any(s[2] for s in real):
        c.append("idx-rev")
    if any(s[0] < 0 or s[1] > L for s in real):
        c.append("idx-poke")
    if any(len(s) == 1 for s in ospans):
        c.append("idx-lost")
    return "+".join(c) or "idx-plain"


def _rand_fm(rng, kind):
    pl = rng.randint(0, 14)
    spans = []
    if kind in ("disjoint", "minus", "mixed"):
        k = rng.randint(0, 3)
        c = sorted(rng.sample(range(0, pl + 1), min(2 * k, (pl + 1) // 2 * 2)))
        prev = {"disjoint": 0.15, "minus": 1.0, "mixed": 0.5}[kind]
        for i in range(len(c) // 2):
            spans.append([c[2 * i], c[2 * i + 1], rng.random() < prev])
            if rng.random() < 0.25:
                spans.append([rng.randint(1, 3)])
        if rng.random() < 0.2:
            spans.insert(0, [rng.randint(1, 2)])
        if kind == "minus" or (kind == "mixed" and rng.random() < 0.5):
            # a feature on the negative strand lists its spans from high to low coordinates
            spans.reverse()
    else:
        for _ in range(rng.randint(0, 4)):
            if rng.random() < 0.2:
                spans.append([rng.randint(0, 3)])
            else:
                a, b = sorted((rng.randint(0, pl), rng.randint(0, pl)))
                spans.append([a, b, rng.random() < 0.2])
    return spans, pl


def _fmap_record(m, o=None):
    r = dict(
        len=len(m),
        covered=_try(lambda: m.covered(), _fmd),
        inverse=_try(lambda: m.inverse(), _fmd),
        gaps=_try(lambda: m.gaps(), _fmd),
        shadow=_try(lambda: m.shadow(), _fmd),
        nongap=_try(lambda: m.nongap(), lambda t: [_fspd(s) for s in t]),
        rev=_try(lambda: m.nucleic_reversed(), _fmd),
        cover=_cover_real(m),
    )
    if o is not None:
        r["getitem"] = _try(lambda: m[o], _fmd)
    return r


def _fmap_correspondence(ctx, out, rng):
    from cogent3.core.location import FeatureMap

    reqs, reals = [], []
    for i in range(ctx.budget(2500, 25000)):
        kind = rng.choice(FM_KINDS)
        spans, pl = _rand_fm(rng, kind)
        try:
            m = _fm_real(spans, pl)
        except AssertionError:
            continue
        rq = dict(m=dict(spans=spans, pl=pl))
        o = None
        if rng.random() < 0.7:
            # an index map in the coordinates of m (reverse spans, any order, sometimes poking outside; one time in five
            # spans lying ENTIRELY outside [0, len] are kept: the `zlo > zhi` branch of remap_with repaired in b86b50a25;
            # an empty m is indexed too: the IndexError of `offsets[-1]`)
            L = len(m)
            ospans = _rand_index(rng, L, outside=rng.random() < 0.2)
            try:
                o = _fm_real(ospans, L)
                rq["o"] = dict(spans=ospans, pl=L)
                bump(out, "fmap_index_class", _index_class(ospans, L))
            except AssertionError:
                o = None
        bump(out, "fmap_kind_corr", kind + (":has-reverse" if any(len(s) > 1 and s[2] for s in spans) else ""))
        reqs.append(("fmap", rq))
        reals.append(_fmap_record(m, o))
    # from_locations incl. malformed
    for i in range(ctx.budget(800, 8000)):
        pl = rng.randint(0, 10)
        k = rng.randint(0, 3)
        if rng.random() < 0.8:
            c = sorted(rng.randint(0, pl + 2) for _ in range(2 * k))
        else:
            c = [rng.randint(-1, pl + 2) for _ in range(2 * k)]
        locs = [[c[2 * j], c[2 * j + 1]] for j in range(k)]
        reqs.append(("from_locations", dict(locs=locs, pl=pl)))
        reals.append(_try(lambda: FeatureMap.from_locations(locations=[tuple(l) for l in locs], parent_length=pl), _fmd))
    for (cmd, rq), real, model in zip(reqs, reals, ctx.driver.batch(reqs)):
        out["evaluations"] += 1
        bump(out, "fmap_op", cmd)
        if cmd == "from_locations":
            if model != real:
                add_failure(out, "corr", "FeatureMap.from_locations differs", rq, model, real, confirmed=False)
            elif "err" in real:
                bump(out, "fmap_err", "from_locations:" + real["err"])
            continue
        if "error" in model:
            add_failure(out, "corr", "driver error", rq, model, None, confirmed=False)
            continue
        for k in real:
            if model.get(k) != real[k]:
                add_failure(out, "corr", f"FeatureMap.{k} differs", dict(rq, field=k), model.get(k), real[k], confirmed=False)
            elif isinstance(real[k], dict) and "err" in real[k]:
                bump(out, "fmap_err", f"{k}:{real[k]['err']}")
            elif real[k]:
                out["nontrivial"].add(("fmap", k, str(rq)))


# --------------------------------------------------------------------------
# spec-level differential: the REAL maps against plain gapped strings
# --------------------------------------------------------------------------
def _canon(s):
    """(gap_pos, cum, parent_length) of a gapped string, by scanning the string"""
    gp, cum = [], []
    k = tot = 0
    i, n = 0, len(s)
    while i < n:
        if s[i] == "-":
            j = i
            while j < n and s[j] == "-":
                j += 1
            tot += j - i
            gp.append(k)
            cum.append(tot)
            i = j
        else:
            k += 1
            i += 1
    return {"gp": gp, "cum": cum, "pl": k}


def _string_of(m, seq):
    """the gapped string a (map, ungapped residues) pair denotes, via the public spans"""
    r = []
    for sp in m.spans:
        if sp.lost:
            r.append("-" * sp.length)
        else:
            r.append(seq[sp.start : sp.end])
    return "".join(r)


def _within_parent(m):
    pl = int(m.parent_length)
    return all(0 <= int(p) <= pl for p in m.gap_pos) and all(
        sp.lost or (0 <= sp.start <= sp.end <= pl) for sp in m.spans
    )


def _sem_diff(r, want_s):
    """None if the map r (a dict {"err":..} or a real IndelMap) denotes the gapped string want_s:
    same length, same residue count, spans rebuild the string, every index conversion agrees with
    scanning want_s.  Representation (duplicate gap positions etc.) is not compared."""
    if isinstance(r, dict):
        return r
    n = len(want_s)
    resid = want_s.replace("-", "")
    try:
        if len(r) != n:
            return f"len {len(r)} != {n}"
        if int(r.parent_length) != len(resid):
            return f"parent_length {int(r.parent_length)} != {len(resid)}"
        got = _string_of(r, resid)
        if got != want_s:
            return f"spans rebuild {got!r}"
        if not _within_parent(r):
            return "coordinates outside parent"
        # the gap runs it reports are the gap runs of the string (a zero-length or split run is not one)
        runs = [[a, b] for a, b in _gap_runs("".join("1" if c == "-" else "0" for c in want_s))]
        got_runs = [[int(a), int(b)] for a, b in r.get_gap_align_coordinates().tolist()]
        if got_runs != runs:
            return f"get_gap_align_coordinates {got_runs} != gap runs of the string"
        for i in range(n + 1):
            if int(r.get_seq_index(i)) != len(want_s[:i].replace("-", "")):
                return f"get_seq_index({i})"
        cols = [i for i, c in enumerate(want_s) if c != "-"]
        for k in range(len(cols)):
            if int(r.get_align_index(k)) != cols[k]:
                return f"get_align_index({k})"
            if int(r.get_align_index(k, slice_stop=True)) != (cols[k - 1] + 1 if k else 0):
                return f"get_align_index({k}, slice_stop=True)"
    except CATCH as e:
        return f"observer raised {type(e).__name__}"
    return None


def _result_ok(out, f, want_s, what, sig, inp):
    """run f() -> IndelMap and compare with the map of want_s: canonical form first (cheap), meaning second"""
    try:
        r = f()
    except CATCH as e:
        add_failure(out, "spec", what + " (raised)", inp, _canon(want_s), _err(e), sig=sig + ":raise:" + type(e).__name__)
        return False
    want = _canon(want_s)
    got = _mapd(r)
    if got == want:
        return True
    d = _sem_diff(r, want_s)
    if d is None:
        bump(out, "noncanonical_but_equivalent", sig)
        return True
    add_failure(out, "spec", what, dict(inp, why=d), want, got, sig=sig)
    return False


def _check_layout(out, s, ivs, deep):
    """all C08 clauses about one gapped string s; ivs = intervals to slice by"""
    import cogent3

    n = len(s)
    m, seq = cogent3.make_seq(s, moltype="dna").parse_out_gaps()
    useq = str(seq)
    inp = dict(s=s)
    lc = _layout_class("".join("1" if c == "-" else "0" for c in s))

    def fail(what, sig, expected, got, **extra):
        add_failure(out, "spec", what, dict(inp, **extra), expected, got, sig=sig)

    out["evaluations"] += 1
    if len(m) != n:
        fail("len(map) != len(string)", "len", n, len(m))
    if useq != s.replace("-", ""):
        fail("ungapped sequence differs", "degap", s.replace("-", ""), useq)
    if _string_of(m, useq) != s or str(seq.gapped_by_map(m)) != s:
        fail("spans do not rebuild the string", "spans", s, _string_of(m, useq))
    if _mapd(m) != _canon(s):
        fail("map of string is not canonical (gap_pos, cum, parent_length)", "canon", _canon(s), _mapd(m))
    # gap runs and ungapped segments, read directly from the string
    runs, segs, sq = [], [], []
    i = k = 0
    while i < n:
        j = i
        while j < n and (s[j] == "-") == (s[i] == "-"):
            j += 1
        if s[i] == "-":
            runs.append([i, j])
        else:
            segs.append([i, j])
            sq.append([k, k + j - i])
            k += j - i
        i = j
    got = m.get_gap_align_coordinates().tolist()
    if got != runs:
        fail("get_gap_align_coordinates differs from the gap runs of the string", "gap_align_coords", runs, got)
    got = [[int(a), int(a2)] for a, a2 in ((sp.start, sp.end) for sp in m.nongap())]
    if got != segs:
        fail("nongap() differs from the ungapped segments of the string", "nongap", segs, got)
    got = [[int(a), int(b)] for a, b in m.get_gap_coordinates()]
    want = [[s[:a].count("A") + s[:a].count("C") + s[:a].count("G") + s[:a].count("T"), b - a] for a, b in runs]
    if got != want:
        fail("get_gap_coordinates differs", "gap_coords", want, got)
    # ungapped segments in sequence coordinates (zero-length entries are tolerated on both sides)
    got = [[int(a), int(b)] for a, b in m.get_coordinates() if a != b]
    if got != sq:
        fail(
            "get_coordinates() differs from the ungapped segments (sequence coordinates) of the string",
            f"get_coordinates:gaps{'>=2' if len(runs) >= 2 else len(runs)}:{'residues-after-last-gap' if n and s[-1] != '-' else 'trailing-gap'}",
            sq, got,
        )
    # index conversion by scanning
    for i in range(-n, n + 1):
        want = len(s[: (i if i >= 0 else n + i)].replace("-", ""))
        got = _try(lambda: m.get_seq_index(i), int)
        out["evaluations"] += 1
        if got != want:
            fail("get_seq_index differs from counting residues", "seq_index", want, got, index=i)
    cols = [i for i, c in enumerate(s) if c != "-"]
    for k in range(len(cols)):
        out["evaluations"] += 1
        got = _try(lambda: m.get_align_index(k), int)
        if got != cols[k]:
            fail("get_align_index differs from the column of the residue", "align_index", cols[k], got, index=k)
        if k:
            got = _try(lambda: m.get_align_index(k - len(cols)), int)
            if got != cols[k]:
                fail("get_align_index(negative) differs", "align_index_neg", cols[k], got, index=k - len(cols))
    for k in range(len(cols) + 1):
        want = cols[k - 1] + 1 if k else 0
        got = _try(lambda: m.get_align_index(k, slice_stop=True), int)
        if k == 0 and got != 0:
            # slice_stop at 0 with a leading gap: the code answers the start of the gap run = 0
            pass
        if got != want:
            fail("get_align_index(slice_stop=True) is not one past the previous residue's column", "align_index_stop", want, got, index=k)
        if 0 < k < len(cols):
            # the same residue addressed from the end
            got = _try(lambda: m.get_align_index(k - len(cols), slice_stop=True), int)
            out["evaluations"] += 1
            if got != want:
                fail("get_align_index(negative, slice_stop=True) differs", "align_index_stop_neg", want, got, index=k - len(cols))
    # an index below -len is refused loudly, as s[-len-1] is
    for st in (False, True):
        got = _try(lambda: m.get_align_index(-len(cols) - 1, slice_stop=st), int)
        if got != {"err": "IndexError"}:
            fail("get_align_index(-parent_length-1) does not raise IndexError", "align_index_neg_oob", "IndexError", got, index=-len(cols) - 1)
    got = _try(lambda: m.get_seq_index(-n - 1), int)
    if got != {"err": "IndexError"}:
        fail("get_seq_index(-len-1) does not raise IndexError", "seq_index_neg_oob", "IndexError", got, index=-n - 1)
    # construction from the ungapped segments / the gap runs read off the string
    from cogent3.core.location import IndelMap, gap_coords_to_map

    seg_cls = ("empty-list:" + ("empty-string" if not n else "all-gap")) if not segs else (
        "single-full-segment" if segs == [[0, n]] else lc)
    for form in ("tuples", "lists"):
        locs = [tuple(x) for x in segs] if form == "tuples" else [list(x) for x in segs]
        out["evaluations"] += 1
        _result_ok(out, lambda: IndelMap.from_aligned_segments(locs, n), s,
                   "from_aligned_segments(ungapped segments of the string) is not the map of the string",
                   "from_aligned_segments:" + seg_cls, dict(inp, segments=[list(x) for x in segs]))
    for order in ("ascending", "descending"):
        # a dict has no order of its own: the insertion order must not matter
        gaps = {}
        for a, b in (runs if order == "ascending" else runs[::-1]):
            gaps[len(s[:a].replace("-", ""))] = b - a
        out["evaluations"] += 1
        _result_ok(out, lambda: gap_coords_to_map(gaps, len(useq)), s,
                   "gap_coords_to_map(gap runs of the string) is not the map of the string", "gap_coords_to_map:" + lc,
                   dict(inp, gaps=list(gaps.items())))
    bump(out, "spec_from_segments", seg_cls)
    # reversal
    rlc = _layout_class("".join("1" if c == "-" else "0" for c in s[::-1]))
    _result_ok(out, lambda: m.nucleic_reversed(), s[::-1], "nucleic_reversed differs from the map of the reversed string", "reversed:" + lc, inp)
    rev = _try(lambda: m.nucleic_reversed())
    # reversed-then-sliced and sliced-then-reversed
    for a, b in (ivs if (n <= 4 or not deep) else ivs[:: max(len(ivs) // 14, 1)]):
        if (a is not None and a < -n) or (b is not None and b < -n):
            continue
        out["evaluations"] += 2
        ic = _interval_class("".join("1" if c == "-" else "0" for c in s), a, b)
        bump(out, "spec_rev_slice", ic if n > 8 else "short")
        if not isinstance(rev, dict):
            _result_ok(out, lambda: rev[a:b], s[::-1][a:b], "nucleic_reversed()[a:b] is not the map of s[::-1][a:b]",
                       "reversed-then-sliced:" + rlc, dict(inp, a=a, b=b, mode="reversed-then-sliced"))
        _result_ok(out, lambda: m[a:b].nucleic_reversed(), s[a:b][::-1], "m[a:b].nucleic_reversed() is not the map of s[a:b][::-1]",
                   "sliced-then-reversed:" + lc, dict(inp, a=a, b=b, mode="sliced-then-reversed"))
    # slicing by every interval
    for a, b in ivs:
        out["evaluations"] += 1
        sub = s[a:b]
        want = _canon(sub)
        try:
            r = m[a:b]
        except IndexError:
            # loud refusal of a negative index beyond -len (accepted, see ASSUMPTIONS)
            if (a is not None and a < -n) or (b is not None and b < -n):
                bump(out, "spec_getitem", "IndexError(neg-oob)")
                continue
            fail("m[a:b] raised IndexError", "getitem-raise", want, "IndexError", a=a, b=b)
            continue
        except CATCH as e:
            fail("m[a:b] raised", "getitem-raise", want, type(e).__name__, a=a, b=b)
            continue
        got = _mapd(r)
        if got != want:
            d = _sem_diff(r, sub)
            if d is None:
                bump(out, "noncanonical_but_equivalent", "getitem")
                continue
            beyond = (b is not None and b > n) or (a is not None and a > n)
            ic = _interval_class("".join("1" if c == "-" else "0" for c in s), a, b)
            fail(
                "m[a:b] is not the map of s[a:b]",
                f"getitem:{'stop-beyond-len' if beyond else 'in-range:' + ic + ':' + lc}",
                want, got, a=a, b=b, why=d,
            )
        else:
            bump(out, "spec_getitem", "ok")
            if n > 8:
                bump(out, "spec_interval_class_long", _interval_class("".join("1" if c == "-" else "0" for c in s), a, b))
            if want["gp"]:
                out["nontrivial"].add(("get", s, a, b))
    bump(out, "spec_layout_class", lc)
    # the same string through the other constructors / converters (from_spans, to_feature_map, termini, rich dict, ...)
    from .c08_ops import check_indel_extras

    check_indel_extras(out, s, m, useq, deep)
    return m, useq


def _spec_binary(out, s, t, ma, mb):
    """binary clauses on two gapped strings"""
    import cogent3

    inp = dict(s=s, t=t)

    def fail(what, sig, expected, got):
        add_failure(out, "spec", what, inp, expected, got, sig=sig)

    out["evaluations"] += 1
    if len(s) == len(t):
        from .c08_ops import check_binary_array_forms

        check_binary_array_forms(out, s, t, ma, mb)
    ends_gap = s.endswith("-") and t.startswith("-")
    _result_ok(out, lambda: ma + mb, s + t, "a + b is not the map of the concatenated string",
               "add:" + ("gap-meets-gap" if ends_gap else "other"), inp)
    if len(s) == len(t):
        both = [i for i in range(len(s)) if s[i] == "-" and t[i] == "-"]
        want = "".join(c for i, c in enumerate(s) if i not in both)
        _result_ok(out, lambda: ma.minus_gaps(mb), want,
                   "minus_gaps is not the map of the string without the shared gap columns", "minus_gaps", inp)
        runs = []
        for i in both:
            if runs and runs[-1][1] == i:
                runs[-1][1] = i + 1
            else:
                runs.append([i, i + 1])
        got = _try(lambda: ma.shared_gaps(mb), lambda r: [[int(x), int(y)] for x, y in r.tolist()])
        if got != runs:
            fail("shared_gaps is not the runs of columns gapped in both strings", "shared_gaps", runs, got)
    if len(s.replace("-", "")) == len(t.replace("-", "")):
        # same underlying sequence: merged map has, before each residue, the gaps of both
        def gaps_before(x):
            res, c = [], 0
            for ch in x:
                if ch == "-":
                    c += 1
                else:
                    res.append(c)
                    c = 0
            return res + [c]

        ga, gb = gaps_before(s), gaps_before(t)
        resid = s.replace("-", "")
        want = "".join("-" * (ga[i] + gb[i]) + (resid[i] if i < len(resid) else "") for i in range(len(ga)))
        nog = "no-gaps-operand" if ("-" not in s or "-" not in t) else "both-gapped"
        _result_ok(out, lambda: ma.merge_maps(mb), want, "merge_maps is not the map carrying both gap sets",
                   "merge_maps:" + nog, inp)


def _junction(s, t):
    if not s or not t:
        return "empty"
    return ("gap" if s[-1] == "-" else "res") + "|" + ("gap" if t[0] == "-" else "res")


def _spec_add3(out, s, t, u, ma, mb, mc):
    """chains of +: (a + b) + c and a + (b + c) are both the map of the concatenated string"""
    inp = dict(s=s, t=t, u=u)
    out["evaluations"] += 2
    mid = "mid-all-gap" if t and not t.replace("-", "") else "mid-mixed"
    sig = f"add3:{_junction(s, t)}:{_junction(t, u)}:{mid}"
    bump(out, "spec_add3", sig)
    _result_ok(out, lambda: (ma + mb) + mc, s + t + u, "(a + b) + c is not the map of the concatenated string", sig + ":left", inp)
    _result_ok(out, lambda: ma + (mb + mc), s + t + u, "a + (b + c) is not the map of the concatenated string", sig + ":right", inp)


def _spec_fmap(out, rng, count):
    """feature-map clauses: set-theoretic meaning on random maps (forward, negative-strand and mixed span lists)"""
    from .c08_ops import check_fm_ops, check_fmap_subscripts, check_span_ops

    for _ in range(count):
        kind = rng.choice(FM_KINDS)
        spans, pl = _rand_fm(rng, kind)
        try:
            m = _fm_real(spans, pl)
        except AssertionError:
            continue
        L = len(m)
        indexes = []
        if L and spans:
            indexes.append(dict(spans=_rand_index(rng, L)))
            if rng.random() < 0.5:
                indexes.append(dict(spans=_rand_index(rng, L, outside=rng.random() < 0.1)))
            vals = [None, 0, L, L + 1, -1, -L] + [rng.randint(-L - 1, L + 2) for _ in range(3)]
            indexes.append(dict(slice=[rng.choice(vals), rng.choice(vals)]))
        bump(out, "fmap_kind", kind)
        _check_fmap(out, spans, pl, indexes)
        # + * / without_gaps get_covering_span of the map; predicates / slicing / scaling / mirroring of one of its spans
        other = [x for x in _rand_fm(rng, rng.choice(FM_KINDS))[0] if len(x) == 1 or x[1] <= pl]
        check_fm_ops(out, spans, pl, other, _cover_real)
        check_fmap_subscripts(out, spans, pl, _cover_real, rng)
        real = [s for s in spans if len(s) > 1]
        if real and rng.random() < 0.15:
            s, e, r = rng.choice(real)
            os_ = rng.randint(max(s - 2, 0), e + 1)
            oe = os_ + rng.choice([0, 1, 2, e - s, e - s + 1])
            check_span_ops(out, s, e, r, os_, oe, sorted({s - 1, s, s + 1, e - 1, e, e + 1, (s + e) // 2}))
            bump(out, "span_ops", ("rev" if r else "fwd") + (":empty" if s == e else ""))


def _check_fmap(out, spans, pl, indexes):
    """every feature-map clause about one span list; indexes = index maps / slices to compose with"""
    from cogent3.core.location import FeatureMap

    if True:
        m = _fm_real(spans, pl)
        inp = dict(spans=spans, pl=pl)
        out["evaluations"] += 1
        cov = _cover_real(m)
        pos = sorted({p for p in cov if p is not None})
        has_rev = any(len(s) > 1 and s[2] for s in spans)
        rv = "rev-spans" if has_rev else "fwd-spans"

        def fail(what, sig, expected, got):
            add_failure(out, "spec", what, inp, expected, got, sig=sig)

        # covered = union
        try:
            c = m.covered()
            cc = _cover_real(c)
            cs = [(s.start, s.end) for s in c.spans if not s.lost]
            if sorted(set(cc)) != pos or cc != sorted(cc) or len(set(cc)) != len(cc):
                fail("covered() is not the sorted union of the spans", "fmap-covered:" + rv, pos, cc)
            if any(cs[i][1] >= cs[i + 1][0] for i in range(len(cs) - 1)):
                fail("covered() spans are not maximal/disjoint", "fmap-covered-maximal:" + rv, None, cs)
        except CATCH as e:
            fail("covered() raised", "fmap-covered-raise", pos, type(e).__name__)
        # shadow = complement (defined when the map is invertible: non-overlapping)
        ivs_ = sorted((s[0], s[1]) for s in spans if len(s) > 1)
        overlapping = any(ivs_[i + 1][0] < ivs_[i][1] for i in range(len(ivs_) - 1))
        try:
            sh = m.shadow()
            sc = _cover_real(sh)
            want = [p for p in range(pl) if p not in set(pos)]
            if sc != want:
                fail("shadow() is not the complement of the covered positions", "fmap-shadow:" + rv, want, sc)
        except ValueError:
            if not overlapping:
                fail("shadow() raised on a non-overlapping map", "fmap-shadow-raise:" + rv, None, "ValueError")
        # inverse
        try:
            inv = m.inverse()
            ic = _cover_real(inv)
            if len(ic) != max(pl, max(pos) + 1 if pos else 0) or inv.parent_length != len(m):
                fail("inverse() has wrong length / parent_length", "fmap-inverse-len:" + rv, [pl, len(m)], [len(ic), inv.parent_length])
            else:
                for i, p in enumerate(cov):
                    if p is not None and ic[p] != i:
                        fail("inverse() does not send parent position back to the map position", "fmap-inverse:" + rv, i, ic[p])
                        break
                if sum(1 for x in ic if x is not None) != len(pos):
                    fail("inverse() covers positions the map does not", "fmap-inverse-extra:" + rv, len(pos), ic)
            if not overlapping:
                back = _cover_real(inv.inverse())
                # involutive on the residues it keeps: trailing/leading lost spans of m are not recoverable
                if [x for x in back if x is not None] != [x for x in cov if x is not None]:
                    fail("inverse().inverse() loses residues", "fmap-inverse-involutive:" + rv, cov, back)
        except ValueError:
            if not overlapping:
                fail("inverse() raised on a non-overlapping map", "fmap-inverse-raise:" + rv, None, "ValueError")
        # reversal
        try:
            r = m.nucleic_reversed()
            want = [None if p is None else pl - 1 - p for p in cov[::-1]]
            got = _cover_real(r)
            # the reverse flags are discarded by design: every span of the result is read forward; compare span by span
            # as position sets, and exactly when the map has no reverse span
            wspans, i = [], 0
            for s in list(m.spans)[::-1]:
                seg = want[i : i + s.length]
                wspans.append(seg if s.lost else sorted(seg))
                i += s.length
            gspans, i = [], 0
            for s in r.spans:
                gspans.append(got[i : i + s.length])
                i += s.length
            if [x for x in gspans if x] != [x for x in wspans if x]:
                fail("nucleic_reversed() is not the mirrored map", "fmap-reversed:" + rv, wspans, gspans)
            if r.parent_length != pl:
                fail("nucleic_reversed() changes parent_length", "fmap-reversed-pl", pl, r.parent_length)
        except AssertionError:
            if all(len(s) == 1 or s[1] <= pl for s in spans):
                fail("nucleic_reversed() raised", "fmap-reversed-raise", None, "AssertionError")
        # composition
        L = len(m)
        for ix in indexes:
            out["evaluations"] += 1
            if "slice" in ix:
                a, b = ix["slice"]
                want = cov[a:b]
                try:
                    got = _cover_real(m[a:b])
                    if got != want:
                        add_failure(out, "spec", "m[a:b] is not the slice of the positions the map covers", dict(inp, index=ix), want, got,
                                    sig="fmap-getitem-slice:" + rv)
                    elif want:
                        out["nontrivial"].add(("fmap-slice", str(spans), a, b))
                except CATCH as e:
                    add_failure(out, "spec", "m[a:b] raised", dict(inp, index=ix), want, type(e).__name__, sig="fmap-getitem-slice-raise")
                continue
            ospans = ix["spans"]
            try:
                o = _fm_real(ospans, L)
            except AssertionError:
                continue
            want = [None if (j is None or j < 0 or j >= L) else cov[j] for j in _cover_real(o)]
            icl = _index_class(ospans, L)
            bump(out, "fmap_getitem_class", icl + ":" + rv)
            # an index span entirely outside the map has one signature whatever the strand
            cl = icl if icl == "index-span-outside" else f"{icl}:{rv}"
            try:
                r = m[o]
                got = _cover_real(r)
                if got != want or len(r) != len(o):
                    add_failure(out, "spec", "m[n] is not the composition of the two maps (position by position, same length as n)",
                                dict(inp, index=ix), dict(len=len(o), cover=want), dict(len=len(r), cover=got), sig=f"fmap-getitem:{cl}")
                elif any(x is not None for x in want):
                    out["nontrivial"].add(("fmap-getitem", str(spans), str(ospans)))
            except CATCH as e:
                add_failure(out, "spec", "m[n] raised", dict(inp, index=ix), want, type(e).__name__, sig=f"fmap-getitem-raise:{cl}")
        # no coordinates outside the parent
        for name, f in (("covered", m.covered), ("nucleic_reversed", m.nucleic_reversed), ("gaps", m.gaps)):
            try:
                r = f()
            except CATCH:
                continue
            pl2 = r.parent_length
            if any((not s.lost) and not (0 <= s.start <= s.end <= pl2) for s in r.spans):
                fail(f"{name}() yields coordinates outside the parent", f"fmap-bounds:{name}", pl2, _fmd(r))
        bump(out, "fmap_overlap", "overlapping" if overlapping else "disjoint")
        bump(out, "fmap_strand", rv)


def _sorted_forward(spans):
    real = [s for s in spans if len(s) > 1]
    return all(not s[2] for s in real) and all(real[i][1] <= real[i + 1][0] for i in range(len(real) - 1))


FEAT_COMP = str.maketrans("ACGT-", "TGCA-")


def _spec_from_locations(out, rng, count):
    """FeatureMap.from_locations with locations reaching beyond the parent: the part inside the parent is a span, the
    overhang a lost span of its length; no coordinate outside the parent"""
    from cogent3.core.location import FeatureMap

    for _ in range(count):
        pl = rng.randint(0, 12)
        k = rng.randint(1, 3)
        c = sorted(rng.randint(0, pl + 3) for _ in range(2 * k))
        locs = [(c[2 * j], c[2 * j + 1]) for j in range(k)]
        if any(a > pl for a, _ in locs):
            continue
        out["evaluations"] += 1
        inp = dict(locations=locs, pl=pl)
        try:
            m = FeatureMap.from_locations(locations=locs, parent_length=pl)
        except CATCH as e:
            add_failure(out, "spec", "from_locations raised", inp, "map", type(e).__name__, sig="from_locations:raise")
            continue
        want = []
        for a, b in locs:
            want += list(range(a, min(b, pl))) + [None] * max(0, b - pl)
        got = _cover_real(m)
        beyond = any(b > pl for _, b in locs)
        if got != want:
            add_failure(out, "spec", "from_locations does not cover the locations (overhang as lost span)", inp, want, got,
                        sig="from_locations:cover:" + ("beyond-parent" if beyond else "inside"))
        elif any((not sp.lost) and not (0 <= sp.start <= sp.end <= pl) for sp in m.spans):
            add_failure(out, "spec", "from_locations yields coordinates outside the parent", inp, pl, _fmd(m),
                        sig="from_locations:bounds")
        else:
            bump(out, "from_locations", "beyond-parent" if beyond else "inside")


def _check_make_feature_case(out, par, spans, strand, a, b):
    import cogent3

    spans = [tuple(x) for x in spans]
    k = len(spans)
    fs, fe = spans[0][0], spans[-1][1]
    out["evaluations"] += 1
    inp = dict(parent=par, spans=spans, strand=strand, view=[a, b])
    try:
        seq = cogent3.make_seq(par, name="s", moltype="dna")
        seq.add_feature(biotype="gene", name="g", spans=list(spans), strand=strand)
        sub = seq[a:b]
        rsub = sub.rc()
        fw = list(sub.get_features(biotype="gene", allow_partial=True))
        rv = list(rsub.get_features(biotype="gene", allow_partial=True))
    except CATCH as e:
        add_failure(out, "spec", "get_features(allow_partial=True) raised on a sliced / rc'd sequence", inp, "features",
                    type(e).__name__, sig="make_feature:raise:" + type(e).__name__)
        return
    if len(fw) != len(rv):
        add_failure(out, "spec", "forward and rc'd view report a different number of features", inp, len(fw), len(rv),
                    sig="make_feature:count")
        return
    if not fw:
        bump(out, "make_feature", "not-overlapping")
        return
    g1 = str(sub.gapped_by_map(fw[0].map))
    g2 = str(rsub.gapped_by_map(rv[0].map))
    pre = max(0, a - fs)
    post = max(0, fe - b)
    cls = "two-sided" if pre and post else "left" if pre else "right" if post else "inside"
    cls += ":equal" if pre == post else ":unequal"
    # mirror image: what the rc'd view shows through its map is the reverse complement of the forward rendering
    want2 = g1[::-1].translate(FEAT_COMP)
    if g2 != want2:
        add_failure(out, "spec", "feature map on the rc'd view is not the reversed map of the forward view "
                    "(rendering through it is not the reverse complement)", inp, want2, g2,
                    sig=f"make_feature:reversed:{cls}:{'multi' if k > 1 else 'single'}-span")
        return
    # mirrored coordinates too
    c1 = [(int(x), int(y)) for x, y in fw[0].map.get_coordinates()]
    c2 = [(int(x), int(y)) for x, y in rv[0].map.get_coordinates()]
    L = b - a
    if sorted(c2) != sorted((L - y, L - x) for x, y in c1):
        add_failure(out, "spec", "coordinates of the feature on the rc'd view are not the mirrored coordinates", inp,
                    sorted((L - y, L - x) for x, y in c1), sorted(c2), sig=f"make_feature:reversed-coords:{cls}")
        return
    # absolute rendering for a feature overhanging on at most one side (single span): lost columns + visible part
    if k == 1 and not (pre and post):
        want1 = "-" * pre + par[max(fs, a) : min(fe, b)] + "-" * post
        if g1 != want1:
            add_failure(out, "spec", "rendering the view through the feature map is not the feature's gapped string",
                        inp, want1, g1, sig=f"make_feature:forward:{cls}")
            return
    bump(out, "make_feature", cls)
    out["nontrivial"].add(("make_feature", par, str(spans), a, b))


def _spec_make_feature(out, rng, count):
    """feature maps as the real `Sequence.make_feature` builds them on sliced and reverse-complemented annotated
    sequences (lost spans for the parts of the feature outside the view, unequal at the two ends): rendering the view
    through the map is the feature's gapped string, and the map on the rc'd view is the mirror image of the map on the
    forward view ("reversal gives the map of the correspondingly transformed string")"""
    import cogent3

    letters = "ACGT"
    for it in range(count):
        n = rng.randint(6, 24)
        par = "".join(rng.choice(letters) for _ in range(n))
        k = rng.choice([1, 1, 1, 2, 3])
        cuts = sorted(rng.sample(range(0, n + 1), 2 * k))
        spans = [(cuts[2 * i], cuts[2 * i + 1]) for i in range(k)]
        strand = rng.choice(["+", "-"])
        fs, fe = spans[0][0], spans[-1][1]
        # views whose ends fall inside / outside the feature so that the overhang differs on the two sides
        views = set()
        for _ in range(6):
            a = rng.choice([0, max(fs - 1, 0), fs, min(fs + 1, n - 1), min(fs + 2, n - 1), rng.randint(0, n - 1)])
            b = rng.choice([n, min(fe + 1, n), fe, max(fe - 1, 1), max(fe - 3, 1), rng.randint(1, n)])
            if a < b:
                views.add((a, b))
        for a, b in sorted(views):
            _check_make_feature_case(out, par, spans, strand, a, b)


def _regression_corpus(out):
    """witnesses of repaired defects (status "fixed" in known_findings.d/C08.json) are replayed first on every run;
    a failure is an ordinary spec failure (fixed entries are never matched as known)"""
    import json
    from .common import VERIF

    fp = VERIF / "known_findings.d" / "C08.json"
    if not fp.exists():
        return
    for k in json.loads(fp.read_text()).get("findings", []):
        w = k.get("witness")
        if k.get("status") != "fixed" or not w:
            continue
        out["evaluations"] += 1
        bump(out, "regression_corpus", k["id"])
        tmp = new_outcome()
        _replay_into(tmp, w)
        for f in tmp["failures"]:
            if f["sig"] in k.get("sigs", []) or f["sig"] == w.get("sig"):
                add_failure(out, "spec", f"REGRESSION of {k['id']} ({k.get('commit')}): " + f["what"], f["input"], f["expected"], f["got"], sig="regression:" + f["sig"])
            else:
                # another clause fails on the witness string: an ordinary failure, reported under its own signature
                add_failure(out, "spec", f["what"], f["input"], f["expected"], f["got"], sig=f["sig"])


def spec_check(ctx, budget):
    out = new_outcome(
        "real IndelMap/FeatureMap vs plain gapped strings: every layout of length<=7 (quick; more with budget) x every interval "
        "(None/negative/out-of-range) x every index (incl. negative, slice_stop, below -len), random long layouts (<=300, "
        "leading/trailing/all-gap forced often) with slice bounds aimed at gap starts/ends +-1 / inside runs / 0 / len, "
        "reversed-then-sliced and sliced-then-reversed maps, from_aligned_segments and gap_coords_to_map from the segments / "
        "gap runs read off the string (incl. single full segment and empty list), all pairs of short layouts for + / "
        "minus_gaps / shared_gaps / merge_maps, + on long layouts with every junction class and chains a+b+c, "
        "joined_segments, mul; FeatureMap covered/shadow/inverse/reversal/composition (index maps with reverse spans, any "
        "order, poking outside, lost spans; slices) on random forward / negative-strand / mixed / overlapping span lists. "
        "non-trivial = distinct (string, interval) whose expected map has a gap, or composition with a non-empty result"
    )
    rng = ctx.subrng(f"spec{budget}")
    import cogent3
    from cogent3.core.location import IndelMap

    _regression_corpus(out)
    nmax = 7 if budget <= 1 else 8 if budget <= 10 else 9
    letters = "ACGT"
    keep = {}
    for n in range(0, nmax + 1):
        vals = [None] + list(range(-n - 2, n + 3))
        full = [(a, b) for a in vals for b in vals]
        for bits in itertools.product("01", repeat=n):
            s = "".join("-" if c == "1" else letters[i % 4] for i, c in enumerate(bits))
            ivs = full if n <= 5 else rng.sample(full, 60) + [(0, n + 1), (None, n + 2), (1, n + 1)]
            m, useq = _check_layout(out, s, ivs, True)
            if n <= 5:
                keep[s] = m
    longs = []
    for _ in range(120 * budget):
        n = rng.randint(nmax + 1, 120) if rng.random() < 0.85 else rng.randint(121, 300)
        pat = _rand_layout(rng, n)
        s = "".join("-" if c == "1" else rng.choice(letters) for c in pat)
        # bounds aimed at the gap starts / ends +-1, inside runs, 0, len (not only uniform)
        ivs = _targeted_intervals(rng, pat, 14) + [(_rand_bound(rng, n), _rand_bound(rng, n)) for _ in range(3)]
        m, useq = _check_layout(out, s, ivs, False)
        longs.append((s, m))
        if len(out["samples"]) < 3 and 0 < pat.count("1") < n:
            a, b = ivs[0]
            out["samples"].append(dict(string=s, interval=[a, b], map_of_slice=_try(lambda: m[a:b], _mapd), expected=_canon(s[a:b])))
        # joined_segments / mul
        out["evaluations"] += 1
        k = rng.randint(1, 3)
        pts = [p for p in _targets(pat) if p <= n]
        if rng.random() < 0.5 and len(pts) >= 2 * k:
            c = sorted(rng.sample(pts, 2 * k))
        else:
            c = sorted(rng.sample(range(0, n + 1), 2 * k))
        cs = [(c[2 * i], c[2 * i + 1]) for i in range(k)]
        _result_ok(out, lambda: m.joined_segments(cs), "".join(s[a:b] for a, b in cs),
                   "joined_segments is not the map of the joined slices", "joined_segments", dict(s=s, coords=cs))
        sc = rng.choice([2, 3])
        _result_ok(out, lambda: m * sc, "".join(ch * sc for ch in s), "m * k is not the map of the k-fold stretched string", "mul", dict(s=s, k=sc))
    # + on long layouts: every junction class (gap|gap, gap|residue, residue|gap, residue|residue), all-gap
    # operands, and chains a + b + c
    def _with_ends(s, lead, trail):
        core = s.strip("-") or "A"
        return "-" * lead + core + "-" * trail

    for i in range(len(longs)):
        (s, ma), (t, mb), (u, mc) = longs[i], longs[(i + 1) % len(longs)], longs[(i + 2) % len(longs)]
        r = rng.random()
        if r < 0.5:
            # force the junctions
            s = _with_ends(s, rng.choice([0, 2]), rng.choice([1, 1, 3]) if rng.random() < 0.7 else 0)
            t = _with_ends(t, rng.choice([1, 1, 4]) if rng.random() < 0.7 else 0, rng.choice([0, 1, 2]))
            if rng.random() < 0.3:
                t = "-" * rng.randint(1, 4)
            u = _with_ends(u, rng.choice([0, 1, 2]), rng.choice([0, 1]))
            ma, mb, mc = (cogent3.make_seq(x, moltype="dna").parse_out_gaps()[0] for x in (s, t, u))
        bump(out, "spec_add_junction_long", _junction(s, t))
        out["evaluations"] += 1
        _result_ok(out, lambda: ma + mb, s + t, "a + b is not the map of the concatenated string",
                   "add:" + ("gap-meets-gap" if _junction(s, t) == "gap|gap" else "other"), dict(s=s, t=t))
        _spec_add3(out, s, t, u, ma, mb, mc)
    # binary ops: all pairs of short layouts
    names = sorted(keep, key=lambda x: (len(x), x))
    for s in names:
        for t in names:
            if len(s) == len(t) and len(s) <= 5 or (len(s) <= 3 and len(t) <= 3):
                _spec_binary(out, s, t, keep[s], keep[t])
    # chains a + b + c over every triple of layouts of length <= 2
    tiny = [x for x in names if len(x) <= 2]
    for s in tiny:
        for t in tiny:
            for u in tiny:
                _spec_add3(out, s, t, u, keep[s], keep[t], keep[u])
    # joined_segments exhaustively on short layouts
    for s in names:
        n = len(s)
        if n > 4:
            continue
        for k in (1, 2):
            for c in itertools.combinations(range(0, n + 1), 2 * k):
                cs = [(c[2 * i], c[2 * i + 1]) for i in range(k)]
                out["evaluations"] += 1
                _result_ok(out, lambda: keep[s].joined_segments(cs), "".join(s[a:b] for a, b in cs),
                           "joined_segments is not the map of the joined slices", "joined_segments", dict(s=s, coords=cs))
    _spec_fmap(out, rng, 1500 * budget)
    _spec_make_feature(out, rng, 60 * budget)
    _spec_from_locations(out, rng, 300 * budget)
    return out


# --------------------------------------------------------------------------
# findings
# --------------------------------------------------------------------------
def match_finding(f, k):
    """a known finding explains a failure only if the signature is listed AND the input is in the finding's class"""
    if f.get("sig") not in k.get("sigs", []):
        return False
    r = k.get("restrict") or {}
    inp = f.get("input") or {}
    s = inp.get("s", "")
    if r.get("stop_beyond_len"):
        a, b = inp.get("a"), inp.get("b")
        if not ((b is not None and b > len(s)) or (a is not None and a > len(s))):
            return False
    if r.get("min_gap_runs"):
        if _count_runs(s) < r["min_gap_runs"] or not s or s[-1] == "-":
            return False
    if r.get("gapless"):
        if "-" in s:
            return False
    if r.get("gapless_operand"):
        if "-" in s and "-" in inp.get("t", ""):
            return False
    if r.get("gap_meets_gap"):
        if not (s.endswith("-") and inp.get("t", "").startswith("-")):
            return False
    return True


def _count_runs(s):
    return sum(1 for i, c in enumerate(s) if c == "-" and (i == 0 or s[i - 1] != "-"))


def _replay_into(out, inp):
    if "parent" in inp and "view" in inp:
        _check_make_feature_case(out, inp["parent"], inp["spans"], inp["strand"], inp["view"][0], inp["view"][1])
        return
    _replay_into_maps(out, inp)


def _replay_into_maps(out, inp):
    """re-run every clause about one recorded input on the real code, collecting failures in out"""
    import cogent3

    s = inp.get("s")
    if "span" in inp and "other" in inp:
        from .c08_ops import check_span_ops

        (a, b, r), (c, d) = inp["span"], inp["other"]
        check_span_ops(out, a, b, r, c, d, sorted({a - 1, a, a + 1, b - 1, b, b + 1, (a + b) // 2}))
        return
    if "spans" in inp:
        from .c08_ops import check_fm_ops

        import random

        from .c08_ops import check_fmap_subscripts

        check_fm_ops(out, inp["spans"], inp["pl"], inp.get("other"), _cover_real)
        check_fmap_subscripts(out, inp["spans"], inp["pl"], _cover_real, random.Random(0),
                              ints=[inp["i"]] if "i" in inp else None, pieces=inp.get("pieces"))
        ix = inp.get("index")
        if isinstance(ix, list):
            # a bare list of index spans
            ix = dict(spans=ix)
        _check_fmap(out, inp["spans"], inp["pl"], [ix] if ix else [])
        return
    if s is None:
        return
    if "u" in inp:
        ma, mb, mc = (cogent3.make_seq(x, moltype="dna").parse_out_gaps()[0] for x in (s, inp["t"], inp["u"]))
        _spec_add3(out, s, inp["t"], inp["u"], ma, mb, mc)
    elif "t" in inp:
        ma = cogent3.make_seq(s, moltype="dna").parse_out_gaps()[0]
        mb = cogent3.make_seq(inp["t"], moltype="dna").parse_out_gaps()[0]
        _spec_binary(out, s, inp["t"], ma, mb)
    elif "coords" in inp:
        m = cogent3.make_seq(s, moltype="dna").parse_out_gaps()[0]
        cs = [tuple(c) for c in inp["coords"]]
        _result_ok(out, lambda: m.joined_segments(cs), "".join(s[a:b] for a, b in cs),
                   "joined_segments is not the map of the joined slices", "joined_segments", dict(s=s, coords=cs))
    else:
        ivs = [(inp.get("a"), inp.get("b"))] if ("a" in inp or "b" in inp) else []
        _check_layout(out, s, ivs, True)


def _replay_case(inp, sig):
    """the failure with signature `sig` (any if None) when the recorded input is re-run, or None"""
    out = new_outcome()
    _replay_into(out, inp)
    for f in out["failures"]:
        if sig is None or f["sig"] == sig or sig.startswith("regression:"):
            return f
    return None


def check_witness(ctx, w):
    return _replay_case(w, w["sig"])


def replay(ctx, data):
    f = data.get("failing_input") or {}
    inp, sig = f.get("input"), f.get("sig", "")
    if not inp:
        return False
    r = _replay_case(inp, sig)
    if r:
        print("expected", r["expected"], "got", r["got"])
    return r is not None
