"""C10: recipes (JSON-able descriptions of an object AND the history that produced it),
`build(recipe, scratch)` which replays the history on the real cogent3 classes, and the
seeded recipe generators, one per family of registered serialisable types.

Every failure reported by the oracle carries its recipe, so it can be replayed exactly.
"""
from __future__ import annotations

import itertools

DNA = "ACGT"
RNA = "ACGU"
PROT = "ACDEFGHIKLMNPQRSTVWY"
ALPH = {"dna": DNA, "rna": RNA, "protein": PROT, "text": "ABCXYZ", "bytes": "ABab01", "protein_with_stop": PROT + "*"}


# --------------------------------------------------------------------------
# small random helpers
# --------------------------------------------------------------------------
def rtext(rng, mt, n, gaps=False, ambig=False):
    letters = ALPH[mt]
    if ambig and mt in ("dna", "rna"):
        letters = letters + "NRY"
    out = []
    for _ in range(n):
        if gaps and rng.random() < 0.25:
            out.append("-")
        else:
            out.append(rng.choice(letters))
    return "".join(out)


def rslice(rng, n, allow_step=True, allow_neg=True):
    def arg():
        r = rng.random()
        if r < 0.25:
            return None
        if r < 0.9:
            return rng.randint(-n - 1, n + 1)
        return rng.choice([0, n, -n, n + 3, -n - 3])

    step = None
    if allow_step:
        r = rng.random()
        if r < 0.55:
            step = None
        elif r < 0.75:
            step = rng.choice([2, 3])
        elif allow_neg:
            step = rng.choice([-1, -1, -2, -3])
    return ["s", arg(), arg(), step]


def rspans(rng, n, k=None):
    """k ordered non-overlapping spans inside [0, n]"""
    if n < 2:
        return [[0, n]]
    k = k or rng.choice([1, 1, 2, 3])
    cuts = sorted(rng.sample(range(0, n + 1), min(2 * k, n + 1) // 2 * 2))
    sp = [[cuts[i], cuts[i + 1]] for i in range(0, len(cuts), 2)]
    sp = [s for s in sp if s[1] > s[0]]
    return sp or [[0, min(n, 2)]]


def hist_class(ops, extra=()):
    """coarse class of a history, used in failure signatures"""
    tags = set(extra)
    for op in ops:
        k = op[0]
        if k == "s":
            st = op[3] or 1
            if st < 0:
                tags.add("revslice")
            elif st > 1:
                tags.add("strided")
            else:
                tags.add("sliced")
            if abs(st) > 1 and st < 0:
                tags.add("strided")
        else:
            tags.add(k)
    return "+".join(sorted(tags)) or "fresh"


# --------------------------------------------------------------------------
# build: replay a recipe on the real classes
# --------------------------------------------------------------------------
def _mk_seq(impl, mt, text, name, offset, info=None):
    if impl == "old":
        import cogent3

        return cogent3.make_seq(text, name=name, moltype=mt, annotation_offset=offset, info=info)
    from cogent3.core import new_moltype

    return new_moltype.get_moltype(mt).make_seq(seq=text, name=name, annotation_offset=offset, info=info)


def _apply_seq_ops(s, ops):
    for op in ops:
        k = op[0]
        if k == "s":
            s = s[slice(op[1], op[2], op[3])]
        elif k == "rc":
            s = s.rc()
        elif k == "feat":
            s.add_feature(**op[1])
        elif k == "copy":
            s = s.copy(sliced=op[1])
        elif k == "to_rna":
            s = s.to_rna()
        elif k == "to_dna":
            s = s.to_dna()
        elif k == "degap":
            s = s.degap()
        elif k == "rename":
            s.name = op[1]
        elif k == "deepcopy":
            import copy as _copy

            s = _copy.deepcopy(s)
        elif k == "to_moltype":
            s = s.to_moltype(op[1])
        elif k == "info":
            s.info[op[1]] = op[2]
        else:
            raise ValueError(k)
    return s


def build(rec, scratch=None):
    fam = rec["family"]
    return globals()["_build_" + fam](rec, scratch)


def _build_seq(rec, scratch):
    s = _mk_seq(rec["impl"], rec["moltype"], rec["text"], rec["name"], rec["offset"], rec.get("info"))
    for f in rec.get("features", []):
        s.add_feature(**f)
    return _apply_seq_ops(s, rec["ops"])


def _build_seqview(rec, scratch):
    from cogent3.core import sequence

    v = sequence.SeqView(seq=rec["text"], start=rec["start"], stop=rec["stop"], step=rec["step"], offset=rec["offset"], seqid=rec.get("seqid"))
    for op in rec["ops"]:
        v = v[slice(op[1], op[2], op[3])]
    return v


def _build_coll(rec, scratch):
    import cogent3

    kind = rec["kind"]
    data = rec["seqs"]
    if rec.get("offsets"):
        data = [cogent3.make_seq(t, name=n, moltype=rec["moltype"], annotation_offset=rec["offsets"].get(n, 0)) for n, t in rec["seqs"].items()]
    kw = dict(moltype=rec["moltype"], info=rec.get("info"))
    if kind == "SequenceCollection":
        c = cogent3.make_unaligned_seqs(data, **kw)
    else:
        c = cogent3.make_aligned_seqs(data, array_align=(kind == "ArrayAlignment"), **kw)
    for f in rec.get("features", []):
        c.add_feature(**f)
    return _apply_coll_ops(c, rec["ops"])


def _apply_coll_ops(c, ops):
    for op in ops:
        k = op[0]
        if k == "s":
            c = c[slice(op[1], op[2], op[3])]
        elif k == "rc":
            c = c.rc()
        elif k == "take":
            c = c.take_seqs(op[1])
        elif k == "feat":
            c.add_feature(**op[1])
        elif k == "degap":
            c = c.degap()
        elif k == "omit_gap_pos":
            c = c.omit_gap_pos()
        elif k == "rename":
            c = c.rename_seqs(lambda x: x + "_r")
        elif k == "to_rna":
            c = c.to_rna()
        elif k == "take_pos":
            c = c.take_positions(op[1])
        elif k == "to_type":
            c = c.to_type(array_align=op[1])
        elif k == "info":
            c.info[op[1]] = op[2]
        elif k == "deepcopy":
            import copy as _copy

            c = _copy.deepcopy(c)
        elif k == "to_moltype":
            c = c.to_moltype(op[1])
        elif k == "rename_to":
            c = c.rename_seqs(lambda x, m=op[1]: m.get(x, x))
        elif k == "seqname":
            # rename ONE sequence object in place (seq.name = ...), the collection keeps its own name for it
            sq = c.named_seqs[op[1]]
            sq = sq.data if hasattr(sq, "data") else sq
            sq.name = op[2]
        else:
            raise ValueError(k)
    return c


def _build_aligned(rec, scratch):
    c = _build_coll(rec["aln"], scratch)
    return c.named_seqs[rec["row"]]


def _build_collseq(rec, scratch):
    """a Sequence taken out of an (old-style) collection/alignment and then sliced etc."""
    c = _build_coll(rec["coll"], scratch)
    s = c.get_seq(rec["row"])
    return _apply_seq_ops(s, rec["ops"])


def _build_newcoll(rec, scratch):
    from cogent3.core import new_alignment

    c = new_alignment.make_unaligned_seqs(dict(rec["seqs"]), moltype=rec["moltype"], info=rec.get("info"))
    for f in rec.get("features", []):
        c.add_feature(**f)
    return _apply_coll_ops(c, rec["ops"])


def _build_newcollseq(rec, scratch):
    c = _build_newcoll(rec["coll"], scratch)
    s = c.get_seq(rec["row"]) if rec.get("via", "get_seq") == "get_seq" else c.seqs[rec["row"]]
    return _apply_seq_ops(s, rec["ops"])


def _build_seqsdata(rec, scratch):
    return _build_newcoll(rec["coll"], scratch).seqs


def _build_tree(rec, scratch):
    import cogent3

    t = cogent3.make_tree(treestring=rec["newick"])
    for op in rec["ops"]:
        k = op[0]
        if k == "param":
            t.get_node_matching_name(op[1]).params[op[2]] = op[3]
        elif k == "rooted_at":
            nm = op[1]
            if nm == "__internal__":
                cands = [e.name for e in t.get_edge_vector(include_root=False) if e.children]
                if not cands:
                    continue
                nm = cands[0]
            t = t.rooted_at(nm)
        elif k == "unrooted":
            t = t.unrooted()
        elif k == "sub":
            t = t.get_sub_tree(op[1])
        elif k == "scale":
            t.scale_branch_lengths(op[1]) if False else None
            for e in t.get_edge_vector(include_root=False):
                if e.length is not None:
                    e.length = e.length * op[1]
        elif k == "set_len":
            t.get_node_matching_name(op[1]).length = op[2]
        elif k == "rename":
            t.get_node_matching_name(op[1]).name = op[2]
        elif k == "bifurcating":
            t = t.bifurcating()
        elif k == "sorted":
            t = t.sorted()
        elif k == "deepcopy":
            t = t.deepcopy()
        elif k == "name_unnamed":
            t.name_unnamed_nodes()
        elif k == "special_name":
            pass  # marker only: the previous rename used a newick meta character
        elif k == "root_len":
            t.length = op[1]
        elif k == "root_param":
            t.params[op[1]] = op[2]
        elif k == "int_param":
            cands = [e for e in t.get_edge_vector(include_root=False) if e.children]
            if cands:
                cands[op[1] % len(cands)].params[op[2]] = op[3]
        elif k == "int_len":
            cands = [e for e in t.get_edge_vector(include_root=False) if e.children]
            if cands:
                cands[op[1] % len(cands)].length = op[2]
        elif k == "scale_bl":
            t.scale_branch_lengths(max_length=op[1], ultrametric=False)
        else:
            raise ValueError(k)
    return t


def _build_table(rec, scratch):
    import cogent3

    t = cogent3.make_table(
        header=rec["header"], data=rec["rows"], title=rec.get("title", ""), legend=rec.get("legend", ""),
        index_name=rec.get("index_name"), digits=rec.get("digits", 4), space=rec.get("space", 4),
        missing_data=rec.get("missing_data", ""), max_width=rec.get("max_width", 1e100),
    )
    for op in rec["ops"]:
        k = op[0]
        if k == "sorted":
            t = t.sorted(columns=op[1], reverse=op[2])
        elif k == "cols":
            t = t.get_columns(op[1])
        elif k == "rows":
            t = t[op[1] : op[2]]
        elif k == "filtered":
            t = t.filtered(lambda v, thr=op[2]: v > thr, columns=op[1])
        elif k == "newcol":
            t = t.with_new_column(op[1], lambda v: v * 2, columns=op[2])
        elif k == "format":
            t.format_column(op[1], op[2])
        elif k == "title":
            t.title = op[1]
        elif k == "legend":
            t.legend = op[1]
        elif k == "header":
            t = t.with_new_header(op[1], op[2])
        elif k == "appended":
            t = t.appended(None, t)
        elif k == "transposed":
            t = t.transposed(op[1], select_as_header=op[2])
        elif k == "index":
            t.index_name = op[1]
        elif k == "distinct":
            t = t.distinct_values(op[1]) and t
        else:
            raise ValueError(k)
    return t


def _build_dictarray(rec, scratch):
    import numpy

    from cogent3.util.dict_array import DictArrayTemplate

    arr = numpy.array(rec["data"], dtype=rec.get("dtype", "float64"))
    d = DictArrayTemplate(*rec["names"]).wrap(arr)
    for op in rec["ops"]:
        k = op[0]
        if k == "item":
            d = d[op[1]]
        elif k == "rows":
            d = d[op[1] : op[2]]
        elif k == "T":
            d = d.T if hasattr(d, "T") else d
        elif k == "take":
            d = d.take(op[1], negate=op[2], axis=op[3])
        else:
            raise ValueError(k)
    return d


def _build_distmat(rec, scratch):
    from cogent3.evolve.fast_distance import DistanceMatrix

    dists = {(a, b): v for a, b, v in rec["dists"]}
    d = DistanceMatrix(dists, invalid=rec.get("invalid"))
    for op in rec["ops"]:
        k = op[0]
        if k == "take":
            d = d.take_dists(op[1], negate=op[2])
        elif k == "drop_invalid":
            d = d.drop_invalid()
        elif k == "set":
            if op[1] in d.names and op[2] in d.names:
                d[op[1], op[2]] = op[3]
        elif k == "deepcopy":
            import copy as _copy

            d = _copy.deepcopy(d)
        else:
            raise ValueError(k)
        if d is None:
            return None
    return d


def _build_alphabet(rec, scratch):
    from cogent3.core.moltype import get_moltype

    mt = get_moltype(rec["moltype"])
    a = getattr(mt.alphabets, rec["which"]) if rec["which"] != "alphabet" else mt.alphabet
    for op in rec["ops"]:
        if op[0] == "word":
            a = a.get_word_alphabet(op[1])
        elif op[0] == "gapped":
            a = a.with_gap_motif()
        elif op[0] == "sub":
            a = a.get_subset(op[1], excluded=op[2])
    return a


def _build_moltype(rec, scratch):
    from cogent3.core.moltype import get_moltype

    return get_moltype(rec["label"])


def _build_newalphabet(rec, scratch):
    from cogent3.core import new_genetic_code, new_moltype

    mt = new_moltype.get_moltype(rec["moltype"])
    a = getattr(mt, rec["which"]) if isinstance(getattr(type(mt), rec["which"], None), property) else getattr(mt, rec["which"])
    if callable(a):
        a = a()
    for op in rec["ops"]:
        if op[0] == "kmer":
            a = a.get_kmer_alphabet(k=op[1], include_gap=op[2])
        elif op[0] == "gapped":
            a = a.with_gap_motif()
        elif op[0] == "codon":
            a = new_genetic_code.get_code(op[1]).get_alphabet(include_stop=op[2])
    return a


def _build_indelmap(rec, scratch):
    import numpy

    from cogent3.core.location import IndelMap

    if "gapped" in rec:
        import cogent3

        m, _ = cogent3.make_seq(rec["gapped"], moltype="dna").parse_out_gaps()
    elif rec.get("lengths") is not None:
        m = IndelMap(gap_pos=numpy.array(rec["gap_pos"], dtype=int), gap_lengths=numpy.array(rec["lengths"], dtype=int), parent_length=rec["parent_length"], termini_unknown=rec.get("termini_unknown", False))
    else:
        m = IndelMap(gap_pos=numpy.array(rec["gap_pos"], dtype=int), cum_gap_lengths=numpy.array(rec["cum"], dtype=int), parent_length=rec["parent_length"], termini_unknown=rec.get("termini_unknown", False))
    for op in rec["ops"]:
        k = op[0]
        if k == "s":
            m = m[op[1] : op[2]]
        elif k == "rev":
            m = m.nucleic_reversed()
        elif k == "termini":
            m = m.with_termini_unknown()
        elif k == "scale":
            m = m * op[1]
        elif k == "joined":
            m = m.joined_segments(op[1]) if hasattr(m, "joined_segments") else m
        elif k == "to_feature_map":
            m = m.to_feature_map()
        else:
            raise ValueError(k)
    return m


def _mk_span(d):
    from cogent3.core.location import LostSpan, Span

    if "length" in d:
        return LostSpan(d["length"])
    return Span(d["start"], d.get("end"), tidy_start=d.get("tidy_start", False), tidy_end=d.get("tidy_end", False), reverse=d.get("reverse", False))


def _build_featuremap(rec, scratch):
    from cogent3.core.location import FeatureMap

    if "locations" in rec:
        m = FeatureMap.from_locations(locations=[tuple(x) for x in rec["locations"]], parent_length=rec["parent_length"])
    else:
        m = FeatureMap(spans=[_mk_span(d) for d in rec["spans"]], parent_length=rec["parent_length"])
    for op in rec["ops"]:
        k = op[0]
        if k == "rev":
            m = m.reversed()
        elif k == "nucleic_reversed":
            m = m.nucleic_reversed()
        elif k == "covered":
            m = m.covered()
        elif k == "without_gaps":
            m = m.without_gaps()
        elif k == "shadow":
            m = m.shadow()
        elif k == "zeroed":
            m = m.zeroed()
        elif k == "scale":
            m = m * op[1]
        elif k == "strict_nucleic_reversed":
            m = m.strict_nucleic_reversed()
        elif k == "s":
            m = m[slice(op[1], op[2])]
        elif k == "nongap":
            m = m.without_gaps()
        elif k == "relative":
            m = m.relative_position(op[1])
        else:
            raise ValueError(k)
    return m


GFF_LINES = [
    "{seqid}\tverif\tgene\t{a}\t{b}\t.\t+\t.\tID=gene{i};Name=g{i}",
    "{seqid}\tverif\tmRNA\t{a}\t{b}\t.\t-\t.\tID=mrna{i};Parent=gene{i}",
    "{seqid}\tverif\texon\t{a}\t{b}\t0.5\t+\t0\tID=exon{i};Parent=mrna{i}",
]


def _build_db(rec, scratch):
    from cogent3.core import annotation_db as adb

    kind = rec["kind"]
    if kind == "basic":
        db = adb.BasicAnnotationDb()
    elif kind == "gff":
        path = scratch / f"c10_{abs(hash(str(rec['gff']))) % 10**9}.gff"
        path.write_text("##gff-version 3\n" + "\n".join(rec["gff"]) + "\n")
        db = adb.load_annotations(path=path)
    else:
        db = adb.load_annotations(path="/repo/tests/data/annotated_seq.gb")
    for op in rec["ops"]:
        k = op[0]
        if k == "add":
            db.add_feature(**op[1])
        elif k == "subset":
            db = db.subset(**op[1])
        elif k == "union_basic":
            other = adb.BasicAnnotationDb()
            for f in op[1]:
                other.add_feature(**f)
            db = db.union(other)
        elif k == "update_basic":
            other = adb.BasicAnnotationDb()
            for f in op[1]:
                other.add_feature(**f)
            db.update(other)
        else:
            raise ValueError(k)
    return db


def _build_model(rec, scratch):
    from cogent3.evolve.models import get_model

    return get_model(rec["name"], **rec.get("kw", {}))


def _build_lf(rec, scratch):
    import cogent3
    from cogent3.evolve.models import get_model

    sm = get_model(rec["model"], **rec.get("kw", {}))
    tree = cogent3.make_tree(treestring=rec["tree"])
    aln = _build_coll(rec["aln"], scratch)
    lf_kw = dict(rec.get("lf_kw", {}))
    lf = sm.make_likelihood_function(tree, **lf_kw)
    if isinstance(lf_kw.get("loci"), list):
        # one DIFFERENT alignment per locus (rec["alns"]; older recipes: the first one read backwards by columns)
        if rec.get("alns"):
            alns = [aln] + [_build_coll(a, scratch) for a in rec["alns"]]
        else:
            alns = [aln] + [aln.take_positions(list(range(len(aln)))[::-1]) for _ in lf_kw["loci"][1:]]
        lf.set_alignment(alns)
    else:
        lf.set_alignment(aln)
    if rec.get("name"):
        lf.set_name(rec["name"])
    for rule in rec.get("rules", []):
        rule = dict(rule)
        if rule.get("loci") == "EACH":
            from cogent3.recalculation.scope import EACH

            rule["loci"] = EACH
        lf.set_param_rule(**rule)
    if rec.get("time_het"):
        lf.set_time_heterogeneity(**rec["time_het"])
    if rec.get("optimise"):
        lf.optimise(max_evaluations=rec["optimise"], limit_action="ignore", show_progress=False, local=True)
    return lf


def _build_nc(rec, scratch):
    from cogent3.app.composable import NotCompleted

    src = rec.get("source")
    if isinstance(src, dict):
        src = build(src, scratch)
    origin = rec["origin"]
    if isinstance(origin, dict):
        from cogent3.app import get_app

        origin = get_app(origin["app"], **({"number": 2} if origin["app"] == "take_n_seqs" else ({"length": 3} if origin["app"] == "min_length" else {})))
    return NotCompleted(rec["type"], origin, rec["message"], source=src)


def _build_result(rec, scratch):
    from cogent3.app import result

    kind = rec["kind"]
    if kind == "generic":
        r = result.generic_result(source=rec["source"])
        for k, v in rec["items"]:
            r[k] = build(v, scratch) if isinstance(v, dict) and "family" in v else v
        return r
    if kind == "tabular":
        r = result.tabular_result(source=rec["source"])
        for k, v in rec["items"]:
            r[k] = build(v, scratch)
        return r
    if kind == "model":
        lf = _build_lf(rec["lf"], scratch)
        r = result.model_result(name=rec["name"], source=rec["source"], stat=sum, elapsed_time=rec.get("elapsed", 1.5), num_evaluations=rec.get("nev", 7), evaluation_limit=rec.get("limit", 100), lnL=lf.lnL, nfp=lf.nfp, DLC=True, unique_Q=True)
        r[rec.get("key", rec["name"])] = lf
        return r
    if kind in ("hypothesis", "model_collection"):
        cls = result.hypothesis_result if kind == "hypothesis" else result.model_collection_result
        r = cls(name_of_null=rec["null"], source=rec["source"]) if kind == "hypothesis" else cls(source=rec["source"])
        for name, lfrec in rec["models"]:
            lf = _build_lf(lfrec, scratch)
            mr = result.model_result(name=name, source=rec["source"], stat=sum, lnL=lf.lnL, nfp=lf.nfp, DLC=True, unique_Q=True)
            mr[name] = lf
            r[name] = mr
        return r
    if kind == "bootstrap":
        r = result.bootstrap_result(source=rec["source"])
        inner = dict(rec["hyp"])
        r["observed"] = _build_result(inner, scratch)
        for i in range(rec.get("n", 1)):
            r[f"sim_{i}"] = _build_result(inner, scratch)
        return r
    raise ValueError(kind)


# --------------------------------------------------------------------------
# recipe generators
# --------------------------------------------------------------------------
def _feat(rng, n, seqid=None, strand=None, extra=None):
    d = dict(biotype=rng.choice(["gene", "cds", "exon", "repeat"]), name=f"f{rng.randint(0, 99)}", spans=[tuple(s) for s in rspans(rng, n)])
    if seqid is not None:
        d["seqid"] = seqid
    st = strand if strand is not None else rng.choice(["+", "-", None])
    if st is not None:
        d["strand"] = st
    if extra:
        d.update(extra)
    return d


def _j(f):
    """feature dict -> JSON-able (spans as lists)"""
    d = dict(f)
    d["spans"] = [list(s) for s in d["spans"]]
    return d


def gen_seq(rng, impl=None):
    impl = impl or rng.choice(["old", "new"])
    mts = ["dna", "dna", "dna", "rna", "protein", "text"] + (["bytes", "protein_with_stop"] if impl == "new" else [])
    mt = rng.choice(mts)
    n = rng.choice([0, 1, 2, 5, 9, 14, 23]) if rng.random() < 0.7 else rng.randint(0, 30)
    text = rtext(rng, mt, n, gaps=rng.random() < 0.15 and mt in ("dna", "rna", "protein"), ambig=rng.random() < 0.2)
    offset = rng.choice([0, 0, 3, 11])
    feats = [_j(_feat(rng, n + offset)) for _ in range(rng.choice([0, 0, 1, 2, 3]))] if n > 1 else []
    ops = []
    cur = n
    for _ in range(rng.choice([0, 1, 1, 2, 3, 4])):
        r = rng.random()
        if r < 0.2 and mt in ("dna", "rna"):
            ops.append(["rc"])
        elif r < 0.27 and cur > 1:
            ops.append(["feat", _j(_feat(rng, cur))])
        elif r < 0.32 and not (impl == "new" and offset):
            ops.append(["copy", rng.random() < 0.7])
        elif r < 0.38:
            ops.append(["rename", rng.choice(["renamed", "new id", "s1"])])
        elif r < 0.42:
            ops.append(["deepcopy"])
        elif r < 0.46 and mt in ("dna", "rna") and not any(o[0] == "to_moltype" for o in ops):
            ops.append(["to_moltype", "rna" if mt == "dna" else "dna"])
        elif r < 0.49:
            ops.append(["info", "added", rng.randint(0, 9)])
        else:
            op = rslice(rng, cur, allow_neg=mt in ("dna", "rna", "text", "protein"))
            ops.append(op)
            cur = len(range(cur)[slice(op[1], op[2], op[3])])
    info = rng.choice([None, None, {"note": "x", "k": 3}])
    extra = []
    if offset:
        extra.append("offset")
    if feats or any(o[0] == "feat" for o in ops):
        extra.append("annotated")
    return dict(family="seq", impl=impl, moltype=mt, text=text, name=rng.choice(["s1", "seq-2", "chr 3"]), offset=offset, info=info, features=feats, ops=ops, hclass=hist_class(ops, extra))


# --------------------------------------------------------------------------
# view-STATE directed histories.  The export code re-bases a view from its (start, stop, step, offset) record,
# so what matters for a round trip is the STATE CLASS the history ends in:
#   strand (forward / reversed) x stride (|step| = 1 / > 1) x residue ((L-1) % |step| zero / non-zero, L = length of the
#   exported, truncated parent) x offset (zero / non-zero).
# gen_seq draws slices with step None 55 % of the time and rc 20 % of the time, so the corner
# "reversed AND strided AND non-zero residue" is rare there; these generators draw histories out of
# slice(random start/stop, |step| in 1..4, either sign), rc, slices AFTER rc, annotation offsets.
# --------------------------------------------------------------------------
def _directed_slice(rng, cur, allow_neg=True):
    """a slice of a length-`cur` sequence that is mostly non-empty, with |step| in 1..4"""
    k = rng.choice([1, 1, 2, 2, 3, 3, 4])
    neg = allow_neg and rng.random() < 0.3
    r = rng.random()
    if r < 0.2:
        a, b = None, None
    elif r < 0.9:
        a = rng.randint(0, max(0, cur // 2))
        b = rng.randint(min(cur, a + 1), cur)
        if rng.random() < 0.2:
            a = None if a == 0 or rng.random() < 0.5 else a - cur  # open / negative index forms of the same bound
        if rng.random() < 0.2:
            b = None if b == cur else b - cur if b - cur < 0 else b
    else:
        a, b = rng.randint(-cur - 2, cur + 2), rng.randint(-cur - 2, cur + 2)  # anything, incl. empty / out of range
    if not neg:
        return ["s", a, b, None if k == 1 and rng.random() < 0.5 else k]
    # negative step: walk from the upper bound down to the lower bound
    lo = a if isinstance(a, int) and a >= 0 else 0
    hi = b if isinstance(b, int) and b >= 0 else cur
    start = None if hi >= cur and rng.random() < 0.5 else hi - 1
    stop = None if lo <= 0 else lo - 1
    return ["s", start, stop, -k]


def directed_view_ops(rng, n, nucleic, allow_neg=True, depth=None):
    ops, cur = [], n
    depth = depth or rng.choice([1, 2, 2, 3, 3, 4])
    for i in range(depth):
        if cur == 0:
            break
        if nucleic and rng.random() < (0.45 if i == 0 else 0.3):
            ops.append(["rc"])
            continue
        op = _directed_slice(rng, cur, allow_neg=allow_neg)
        ops.append(op)
        cur = len(range(cur)[slice(op[1], op[2], op[3])])
    return ops


def _state_box():
    """a small deterministic box of histories that ends in every strand x stride x residue x offset class, for both
    implementations (the first recipes of the `seqstate` family of every run, before the seeded random ones)"""
    box = []
    for impl in ("new", "old"):
        for n, off in ((10, 0), (13, 5)):
            for k in (2, 3):
                for ops in (
                    [["rc"], ["s", None, None, k]],
                    [["rc"], ["s", 1, None, k]],
                    [["s", 2, n - 1, None], ["rc"], ["s", None, None, k]],
                    [["s", None, None, k], ["rc"]],
                    [["s", None, None, -k]],
                    [["s", n - 2, 0, -k]],
                    [["s", 1, n, k]],
                    [["rc"], ["s", 1, n - 2, None], ["s", None, None, k], ["s", 1, None, None]],
                ):
                    box.append((impl, n, off, ops))
    return box


def gen_seqstate(rng, impl=None, index=None):
    """a stand-alone sequence (either implementation) left in a directed view state; no features, no renames:
    only string / coordinates / strand / moltype / offset are at stake"""
    box = _state_box()
    if index is not None and index < len(box):
        impl, n, offset, ops = box[index]
        mt = rng.choice(["dna", "rna"])
        return dict(family="seq", impl=impl, moltype=mt, text=rtext(rng, mt, n), name="s1", offset=offset, info=None, features=[], ops=[list(o) for o in ops], hclass=hist_class(ops, ["offset"] if offset else []))
    impl = impl or rng.choice(["new", "new", "old"])
    mt = rng.choice(["dna", "dna", "dna", "rna", "text", "protein"])
    n = rng.choice([2, 3, 5, 7, 8, 10, 13, 16, 21, 30]) if rng.random() < 0.6 else rng.randint(1, 30)
    offset = rng.choice([0, 0, 3, 11, 100])
    ops = directed_view_ops(rng, n, mt in ("dna", "rna"))
    if rng.random() < 0.1:
        ops.insert(rng.randint(0, len(ops)), ["deepcopy"])
    return dict(family="seq", impl=impl, moltype=mt, text=rtext(rng, mt, n), name=rng.choice(["s1", "seq-2"]), offset=offset, info=None, features=[], ops=ops, hclass=hist_class(ops, ["offset"] if offset else []))


def gen_collseqstate(rng):
    """a member sequence taken out of a collection / alignment (new-style SequenceCollection -> SeqDataView inside;
    old-style SequenceCollection / Alignment) and then left in a directed view state"""
    if rng.random() < 0.55:
        c = gen_newcoll(rng)
        c["ops"] = [o for o in c["ops"] if o[0] in ("rc",)]
        c["features"] = []
        fam, tag = "newcollseq", "from_newcoll"
    else:
        c = gen_coll(rng, kind=rng.choice(["Alignment", "SequenceCollection"]))
        c["ops"] = [o for o in c["ops"] if o[0] in ("rc", "s")]
        c["features"] = []
        fam, tag = "collseq", "from_" + c["kind"]
    row = rng.choice(list(c["seqs"]))
    nucleic = c["moltype"] in ("dna", "rna")
    ops = directed_view_ops(rng, max(1, len(c["seqs"][row].replace("-", ""))), nucleic, allow_neg=nucleic or c["moltype"] == "text", depth=rng.choice([1, 2, 2, 3]))
    c["hclass"] = hist_class(c["ops"], ["offset"] if c.get("offsets") and any(c["offsets"].values()) else [])
    rec = dict(family=fam, coll=c, row=row, ops=ops, hclass=hist_class(c["ops"] + ops, [tag]))
    if fam == "newcollseq":
        rec["via"] = rng.choice(["get_seq", "seqs"])
    return rec


def view_state_class(x):
    """state class of the built object, read off the live object (not off the recipe). Sequence-like: strand x stride x
    residue x offset of the view inside; DistanceMatrix: symmetric / asymmetric; likelihood function: whether a parameter
    sits exactly on 0.0 / on a bound. None if the object has no such state"""
    cls = type(x).__name__
    if cls == "DistanceMatrix":
        import numpy

        arr = numpy.asarray(x.array, dtype=float)
        return "matrix/" + ("symmetric" if numpy.array_equal(arr, arr.T, equal_nan=True) else "asymmetric")
    if hasattr(x, "get_param_rules") and hasattr(x, "set_param_rule"):
        # likelihood function: does a scalar parameter sit on a SPECIAL value (exactly 0.0, exactly on a bound)?
        tags = set()
        try:
            for r in x.get_param_rules():
                val = r.get("init", r.get("value"))
                if isinstance(val, (int, float)) and not isinstance(val, bool):
                    if val == 0:
                        tags.add("const-at-0" if r.get("is_constant") else "free-at-0")
                    elif not r.get("is_constant") and (val == r.get("lower") or val == r.get("upper")):
                        tags.add("free-on-bound")
        except Exception as e:
            return f"lf/unreadable:{type(e).__name__}"
        return "lf/" + ("+".join(sorted(tags)) or "interior")
    v = getattr(x, "_seq", None)
    if v is None and hasattr(x, "data") and hasattr(x, "map"):  # Aligned
        v = getattr(x.data, "_seq", None)
    if v is None and all(hasattr(x, k) for k in ("start", "stop", "step", "seq_len")):
        v = x
    if v is None or not all(hasattr(v, k) for k in ("start", "stop", "step")):
        return None
    try:
        n = len(v)
        step = int(v.step)
        if n == 0:
            return "empty"
        L = int(v.parent_stop) - int(v.parent_start)
        off = int(getattr(v, "offset", 0) or 0)
    except Exception as e:
        return f"unreadable:{type(e).__name__}"
    return "/".join([
        "reversed" if step < 0 else "forward",
        "stride>1" if abs(step) > 1 else "stride1",
        "residue!=0" if (L - 1) % abs(step) else "residue0",
        "offset!=0" if off else "offset0",
    ])


def gen_seqview(rng):
    n = rng.randint(0, 20)
    ops = [rslice(rng, n) for _ in range(rng.choice([0, 1, 2, 3]))]
    init = rslice(rng, n)
    return dict(family="seqview", text=rtext(rng, "dna", n), start=init[1], stop=init[2], step=init[3], offset=rng.choice([0, 0, 5]), seqid=rng.choice([None, "v"]), ops=ops, hclass=hist_class([init] + ops))


def _aln_seqs(rng, mt, nseq, n, gaps=True, ragged=False):
    names = [f"s{i}" for i in range(nseq)]
    seqs = {}
    for nm in names:
        ln = n if not ragged else max(0, n + rng.randint(-3, 3))
        t = rtext(rng, mt, ln, gaps=gaps)
        if gaps and ln and all(c == "-" for c in t):
            t = rng.choice(ALPH[mt]) + t[1:]
        seqs[nm] = t
    return seqs


def gen_coll(rng, kind=None, small=False):
    kind = kind or rng.choice(["Alignment", "Alignment", "ArrayAlignment", "SequenceCollection"])
    mt = rng.choice(["dna", "dna", "dna", "rna", "protein"])
    nseq = rng.randint(2, 4)
    n = rng.choice([1, 3, 6, 9, 12]) if not small else rng.choice([6, 9])
    aligned = kind != "SequenceCollection"
    seqs = _aln_seqs(rng, mt, nseq, n, gaps=rng.random() < 0.8, ragged=not aligned)
    offsets = None
    if kind != "ArrayAlignment" and rng.random() < 0.35:
        offsets = {nm: rng.choice([0, 2, 7]) for nm in seqs}
    feats = []
    extra = []
    if kind != "ArrayAlignment" and rng.random() < 0.5 and n > 2:
        for _ in range(rng.randint(1, 3)):
            sid = rng.choice(list(seqs))
            ln = len(seqs[sid].replace("-", ""))
            if ln < 2:
                continue
            f = _feat(rng, ln, seqid=sid)
            if kind == "Alignment":
                if rng.random() < 0.3:
                    f = _feat(rng, n, seqid=None, extra={"on_alignment": True})
                    f.pop("seqid", None)
                else:
                    f["on_alignment"] = False
            feats.append(_j(f))
        if feats:
            extra.append("annotated")
    if offsets and any(offsets.values()):
        extra.append("offset")
    ops = []
    cur = n
    for _ in range(rng.choice([0, 1, 1, 2, 3])):
        r = rng.random()
        if r < 0.25 and mt in ("dna", "rna"):
            ops.append(["rc"])
        elif r < 0.4 and nseq > 2:
            keep = rng.sample(list(seqs), rng.randint(1, nseq - 1))
            if all(k in seqs for k in keep) and not any(o[0] in ("take", "rename") for o in ops):
                ops.append(["take", keep])
        elif r < 0.45 and not any(o[0] in ("take", "rename") for o in ops):
            ops.append(["rename"])
        elif r < 0.5:
            ops.append(["info", "k", rng.randint(0, 9)])
        elif r < 0.54:
            ops.append(["deepcopy"])
        elif r < 0.58 and mt in ("dna", "rna") and not any(o[0] == "to_moltype" for o in ops):
            ops.append(["to_moltype", "rna" if mt == "dna" else "dna"])
        elif r < 0.68 and aligned and cur > 1:
            pos = sorted(rng.sample(range(cur), rng.randint(1, cur - 1)))
            ops.append(["take_pos", pos])
            cur = len(pos)
        elif aligned and cur > 0:
            if kind == "ArrayAlignment":
                op = rslice(rng, cur, allow_neg=False, allow_step=rng.random() < 0.4)
            else:
                # Alignment supports neither strides nor out-of-range bounds (IndelMap raises)
                a = rng.randint(0, cur)
                b = rng.randint(a, cur)
                op = ["s", rng.choice([a, a, None]) if a == 0 else a, b, None]
            ops.append(op)
            cur = len(range(cur)[slice(op[1], op[2], op[3])])
        elif not aligned and r < 0.7:
            ops.append(["degap"])
    if kind == "Alignment" and mt in ("dna", "rna") and n >= 6 and rng.random() < 0.2:
        # annotated (feature on a NON-first row) -> sliced -> reverse complemented
        sid = list(seqs)[-1]
        ln = len(seqs[sid].replace("-", ""))
        if ln >= 2:
            f = _feat(rng, ln, seqid=sid, extra={"on_alignment": False})
            feats = feats + [_j(f)]
            a = rng.randint(0, 2)
            ops = [["s", a, rng.randint(a + 2, n), None], ["rc"]]
            if "annotated" not in extra:
                extra.append("annotated")
    return dict(family="coll", kind=kind, moltype=mt, seqs=seqs, offsets=offsets, info=rng.choice([None, {"src": "t"}]), features=feats, ops=ops, hclass=hist_class(ops, extra))


def gen_aligned(rng):
    c = gen_coll(rng, kind="Alignment")
    c["ops"] = [o for o in c["ops"] if o[0] not in ("take", "rename", "seqname")]
    return dict(family="aligned", aln=c, row=rng.choice(list(c["seqs"])), hclass=hist_class(c["ops"], ["offset"] if c.get("offsets") else []))


def gen_collseq(rng):
    c = gen_coll(rng, kind=rng.choice(["Alignment", "SequenceCollection"]))
    c["ops"] = [o for o in c["ops"] if o[0] not in ("take", "rename", "seqname")]
    ops = []
    if rng.random() < 0.7:
        ops.append(rslice(rng, 8, allow_neg=c["moltype"] != "protein"))
    if c["moltype"] != "protein" and rng.random() < 0.3:
        ops.append(["rc"])
    return dict(family="collseq", coll=c, row=rng.choice(list(c["seqs"])), ops=ops, hclass=hist_class(c["ops"] + ops, ["from_" + c["kind"]]))


def gen_newcoll(rng):
    mt = rng.choice(["dna", "dna", "rna", "protein", "text"])
    nseq = rng.randint(2, 4)
    n = rng.choice([1, 4, 8, 12])
    seqs = _aln_seqs(rng, mt, nseq, n, gaps=rng.random() < 0.3, ragged=True)
    ops = []
    feats = []
    extra = []
    if rng.random() < 0.4:
        sid = rng.choice(list(seqs))
        ln = len(seqs[sid])
        if ln > 2:
            feats.append(_j(_feat(rng, ln, seqid=sid)))
            extra.append("annotated")
    for _ in range(rng.choice([0, 1, 1, 2])):
        r = rng.random()
        if r < 0.3 and mt in ("dna", "rna"):
            ops.append(["rc"])
        elif r < 0.55 and nseq > 2 and not any(o[0] in ("take", "rename") for o in ops):
            ops.append(["take", rng.sample(list(seqs), rng.randint(1, nseq - 1))])
        elif r < 0.7:
            ops.append(["degap"])
        elif r < 0.8 and not any(o[0] in ("take", "rename") for o in ops):
            ops.append(["rename"])
        elif r < 0.9 and mt == "dna":
            ops.append(["to_rna"])
        elif r < 0.95:
            ops.append(["deepcopy"])
    return dict(family="newcoll", moltype=mt, seqs=seqs, info=rng.choice([None, {"src": "t"}]), features=feats, ops=ops, hclass=hist_class(ops, extra))


def gen_newcollseq(rng):
    c = gen_newcoll(rng)
    c["ops"] = [o for o in c["ops"] if o[0] in ("rc", "degap")]
    ops = []
    r = rng.random()
    if r < 0.75:
        ops.append(rslice(rng, 8, allow_neg=c["moltype"] in ("dna", "rna", "text")))
    if c["moltype"] in ("dna", "rna") and rng.random() < 0.3:
        ops.append(["rc"])
    return dict(family="newcollseq", coll=c, row=rng.choice(list(c["seqs"])), via=rng.choice(["get_seq", "seqs"]), ops=ops, hclass=hist_class(c["ops"] + ops, ["from_newcoll"]))


def gen_seqsdata(rng):
    c = gen_newcoll(rng)
    return dict(family="seqsdata", coll=c, hclass=c["hclass"])


def _rand_newick(rng, tips, lengths=True, internal_names=False, root_name=False):
    nodes = list(tips)
    k = 0
    while len(nodes) > 1:
        take = 3 if len(nodes) > 3 and rng.random() < 0.25 else 2
        rng.shuffle(nodes)
        grp, nodes = nodes[:take], nodes[take:]
        name = ""
        if internal_names and rng.random() < 0.7 and (nodes or root_name):
            name = rng.choice([f"n{k}", f"n{k}", f"'clade {k}'", f"grp_{k}", f"'a b_{k}'"])
            k += 1
        lab = "(" + ",".join(grp) + ")" + name
        if lengths and nodes:
            lab += f":{rng.choice([0.1, 0.25, 1.0, 2.5, 0.0, 1e-6, 3])}"
        nodes.append(lab)
    return nodes[0] + ";"


def gen_tree(rng, safe=False):
    ntip = rng.randint(2, 7)
    tipnames = rng.choice([
        ["a", "b", "c", "d", "e", "f", "g"],
        ["Human", "Chimp", "Mouse", "Rat", "Dog", "Cow", "Pig"],
        ["t_1", "t-2", "t.3", "t4", "t5", "t6", "t7"],
        # names with spaces / underscores / both (none of them contains a character that breaks the newick on HEAD)
        ["Homo sapiens", "Pan troglodytes", "Mus_musculus", "rat x_1", "dog", "Bos taurus", "pig"],
    ])[:ntip]
    lengths = rng.random() < 0.8
    q = lambda t: f"'{t}'" if " " in t else t
    tips = [f"{q(t)}:{rng.choice([0.1, 0.5, 1.0, 2.0, 0.333, 7])}" if lengths else q(t) for t in tipnames]
    root_name = (not safe) and rng.random() < 0.12
    nw = _rand_newick(rng, tips, lengths, internal_names=root_name or rng.random() < 0.5, root_name=root_name)
    named_root = not nw.endswith(");")
    extra = ["lengths"] if lengths else ["nolengths"]
    # the ROOT carries a length in the newick itself: '(...):7;'
    if lengths and rng.random() < 0.3:
        nw = nw[:-1] + f":{rng.choice([7, 0.5, 1.25])};"
        extra.append("root_attrs")
    ops = []
    for _ in range(rng.choice([0, 1, 1, 2, 3])):
        r = rng.random()
        if r < 0.12:
            ops.append(["param", rng.choice(tipnames), rng.choice(["kappa", "omega", "support"]), rng.choice([0.5, 2.25, 3, "high", None, [1, 2]])])
        elif r < 0.22:
            ops.append(["int_param", rng.randint(0, 5), rng.choice(["kappa", "support", "note"]), rng.choice([0.75, 4, "x", [1, 2]])])
        elif r < 0.27:
            ops.append(["int_len", rng.randint(0, 5), rng.choice([0.0, 0.625, 4])])
        elif r < 0.35:
            ops.append(["root_param", rng.choice(["kappa", "support", "note"]), rng.choice([1.5, 2, "r", [3, 4]])])
            if "root_attrs" not in extra:
                extra.append("root_attrs")
        elif r < 0.41:
            ops.append(["root_len", rng.choice([0.5, 2.0, 9])])
            if "root_attrs" not in extra:
                extra.append("root_attrs")
        elif r < 0.5 and ntip > 3:
            ops.append(["sub", rng.sample(tipnames, rng.randint(3, ntip))])
        elif r < 0.57:
            ops.append(["unrooted"])
        elif r < 0.63 and lengths:
            ops.append(["scale", rng.choice([0.5, 3.0])])
        elif r < 0.67 and lengths:
            ops.append(["scale_bl", rng.choice([10, 100])])
        elif r < 0.73:
            ops.append(["set_len", rng.choice(tipnames), rng.choice([0.0, 1.125, 5])])
        elif r < 0.78:
            newname = rng.choice(["x1", "new name", "clade one", "two  spaces x", "under_score", "mix ed_name", "a:b", "w(1)", "p;q", "r[s", "u]v"]) if not safe else rng.choice(["x1", "new name"])
            ops.append(["rename", rng.choice(tipnames), newname])
            if any(ch in newname for ch in ":();[]"):
                # the characters that really break the exported newick on HEAD (TreeParseError); space, underscore and quotes do not
                ops.append(["special_name"])
            tipnames = None
            break
        elif r < 0.83:
            ops.append(["sorted"])
        elif r < 0.87 and not safe:
            ops.append(["bifurcating"])
        elif r < 0.95 and ntip > 2:
            ops.append(["rooted_at", "__internal__"])
        elif r < 0.975:
            ops.append(["deepcopy"])
        elif not safe:
            ops.append(["name_unnamed"])
            named_root = True
    if named_root:
        extra.append("named_root")
    if " " in nw or any(o[0] == "rename" and " " in o[2] for o in ops):
        extra.append("space_name")
    return dict(family="tree", newick=nw, ops=ops, hclass=hist_class(ops, extra))


def gen_table(rng):
    ncol = rng.randint(1, 4)
    nrow = rng.choice([0, 1, 2, 4, 7])
    kinds = [rng.choice(["int", "float", "str", "mixed"]) for _ in range(ncol)]
    header = [f"c{i}" for i in range(ncol)]
    if rng.random() < 0.2:
        header[0] = "gene id"

    def cell(k):
        if k == "int":
            return rng.randint(-5, 99)
        if k == "float":
            return rng.choice([0.5, 1.25, -3.75, 1e-9, 123456.789, 0.1, float(rng.randint(0, 9))])
        if k == "str":
            return rng.choice(["a", "ab", "b c", "", "x,y", "Z"])
        return rng.choice([1, 2.5, "s", None])

    rows = [[cell(k) for k in kinds] for _ in range(nrow)]
    ops = []
    num_cols = [h for h, k in zip(header, kinds) if k in ("int", "float")]
    for _ in range(rng.choice([0, 1, 1, 2, 3])):
        r = rng.random()
        if r < 0.2 and nrow and "mixed" not in kinds:
            ops.append(["sorted", rng.choice(header), rng.choice([None, None, header[0]])])
        elif r < 0.35 and ncol > 1:
            ops.append(["cols", rng.sample(header, rng.randint(1, ncol))])
            break
        elif r < 0.5 and nrow > 1:
            ops.append(["rows", 0, rng.randint(0, nrow)])
        elif r < 0.6 and num_cols and nrow:
            ops.append(["filtered", rng.choice(num_cols), 0])
        elif r < 0.7 and num_cols:
            ops.append(["format", rng.choice(num_cols), rng.choice(["%.2f", "%d", "%.1e"])])
        elif r < 0.8:
            ops.append(["title", rng.choice(["T", "a title", ""])])
        elif r < 0.88:
            ops.append(["legend", "some legend"])
        elif r < 0.94 and nrow and kinds[0] in ("str", "int") and len({repr(x[0]) for x in rows}) == nrow:
            ops.append(["index", header[0]])
    return dict(
        family="table", header=header, rows=rows, title=rng.choice(["", "tab"]), legend=rng.choice(["", "leg"]),
        index_name=None, digits=rng.choice([4, 2]), space=rng.choice([4, 2]), missing_data=rng.choice(["", "NA"]),
        ops=ops, hclass=hist_class(ops, sorted(set(kinds)) + (["empty"] if nrow == 0 else [])),
    )


def gen_dictarray(rng):
    dims = rng.choice([1, 2, 2, 3])
    shape = [rng.randint(1, 3) for _ in range(dims)]
    names = []
    for d, sz in enumerate(shape):
        names.append(rng.choice([list("abcd")[:sz], list(range(sz)), [f"k{d}{i}" for i in range(sz)]]))
    import itertools as it

    def mk(shape):
        if len(shape) == 1:
            return [rng.choice([0.0, 0.5, 1.25, -2.0, 1e-12, 3.0]) for _ in range(shape[0])]
        return [mk(shape[1:]) for _ in range(shape[0])]

    dtype = rng.choice(["float64", "float64", "int64"])
    data = mk(shape)
    if dtype == "int64":
        def toint(x):
            return [toint(y) for y in x] if isinstance(x, list) else int(x)
        data = toint(data)
    ops = []
    if dims > 1 and rng.random() < 0.4:
        ops.append(["item", rng.choice(names[0])])
    elif rng.random() < 0.3 and shape[0] > 1:
        ops.append(["rows", 0, rng.randint(1, shape[0])])
    return dict(family="dictarray", names=names, data=data, dtype=dtype, ops=ops, hclass=hist_class(ops, [f"{dims}d", dtype]))


def gen_distmat(rng):
    n = rng.randint(2, 5)
    names = [f"s{i}" for i in range(n)]
    dists = []
    extra = []
    # symmetric (what the distance calculators produce) / DIRECTIONAL values ((a,b) != (b,a)) / one direction only
    # (the constructor fills in the other): a matrix is a full square array, nothing says it is symmetric
    mode = rng.choice(["symmetric", "symmetric", "directional", "directional", "upper_only"])
    vals = [0.0, 0.1, 0.25, 1.5, 2.0]
    for a, b in itertools.combinations(names, 2):
        v = rng.choice(vals)
        dists.append([a, b, v])
        if mode == "symmetric":
            dists.append([b, a, v])
        elif mode == "directional":
            dists.append([b, a, rng.choice([w for w in vals if w != v]) if rng.random() < 0.7 else v])
    if mode != "symmetric":
        extra.append(mode)
    ops = []
    if rng.random() < 0.3:
        # one cell re-assigned after construction (only that cell changes)
        a, b = rng.sample(names, 2)
        ops.append(["set", a, b, rng.choice([0.75, 3.0, 0.0])])
    if n > 2 and rng.random() < 0.3:
        # one pair without a valid distance (None -> nan)
        a, b = rng.sample(names, 2)
        dists = [[x, y, (None if {x, y} == {a, b} else v)] for x, y, v in dists]
        extra.append("invalid")
        if rng.random() < 0.6:
            ops.append(["drop_invalid"])
    if n > 2 and rng.random() < 0.5:
        ops.append(["take", rng.sample(names, rng.randint(2, n - 1)), rng.random() < 0.3])
    if rng.random() < 0.1:
        ops.append(["deepcopy"])
    return dict(family="distmat", dists=dists, ops=ops, hclass=hist_class(ops, extra))


def gen_alphabet(rng):
    mt = rng.choice(["dna", "rna", "protein", "text" if False else "dna"])
    which = rng.choice(["alphabet", "degen", "gapped", "degen_gapped", "base"])
    ops = []
    r = rng.random()
    if r < 0.3:
        ops.append(["word", rng.choice([2, 3])])
    elif r < 0.4 and which == "alphabet":
        ops.append(["gapped"])
    elif r < 0.55 and which == "alphabet":
        letters = ALPH[mt]
        ops.append(["sub", rng.sample(list(letters), 2), rng.random() < 0.5])
    return dict(family="alphabet", moltype=mt, which=which, ops=ops, hclass=hist_class(ops, [which]))


def gen_moltype(rng):
    return dict(family="moltype", label=rng.choice(["dna", "rna", "protein", "protein_with_stop", "text", "bytes"]), ops=[], hclass="fresh")


def gen_newalphabet(rng):
    mt = rng.choice(["dna", "rna", "protein", "text", "protein_with_stop"])
    which = rng.choice(["alphabet", "degen_alphabet", "gapped_alphabet", "degen_gapped_alphabet", "most_degen_alphabet"])
    ops = []
    r = rng.random()
    if r < 0.35 and mt in ("dna", "rna"):
        ops.append(["kmer", rng.choice([1, 2, 3]), rng.random() < 0.5 and which in ("gapped_alphabet", "degen_gapped_alphabet")])
    elif r < 0.6:
        ops.append(["codon", rng.choice([1, 2, 4, 11]), rng.random() < 0.5])
    return dict(family="newalphabet", moltype=mt, which=which, ops=ops, hclass=hist_class(ops, [which]))


def gen_indelmap(rng):
    ops = []
    r = rng.random()
    if r < 0.5:
        n = rng.randint(1, 14)
        g = rtext(rng, "dna", n, gaps=True)
        rec = dict(family="indelmap", gapped=g)
        ln = n
    else:
        k = rng.randint(0, 4)
        plen = rng.randint(k, 12)
        pos = sorted(rng.sample(range(0, plen + 1), k))
        lens = [rng.randint(1, 4) for _ in range(k)]
        ln = plen + sum(lens)
        if rng.random() < 0.5:
            rec = dict(family="indelmap", gap_pos=pos, lengths=lens, parent_length=plen, termini_unknown=rng.random() < 0.2)
        else:
            cum = list(itertools.accumulate(lens))
            rec = dict(family="indelmap", gap_pos=pos, cum=cum, lengths=None, parent_length=plen, termini_unknown=rng.random() < 0.2)
    for _ in range(rng.choice([0, 0, 1, 2])):
        r = rng.random()
        if r < 0.5 and ln > 0:
            a = rng.randint(0, ln)
            b = rng.randint(a, ln)
            ops.append(["s", a, b])
            ln = b - a
        elif r < 0.75:
            ops.append(["rev"])
        elif r < 0.9:
            ops.append(["termini"])
    rec["ops"] = ops
    rec["hclass"] = hist_class([o if o[0] != "s" else ["s", o[1], o[2], None] for o in ops], ["from_gapped" if "gapped" in rec else ("from_lengths" if rec.get("lengths") is not None else "from_cum")])
    return rec


def gen_featuremap(rng):
    plen = rng.randint(2, 20)
    ops = []
    if rng.random() < 0.5:
        rec = dict(family="featuremap", locations=rspans(rng, plen), parent_length=plen)
    else:
        spans = []
        for s in rspans(rng, plen):
            d = dict(start=s[0], end=s[1])
            r = rng.random()
            if r < 0.2:
                d = dict(start=s[1], end=s[0])  # constructor swaps
            elif r < 0.3:
                d = dict(start=s[0], end=None)
            if rng.random() < 0.3:
                d["reverse"] = True
            if rng.random() < 0.15:
                d["tidy_start"] = True
            spans.append(d)
            if rng.random() < 0.3:
                spans.append(dict(length=rng.randint(1, 3)))
        rec = dict(family="featuremap", spans=spans, parent_length=plen)
    for _ in range(rng.choice([0, 0, 1, 2])):
        ops.append([rng.choice(["nucleic_reversed", "covered", "without_gaps", "shadow", "zeroed", "scale"]), 3])
    rec["ops"] = ops
    rec["hclass"] = hist_class(ops, ["from_locations" if "locations" in rec else "from_spans"])
    return rec


def gen_db(rng):
    kind = rng.choice(["basic", "basic", "gff", "genbank"])
    rec = dict(family="db", kind=kind, ops=[])
    if kind == "gff":
        lines = []
        for i in range(rng.randint(1, 4)):
            a = rng.randint(1, 50)
            b = a + rng.randint(0, 30)
            lines.append(rng.choice(GFF_LINES).format(seqid=rng.choice(["chr1", "II"]), a=a, b=b, i=i))
        rec["gff"] = lines
    ops = rec["ops"]
    for _ in range(rng.choice([0, 1, 2, 3]) if kind != "basic" else rng.choice([1, 2, 4])):
        r = rng.random()
        f = dict(seqid=rng.choice(["chr1", "s1", "II"]), biotype=rng.choice(["gene", "exon", "SNP"]), name=f"n{rng.randint(0, 50)}", spans=rspans(rng, 40), strand=rng.choice(["+", "-", None]))
        if rng.random() < 0.2:
            f["parent_id"] = "gene0"
        if rng.random() < 0.15:
            f["attributes"] = "note=x"
        if r < 0.6 or kind == "basic" and not ops:
            ops.append(["add", f])
        elif r < 0.75:
            ops.append(["subset", dict(biotype=rng.choice(["gene", "exon"]))])
        elif r < 0.88:
            ops.append(["union_basic", [f]])
        else:
            ops.append(["update_basic", [f]])
    rec["hclass"] = hist_class(ops, [kind])
    return rec


MODELS_QUICK = ["JC69", "F81", "HKY85", "TN93", "GTR", "BH", "GN", "ssGN", "JTT92", "WG01", "DSO78", "AH96", "AH96_mtmammals", "MG94HKY", "MG94GTR", "GY94", "CNFGTR", "CNFHKY", "Y98", "H04G", "H04GK", "H04GGK", "GNC", "K80", "JC69"]


def gen_model(rng):
    from cogent3 import available_models

    names = [r[1] for r in available_models().to_list()] if rng.random() < 0.5 else MODELS_QUICK
    name = rng.choice(names)
    kw = {}
    if rng.random() < 0.15:
        # the "solved" nucleotide models: another CLASS (evolve/solved_models.PredefinedNucleotide) reached through a keyword
        return dict(family="model", name=rng.choice(["F81", "HKY85", "TN93"]), kw={"rate_matrix_required": False}, ops=[], hclass="solved")
    return dict(family="model", name=name, kw=kw, ops=[], hclass="named")


def gen_lf(rng, optimise=False, boundary=None):
    """`boundary`: put a parameter on a SPECIAL value before serialising — exactly 0.0 (free or constant), exactly on its
    lower / upper bound. Such values come out of get_param_rules() as init=0.0 / init=lower and must be re-applied as
    they are (fitted values never sit there: the optimiser stops near, not on, a bound). None = seeded choice (30 %)."""
    model = rng.choice(["JC69", "F81", "HKY85", "HKY85", "TN93", "GTR", "GN", "BH"])
    names = ["a", "b", "c", "d"][: rng.choice([3, 3, 4])]
    n = rng.choice([12, 18])
    seqs = {nm: rtext(rng, "dna", n) for nm in names}
    tips = [f"{t}:{rng.choice([0.1, 0.2, 0.5])}" for t in names]
    tree = _rand_newick(rng, tips, True, internal_names=False)
    aln = dict(family="coll", kind=rng.choice(["Alignment", "ArrayAlignment"]), moltype="dna", seqs=seqs, offsets=None, info=None, features=[], ops=[])
    extra = [model]
    if rng.random() < 0.35:
        a = rng.randint(0, 4)
        aln["ops"].append(["s", a, a + rng.choice([6, 9]), None])
        extra.append("sliced_aln")
    if rng.random() < 0.2:
        aln["ops"].append(["rc"])
        extra.append("rc_aln")
    rules = []
    lf_kw = {}
    has_kappa = model in ("HKY85", "TN93")
    r = rng.random()
    if model != "BH":
        if r < 0.3:
            rules.append(dict(par_name="length", is_independent=False))
            extra.append("rescoped")
        elif r < 0.5:
            rules.append(dict(par_name="length", edges=[names[0], names[1]], is_independent=False, init=0.3))
            extra.append("rescoped")
        elif r < 0.6:
            rules.append(dict(par_name="length", edge=names[0], is_constant=True, value=0.25))
            extra.append("const")
    if model == "HKY85" and rng.random() < 0.6:
        q = rng.random()
        if q < 0.4:
            rules.append(dict(par_name="kappa", is_constant=True, value=2.5))
            extra.append("const")
        elif q < 0.7:
            rules.append(dict(par_name="kappa", edges=[names[0]], init=3.0))
            extra.append("rescoped")
        else:
            rules.append(dict(par_name="kappa", init=1.5, upper=20.0, lower=0.1))
            extra.append("bounded")
    kw = {}
    time_het = None
    q = rng.random()
    if model in ("HKY85", "GTR") and q < 0.2:
        kw = dict(with_rate=True, distribution="gamma")
        lf_kw = dict(bins=2)
        extra.append("bins")
    elif model in ("F81", "HKY85", "JC69", "GTR") and q < 0.45:
        # locus names NOT in alphabetical order, a different alignment on each locus, locus-scoped parameters
        lnames = rng.choice([["nuclear", "mito"], ["z_loc", "a_loc"], ["l2", "l1"], ["x", "m", "b"]])
        lf_kw = dict(loci=lnames)
        alns = []
        for _ in lnames[1:]:
            n2 = rng.choice([10, 15, 21])
            alns.append(dict(family="coll", kind=aln["kind"], moltype="dna", seqs={nm: rtext(rng, "dna", n2) for nm in names}, offsets=None, info=None, features=[], ops=[]))
        extra.append("loci")
        par = {"HKY85": "kappa", "GTR": "A/G"}.get(model)
        if par and not any(r_["par_name"] == par for r_ in rules):
            rules.append(dict(par_name=par, loci="EACH"))
            for j, ln in enumerate(lnames):
                rules.append(dict(par_name=par, locus=ln, init=[2.0, 5.0, 0.5][j]))
            extra.append("locus_scoped")
    elif model in ("HKY85", "TN93", "GTR") and q < 0.6 and not any(r_["par_name"] == "kappa" for r_ in rules):
        time_het = dict(edge_sets=[dict(edges=[names[0], names[1]])], is_independent=rng.random() < 0.5)
        extra.append("time_het")
    if model in ("F81", "JC69") and rng.random() < 0.15:
        rules.append(dict(par_name="length", edge=names[-1], init=0.4, lower=0.01, upper=5.0))
        extra.append("bounded")
    if boundary is None:
        boundary = rng.random() < 0.3
    if boundary:
        q = rng.random()
        if has_kappa and not isinstance(boundary, str) and q < 0.3 and not any(r_["par_name"] == "kappa" for r_ in rules) and not time_het:
            lo, up = rng.choice([(1.0, 5.0), (0.5, 2.0)])
            rules.append(dict(par_name="kappa", lower=lo, upper=up, **{rng.choice(["init", "value"]): rng.choice([lo, up])}))
            extra.append("on_bound")
        elif model != "BH":
            # a branch length of exactly zero on ONE edge (two zero edges make the alignment impossible: lnL = -inf)
            rules = [r_ for r_ in rules if r_["par_name"] != "length"]
            for t_ in ("rescoped",):
                if t_ in extra and not any(r_.get("edges") for r_ in rules):
                    extra.remove(t_)
            e = rng.choice(names)
            # the same state through the different API routes that lead to it: init= / value= / clamped by upper=0 /
            # held constant at 0 and then freed again / (constant at 0)
            how = boundary if isinstance(boundary, str) else rng.choice(["init", "value", "clamp", "free", "const"])
            if how == "init":
                rules.append(dict(par_name="length", edge=e, init=0.0, **({} if q < 0.6 else dict(lower=0.0, upper=rng.choice([0.5, 2.0])))))
            elif how == "value":
                rules.append(dict(par_name="length", edge=e, value=0.0, **({} if q < 0.6 else dict(lower=0.0, upper=rng.choice([0.5, 2.0])))))
            elif how == "clamp":
                rules.append(dict(par_name="length", edge=e, upper=0.0))
            elif how == "free":
                rules.append(dict(par_name="length", edge=e, is_constant=True, value=0.0))
                rules.append(dict(par_name="length", edge=e, is_constant=False))
            else:
                rules.append(dict(par_name="length", edge=e, is_constant=True, value=0.0))
            extra.append("zero_const" if how == "const" else "zero_free")
            extra.append("via_" + how)
    return dict(family="lf", model=model, kw=kw, tree=tree, aln=aln, alns=(alns if "loci" in extra else None), rules=rules, lf_kw=lf_kw, time_het=time_het, name=rng.choice([None, "my lf"]), optimise=(5 if optimise else 0), ops=[], hclass="+".join(sorted(set(extra + (["optimised"] if optimise else [])))))


def gen_nc(rng):
    src = rng.choice([None, "path/to/file.fa", "x.json"])
    rec = dict(family="nc", type=rng.choice(["ERROR", "FAIL", "BUG"]), origin=rng.choice(["app_x", "take_n", "model"]), message=rng.choice(["something broke", "Traceback: line 3\nValueError('x')", ""]), source=src, ops=[], hclass="fresh")
    r = rng.random()
    if r < 0.2:
        c = gen_coll(rng, kind="Alignment")
        c["info"] = {"source": "from_aln.fa"}
        rec["source"] = c
        rec["hclass"] = "source_obj"
    elif r < 0.35:
        # origin given as an object (an app instance): NotCompleted records its class name
        rec["origin"] = {"app": rng.choice(["take_n_seqs", "omit_degenerates", "min_length"])}
        rec["hclass"] = "origin_obj"
    elif r < 0.5:
        # source is itself a NotCompleted produced upstream (nested): its .source is inherited
        rec["source"] = dict(family="nc", type="FAIL", origin="upstream", message="first failure", source=rng.choice(["deep/file.fa", None]), ops=[], hclass="fresh")
        rec["hclass"] = "nested_nc"
    elif r < 0.6:
        rec["source"] = gen_seq(rng, impl="old")
        rec["source"]["info"] = {"source": "seq_src.fa"}
        rec["hclass"] = "source_seq"
    return rec


def _no_format(rec):
    """nested tables: without column formats (their loss is a listed finding of the table family)"""
    if isinstance(rec, dict) and rec.get("family") == "table":
        rec["ops"] = [o for o in rec["ops"] if o[0] != "format"]
        rec["hclass"] = rec["hclass"].replace("+format", "").replace("format+", "")
    return rec


def gen_result(rng, heavy=False):
    r = rng.random()
    if r < 0.35 or not heavy and r < 0.6:
        items = []
        for i in range(rng.randint(0, 4)):
            q = rng.random()
            if q < 0.25:
                v = rng.choice([1, 2.5, "s", [1, 2, 3], {"a": 1}])
            elif q < 0.45:
                v = _no_format(gen_table(rng))
            elif q < 0.6:
                v = gen_dictarray(rng)
            elif q < 0.75:
                v = gen_coll(rng)
            elif q < 0.85:
                v = gen_tree(rng, safe=True)
            elif q < 0.92:
                v = gen_seq(rng, impl="old")
            else:
                v = gen_distmat(rng)
            items.append([rng.choice([f"k{i}", f"key {i}"]), v])
        return dict(family="result", kind="generic", source=rng.choice(["src.fa", "a/b.json"]), items=items, ops=[], hclass="generic:" + "+".join(sorted({(v.get("family") if isinstance(v, dict) and "family" in v else "plain") for _, v in items})))
    if r < 0.75 or not heavy:
        items = []
        for i in range(rng.randint(1, 3)):
            items.append([f"t{i}", _no_format(rng.choice([gen_table, gen_dictarray, gen_distmat])(rng))])
        return dict(family="result", kind="tabular", source="src.fa", items=items, ops=[], hclass="tabular")
    q = rng.random()
    if q < 0.5:
        lf = gen_lf(rng)
        return dict(family="result", kind="model", name="m1", source="src.fa", lf=lf, ops=[], hclass="model:" + lf["hclass"])
    lf1 = gen_lf(rng)
    lf2 = dict(lf1)
    lf2["model"] = "HKY85" if lf1["model"] != "HKY85" else "GTR"
    lf2["rules"] = [r_ for r_ in lf1["rules"] if r_["par_name"] == "length"]
    lf2["lf_kw"] = {}
    lf1 = dict(lf1, lf_kw={})
    kind = "hypothesis" if q < 0.8 else "model_collection"
    return dict(family="result", kind=kind, null="null", source="src.fa", models=[["null", lf1], ["alt", lf2]], ops=[], hclass=kind)


# family -> (generator, routes, weight quick, weight thorough)
FAMILIES = {
    "seq": (gen_seq, ["json", "rich", "pickle", "copy"]),
    # directed view states (strand x stride x residue x offset), through every route incl. copy.deepcopy and json FILE -> load
    "seqstate": (gen_seqstate, ["json", "rich", "pickle", "copy", "deepcopy", "file"]),
    "collseqstate": (gen_collseqstate, ["json", "rich", "pickle", "copy", "deepcopy", "file"]),
    "seqview": (gen_seqview, ["rich", "pickle", "copy"]),
    "coll": (gen_coll, ["json", "rich", "pickle"]),
    "aligned": (gen_aligned, ["json", "rich", "pickle"]),
    "collseq": (gen_collseq, ["json", "rich", "pickle", "copy"]),
    "newcoll": (gen_newcoll, ["json", "rich", "pickle"]),
    "newcollseq": (gen_newcollseq, ["json", "rich", "pickle", "copy"]),
    "seqsdata": (gen_seqsdata, ["json", "rich", "pickle"]),
    "tree": (gen_tree, ["json", "rich", "pickle"]),
    "table": (gen_table, ["json", "rich", "pickle"]),
    "dictarray": (gen_dictarray, ["json", "rich", "pickle"]),
    "distmat": (gen_distmat, ["json", "rich", "pickle"]),
    "alphabet": (gen_alphabet, ["json", "rich", "pickle"]),
    "moltype": (gen_moltype, ["json", "rich", "pickle"]),
    "newalphabet": (gen_newalphabet, ["json", "rich", "pickle"]),
    "indelmap": (gen_indelmap, ["json", "rich", "pickle"]),
    "featuremap": (gen_featuremap, ["json", "rich", "pickle"]),
    "db": (gen_db, ["json", "rich", "pickle"]),
    "model": (gen_model, ["json", "rich", "pickle"]),
    "lf": (gen_lf, ["json", "rich"]),
    "nc": (gen_nc, ["json", "rich", "pickle"]),
    "result": (gen_result, ["json", "rich"]),
}

# which registry keys (type strings of util/deserialise.py's map) a family reaches; a registered
# key with no family is reported in ctx.notes
COVERS = {
    "cogent3.util.table.Table": ["table"],
    "cogent3.util.dict_array.DictArray": ["dictarray"],
    "cogent3.evolve.fast_distance.DistanceMatrix": ["distmat"],
    "cogent3.core.sequence.SeqView": ["seqview", "seq"],
    "cogent3.app.composable.NotCompleted": ["nc"],
    "cogent3.app.result": ["result"],
    "cogent3.core.moltype": ["moltype"],
    "cogent3.core.alphabet": ["alphabet"],
    "cogent3.core.alignment.Aligned": ["aligned", "coll"],
    "cogent3.core.sequence": ["seq", "seqstate", "collseq", "collseqstate"],
    "cogent3.core.alignment": ["coll"],
    "cogent3.core.tree": ["tree"],
    "cogent3.evolve.substitution_model": ["model"],
    "cogent3.evolve.ns_substitution_model": ["model"],
    "cogent3.evolve.parameter_controller": ["lf"],
    "cogent3.core.location.IndelMap": ["indelmap"],
    "cogent3.core.location.FeatureMap": ["featuremap"],
    "cogent3.core.annotation_db.BasicAnnotationDb": ["db"],
    "cogent3.core.annotation_db.GffAnnotationDb": ["db"],
    "cogent3.core.annotation_db.GenbankAnnotationDb": ["db"],
    "annotation_to_annotation_db": ["legacy_annotations"],
    "cogent3.core.new_alphabet.CharAlphabet": ["newalphabet"],
    "cogent3.core.new_alphabet.KmerAlphabet": ["newalphabet"],
    "cogent3.core.new_alphabet.CodonAlphabet": ["newalphabet"],
    "cogent3.core.new_sequence.Sequence": ["seq", "seqstate"],
    "cogent3.core.new_sequence.ProteinSequence": ["seq", "seqstate"],
    "cogent3.core.new_sequence.ByteSequence": ["seq"],
    "cogent3.core.new_sequence.ProteinWithStopSequence": ["seq"],
    "cogent3.core.new_sequence.DnaSequence": ["seq", "seqstate", "newcollseq", "collseqstate"],
    "cogent3.core.new_sequence.RnaSequence": ["seq", "seqstate", "newcollseq", "collseqstate"],
    "cogent3.core.new_alignment.SeqsData": ["seqsdata"],
    "cogent3.core.new_alignment.SequenceCollection": ["newcoll"],
}
