"""C07 helpers: random cell graphs, the REAL `Calculator` built from them, change histories."""
from __future__ import annotations

import contextlib
import io

MOD = 1000003


# --------------------------------------------------------------------------
# graph specs (JSON-able; the same dict goes to the Lean driver)
# --------------------------------------------------------------------------
def rand_graph(rng, n_cells=None, p_rec=0.3, p_raise=0.35, allow_const_rec=True):
    n = n_cells or rng.randint(3, 25)
    n_opt = rng.randint(1, max(1, min(6, n - 2)))
    cells = []
    for k in range(n_opt):
        cells.append(dict(k="opt", add=rng.choice([0, 0, 0, 1, -2, 5])))
    n_const = rng.randint(0, max(0, min(3, n - n_opt - 1)))
    for k in range(n_const):
        cells.append(dict(k="const", v=rng.randint(0, 9)))
    while len(cells) < n:
        k = len(cells)
        na = rng.randint(1, min(4, k))
        if rng.random() < 0.15 and n_const and allow_const_rec:
            # a constant evaluated cell (args only among consts / earlier constant cells)
            pool = [i for i, c in enumerate(cells) if c["k"] == "const" or c.get("isconst")]
            args = [rng.choice(pool) for _ in range(na)]
            isconst = True
        else:
            # bias towards recent cells and optpars so that programs are deep
            args = []
            for _ in range(na):
                r = rng.random()
                if r < 0.35:
                    args.append(rng.randrange(n_opt))
                elif r < 0.8:
                    args.append(rng.randrange(max(0, k - 4), k))
                else:
                    args.append(rng.randrange(k))
            isconst = all(cells[a]["k"] == "const" or cells[a].get("isconst") for a in args)
        raising = (not isconst) and rng.random() < p_raise
        rmod = rng.choice([2, 3, 5, 7]) if raising else 0
        cells.append(
            dict(
                k="eval",
                rec=rng.random() < p_rec,
                args=args,
                salt=rng.randint(0, 50),
                mult=rng.choice([1, 2, 3, 7, 31]),
                rmod=rmod,
                rres=rng.randrange(rmod) if rmod else 0,
                isconst=isconst,
            )
        )
    return dict(cells=cells)


def n_opt_of(graph):
    return sum(1 for c in graph["cells"] if c["k"] == "opt")


def hash_calc(c, vals):
    t = sum((i + 3) * a for i, a in enumerate(vals))
    v = (t * c["mult"] + c["salt"]) % MOD
    if c["rmod"] > 0 and v % c["rmod"] == c["rres"]:
        return None
    return v


def fresh_python(graph, x):
    """independent oracle: evaluate the graph from scratch in plain python (None: raises)"""
    vals = []
    for k, c in enumerate(graph["cells"]):
        if c["k"] == "opt":
            vals.append(x[k] + c["add"])
        elif c["k"] == "const":
            vals.append(c["v"])
        else:
            v = hash_calc(c, [vals[a] for a in c["args"]])
            if v is None:
                return None
            vals.append(v)
    return vals


# --------------------------------------------------------------------------
# the real Calculator
# --------------------------------------------------------------------------
def _as_int(a):
    import numpy

    if a is None:
        return None
    if isinstance(a, numpy.ndarray):
        return int(a[0])
    return int(a)


def build_real(graph, x0, with_undo=True, trace=False, bounds=(-1e12, 1e12)):
    import numpy

    from cogent3.maths.optimisers import ParameterOutOfBoundsError
    from cogent3.recalculation.calculation import (
        Calculator,
        ConstCell,
        EvaluatedCell,
        OptPar,
    )

    class AddOptPar(OptPar):
        __slots__ = ["add"]

        def transform_from_optimiser(self, value):
            return value + self.add

        def transform_to_optimiser(self, value):
            return value - self.add

    def mk_calc(c):
        def h(args):
            v = hash_calc(c, [_as_int(a) for a in args])
            if v is None:
                if c["salt"] % 2:
                    raise ParameterOutOfBoundsError("model oob")
                raise ZeroDivisionError("model arith")
            return v

        if c["rec"]:

            def calc(own, *args):
                if own is None:
                    own = numpy.zeros(3)
                # adversarial recycling: the scratch array is clobbered before anything else
                own[:] = -1.0
                v = h(args)
                own[:] = [v, v + 1, v + 2]
                return own

        else:

            def calc(*args):
                return h(args)

        return calc

    objs = []
    for k, c in enumerate(graph["cells"]):
        if c["k"] == "opt":
            p = AddOptPar(f"p{k}", (f"e{k}",), (float(bounds[0]), float(x0[k] + c["add"]), float(bounds[1])))
            p.add = c["add"]
            objs.append(p)
        elif c["k"] == "const":
            objs.append(ConstCell(f"c{k}", c["v"]))
        else:
            objs.append(
                EvaluatedCell(f"v{k}", mk_calc(c), [objs[a] for a in c["args"]], recycling=c["rec"] or None)
            )
    with contextlib.redirect_stdout(io.StringIO()):
        calc = Calculator(objs, {}, with_undo=with_undo, trace=trace)
    return calc


def snapshot(calc):
    cur = calc.cell_values[calc._switch]
    return dict(
        last=[_as_int(v) for v in calc.last_values],
        cur=[_as_int(v) for v in cur],
        undo=[[int(i), _as_int(v)] for i, v in calc.last_undo],
        sw=bool(calc._switch),
        reported=[_as_int(v) for v in calc.get_value_array()],
    )


def apply_real(calc, op):
    """-> (ret or None, raised class name or None)"""
    from cogent3.maths.optimisers import ParameterOutOfBoundsError

    try:
        with contextlib.redirect_stdout(io.StringIO()):
            if op[0] == "call":
                r = calc(list(op[1]))
            else:
                r = calc.change([(i, v) for i, v in op[1]])
        return _as_int(r), None
    except (ParameterOutOfBoundsError, ArithmeticError) as e:
        return None, type(e).__name__
    except Exception as e:  # noqa  (an exception the calculator is not supposed to let out)
        return None, "ESCAPED:" + type(e).__name__


# --------------------------------------------------------------------------
# histories
# --------------------------------------------------------------------------
def rand_history(rng, graph, x0, length, malformed=False):
    """ops are generated against a shadow of the *requested* vectors; after a failing call the true
    vector may differ (that is the point), so 'revert' ops are only approximately reverting then."""
    n_opt = n_opt_of(graph)
    cur = list(x0)
    prev = list(x0)
    prev2 = list(x0)
    ops = []
    vals = lambda: rng.randint(0, 6)
    for _ in range(length):
        r = rng.random()
        new = list(cur)
        if r < 0.25:
            i = rng.randrange(n_opt)
            new[i] = vals()
        elif r < 0.45:
            for i in rng.sample(range(n_opt), rng.randint(1, n_opt)):
                new[i] = vals()
        elif r < 0.65:
            new = list(prev)  # exact reversal of the last step
        elif r < 0.8:
            new = list(prev)  # reversal plus a further change
            new[rng.randrange(n_opt)] = vals()
        elif r < 0.88:
            new = list(prev2)
        elif r < 0.93:
            pass  # same vector again
        else:
            new = [vals() for _ in range(n_opt)]
        kind = "call" if rng.random() < 0.6 else "change"
        if kind == "call":
            ops.append(["call", new])
        else:
            ch = [[i, new[i]] for i in range(n_opt) if new[i] != cur[i] or rng.random() < 0.1]
            rng.shuffle(ch)
            if malformed and rng.random() < 0.3:
                m = rng.random()
                if m < 0.5 and ch:
                    # duplicate index with another value
                    i = rng.choice(ch)[0]
                    ch.insert(rng.randrange(len(ch) + 1), [i, vals()])
                else:
                    # directly set a non-optimiser, non-recycled cell
                    cand = [
                        k
                        for k, c in enumerate(graph["cells"])
                        if c["k"] == "const" or (c["k"] == "eval" and not c["rec"])
                    ]
                    if cand:
                        ch.append([rng.choice(cand), vals()])
            ops.append(["change", ch])
        prev2, prev, cur = prev, cur, new
    return ops


def run_real(graph, x0, ops, trace=False):
    """-> (init snapshot or 'raises', [step dicts])"""
    from cogent3.maths.optimisers import ParameterOutOfBoundsError

    try:
        import warnings

        with warnings.catch_warnings():
            warnings.simplefilter("ignore")
            calc = build_real(graph, x0, trace=trace)
    except (ParameterOutOfBoundsError, ArithmeticError):
        return "raises", [], None
    init = snapshot(calc)
    steps = []
    for op in ops:
        ret, exc = apply_real(calc, op)
        s = snapshot(calc)
        s["ret"] = ret
        s["raised"] = exc is not None
        s["exc"] = exc
        steps.append(s)
    return init, steps, calc
