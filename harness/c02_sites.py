"""C02, second part: multi-locus likelihood functions (SumDefn over loci) and the hidden Markov chain over site
classes (sites_independent=False: PatchSiteDistribution / SiteHmm / log_dot_reduce).

Model: lean/CogentModel/Model/PruneSites.lean, theorems: Props/C02Sites.lean, driver commands `hmm` / `loci`
(lean/Driver/C02Sites.lean)."""
from __future__ import annotations

import itertools
import math
import types
from fractions import Fraction

from . import c02_util as U
from .common import add_failure, bump, new_outcome, rat, unrat

REL_LNL = 1e-8
MAX_BIN_PATHS = 4096
HMM_DEADLINE = 30


def _slim(spec):
    return {k: v for k, v in spec.items() if k != "tree"} | {"tree": spec["tree"]}


# --------------------------------------------------------------------------
# several loci
# --------------------------------------------------------------------------
def loci_tie(ctx, out, rng):
    """model `lnLLoci` (SumDefn over separately compressed loci) against the REAL SumDefn.calc fed with the REAL numba
    get_log_sum_across_sites of every locus, on power-of-two likelihoods (as in the `wls` tie)"""
    import numpy
    from cogent3.evolve.likelihood_tree import LikelihoodTreeEdge, _indexed
    from cogent3.recalculation.definition import SumDefn

    cases = [[], [[]], [[[0]], [[1], [1]]]]
    for _ in range(ctx.budget(120, 2000)):
        nl = rng.randint(1, 4)
        k = rng.randint(1, 4)
        cases.append([[[rng.randrange(k) for _ in range(rng.randint(1, 2))] for _ in range(rng.randint(0, 25))] for _ in range(nl)])
    replies = ctx.driver.batch([("loci", dict(loci=c)) for c in cases])
    ln2 = math.log(2.0)
    for c, r in zip(cases, replies):
        out["evaluations"] += 1
        if "error" in r:
            add_failure(out, "corr", "driver error (loci)", c, "reply", r["error"], confirmed=False)
            continue
        vals = []
        for cols in c:
            u, cnt, idx = _indexed([tuple(x) for x in cols])
            node = types.SimpleNamespace(counts=numpy.array(cnt, float), index=idx)
            lhs = numpy.array([2.0 ** -key[0] for key in u], float)
            vals.append(float(LikelihoodTreeEdge.get_log_sum_across_sites(node, lhs)) if len(u) else 0.0)
        real = float(SumDefn.calc(None, *vals)) / ln2
        bump(out, "loci_tie_nloci", len(c))
        if abs(real - r["total"]) > 1e-9 * max(1.0, abs(r["total"])) or r["total"] != r["plain"]:
            add_failure(out, "corr", "SumDefn over per-locus log-sums differs from model lnLLoci", c, r["total"], real, confirmed=False)
        if len(c) > 1 and sum(len(x) for x in c) > 2:
            out["nontrivial"].add(("loci", str(c)))


def edge_init_tie(ctx, out, rng):
    """model `indexedGap` / `gapKey` / `lnLCompressedGap` / `fullLengthGap` (Model/PruneGap.lean, theorems gap_column_weightless /
    gap_column_full_length) against the REAL `_LikelihoodTreeEdge.__init__` (branch alignment=None) run on stand-in children that
    carry only what it reads (index, uniq, shape, ambig, alphabet), followed by the real get_log_sum_across_sites /
    get_full_length_likelihoods over ALL rows of the node's table, the appended gap row included (likelihood 2^-key[0])"""
    import numpy
    from cogent3.evolve.likelihood_tree import LikelihoodTreeEdge

    cases = []
    for _ in range(ctx.budget(150, 2500)):
        nk = rng.randint(1, 4)
        n = rng.randint(0, 14)
        kids = []
        for _k in range(nk):
            nu = rng.randint(2, 5)  # the child's own gap row included
            kids.append(dict(index=[rng.randrange(nu - 1) for _ in range(n)], nuniq=nu))
        cases.append(kids)
    replies = ctx.driver.batch([("edgeinit", dict(children=c)) for c in cases])
    ln2 = math.log(2.0)
    for c, r in zip(cases, replies):
        out["evaluations"] += 1
        if "error" in r:
            add_failure(out, "corr", "driver error (edgeinit)", c, "reply", r["error"], confirmed=False)
            continue
        kids = [types.SimpleNamespace(index=numpy.array(k["index"], int), uniq=[None] * k["nuniq"], shape=[k["nuniq"], 4],
                                      ambig=numpy.ones(k["nuniq"]), alphabet=None) for k in c]
        try:
            node = LikelihoodTreeEdge(kids, "x")
            got = dict(uniq=[[int(x) for x in row] for row in node.uniq], counts=[int(x) for x in node.counts],
                       index=[int(x) for x in node.index], indexes=[[int(x) for x in row] for row in node.indexes])
            lhs = numpy.array([2.0 ** -int(row[0]) for row in node.uniq], float)
            wls = float(node.get_log_sum_across_sites(lhs)) / ln2
            full = [int(x) for x in node.get_full_length_likelihoods(numpy.array([-int(row[0]) for row in node.uniq], int))] if len(c[0]["index"]) else []
        except Exception as e:
            add_failure(out, "corr", "_LikelihoodTreeEdge.__init__ raised on stand-in children", c, "a node", f"{type(e).__name__}: {e}", confirmed=False)
            continue
        bump(out, "edge_init_children", len(c))
        want = {k: r[k] for k in ("uniq", "counts", "index", "indexes")}
        if got != want:
            add_failure(out, "corr", "_LikelihoodTreeEdge.__init__ uniq/counts/index/indexes differ from model indexedGap", c, want, got, confirmed=False)
        elif abs(wls - r["wls"]) > 1e-9 * max(1.0, abs(r["wls"])) or r["wls"] != r["plain"] or full != r["full"]:
            add_failure(out, "corr", "log-sum / full-length likelihoods over the node's table (gap row included) differ from the model",
                        c, dict(wls=r["wls"], full=r["full"]), dict(wls=wls, full=full), confirmed=False)
        if len(got["uniq"]) - 1 < len(c[0]["index"]) and len(got["uniq"]) > 2:
            out["nontrivial"].add(("edgeinit", str(c)))


def rand_loci_problem(rng, name, nloci):
    spec = U.rand_problem(rng, name, ntips=rng.randint(3, 5), ncols=rng.randint(3, 9), bins=1, scoped=False, zero_ok=False)
    motifs = [str(m) for m in U.get_sm(name).get_alphabet()]
    loci = []
    for i in range(nloci):
        # loci of different lengths; locus names are prefixes of each other
        seqs = U.rand_alignment(rng, spec["kind"], motifs, spec["tree"], rng.randint(2, 10), gaps=name not in U.DISCRETE)
        loci.append(dict(name=["l", "l1", "l10", "l2"][i], seqs=seqs, mprobs=U.rand_mprobs(rng, motifs)))
    spec["loci"] = loci
    spec["seqs"] = loci[0]["seqs"]
    spec["mprobs"] = None
    spec["rules"] = []
    return spec


def _loci_rules(rng, lf, spec):
    """every rate parameter gets its own value in every locus (a per-locus scope)"""
    rules = []
    special = {"mprobs", "length", "bprobs", "rate", "psubs", "dpsubs"}
    for p in lf.get_param_names():
        if p in special:
            continue
        hi = 3.0 if p == "omega" else 8.0
        if rng.random() < 0.8:
            for l in spec["loci"]:
                rules.append(dict(par_name=p, loci=l["name"], init=round(math.exp(rng.uniform(math.log(0.08), math.log(hi))), 6)))
        else:
            rules.append(dict(par_name=p, init=round(math.exp(rng.uniform(math.log(0.08), math.log(hi))), 6)))
    return rules


def check_loci(ctx, spec, rng, out, want_brute=3):
    """real multi-locus lf.lnL vs the sum over loci and ALL columns of log(first-principles column likelihood)
    (exact pruning / brute force in the Lean model on each locus's own psubs and root probabilities, leaf profiles
    from the harness's IUPAC tables); full-length likelihoods of every locus"""
    import numpy

    try:
        lf = U.build_lf(spec, None)
        if not spec["rules"] and rng is not None:
            spec["rules"] = _loci_rules(rng, lf, spec)
            U.apply_rules(lf, spec["rules"])
        got = float(lf.lnL)
        exs, fls = [], []
        for l in spec["loci"]:
            exs.append(U.extract(lf, dict(spec, seqs=l["seqs"]), profiles="oracle", locus=l["name"]))
            fls.append(numpy.array(lf.get_full_length_likelihoods(locus=l["name"]), dtype=float))
    except Exception as e:
        add_failure(out, "spec", "multi-locus likelihood function construction / evaluation raised", dict(_slim(spec), check="loci"),
                    "a likelihood", f"{type(e).__name__}: {e}", sig=f"loci-raised:{type(e).__name__}")
        return
    reqs = []
    for ex in exs:
        seen, uc = set(), []
        for c in ex["cols"]:
            if tuple(c) not in seen:
                seen.add(tuple(c))
                uc.append(c)
        reqs.append(U.lean_request(ex, [u for u, c in enumerate(uc) if U.n_labelings(ex, c) <= 20000][:want_brute]))
    replies = ctx.driver.batch(reqs)
    want = 0.0
    out["evaluations"] += 1
    bump(out, "loci_problems", f"{spec['model']}:{len(spec['loci'])}")
    for l, ex, fl, res in zip(spec["loci"], exs, fls, replies):
        if "error" in res:
            add_failure(out, "corr", "driver error (loci lf)", _slim(spec), "reply", res["error"], confirmed=False)
            return
        lhs = [unrat(x) for x in res["lh"]]
        bfs = {x["u"]: unrat(x["bf"]) for x in res["brute"]}
        for u, bf in bfs.items():
            if bf != lhs[u]:
                add_failure(out, "corr", "Lean prune != Lean bruteForce", _slim(spec), str(bf), str(lhs[u]), confirmed=False)
        pos = {tuple(c): u for u, c in enumerate(res["uniq"])}
        for i, col in enumerate(ex["cols"]):
            v = lhs[pos[tuple(col)]]
            want += U.log_fraction(v)
            out["evaluations"] += 1
            if len(fl) != len(ex["cols"]) or not U.close(float(fl[i]), v, 1e-9):
                add_failure(out, "spec", "multi-locus: per-column likelihood of a locus differs from the sum over all labelings",
                            dict(_slim(spec), check="loci", locus=l["name"], column=i), float(v), float(fl[i]) if i < len(fl) else None,
                            sig="loci:lh")
                return
    if not (abs(got - want) <= REL_LNL * abs(want) + 1e-12):
        add_failure(out, "spec", "multi-locus lnL differs from the sum over loci and columns of log(sum over labelings)",
                    dict(_slim(spec), check="loci"), want, got, sig="loci:lnl")
    else:
        out["nontrivial"].add((spec["model"], spec["seed"], "loci"))


# --------------------------------------------------------------------------
# hidden Markov chain over site classes
# --------------------------------------------------------------------------
def _patch_of(nbins, b):
    """first half of the bins (n // 2 of them) belong to patch 0, the rest to patch 1"""
    return 0 if b < nbins // 2 else 1


def hmm_definition(bprobs, switch, lhs_cols):
    """the published definition, at the level of the BINS, exact: the class (patch) of the first site is drawn from the
    patch probabilities pp[a] = sum of its bins' probabilities; between neighbouring sites the patch stays with
    probability (1 - switch) and is otherwise re-drawn from pp (switch = 1: independent sites, switch = 0: one patch for
    all sites); within its patch a site draws its bin b with probability bprobs[b] / pp[patch(b)].
    lhs_cols[t][b] = likelihood of site t under bin b.  Returns the likelihood of the whole alignment: the sum over ALL
    bin paths when there are at most MAX_BIN_PATHS of them, else the forward recursion (row vector x matrix)."""
    nb = len(bprobs)
    bp = [Fraction(x) for x in bprobs]
    s = Fraction(switch)
    patch = [_patch_of(nb, b) for b in range(nb)]
    pp = [sum(bp[b] for b in range(nb) if patch[b] == a) for a in (0, 1)]
    T = [[(1 - s) * (1 if patch[b] == patch[c] else 0) * bp[c] / pp[patch[c]] + s * bp[c] for c in range(nb)] for b in range(nb)]
    n = len(lhs_cols)
    if nb ** n <= MAX_BIN_PATHS:
        total = Fraction(0)
        for path in itertools.product(range(nb), repeat=n):
            w = bp[path[0]] * lhs_cols[0][path[0]]
            for t in range(1, n):
                w *= T[path[t - 1]][path[t]] * lhs_cols[t][path[t]]
            total += w
        return total, nb ** n
    v = [bp[b] * lhs_cols[0][b] for b in range(nb)]
    for t in range(1, n):
        v = [sum(v[b] * T[b][c] for b in range(nb)) * lhs_cols[t][c] for c in range(nb)]
    return sum(v), 0


def rand_hmm_problem(rng, name):
    nb = rng.choice([2, 2, 3, 4])
    # mostly short enough for the sum over ALL nb^n bin paths (<= MAX_BIN_PATHS); the rest uses the forward recursion
    maxn = {2: 12, 3: 7, 4: 6}[nb] if rng.random() < 0.75 else 12
    spec = U.rand_problem(rng, name, ntips=rng.randint(3, 5), ncols=rng.randint(2, maxn), bins=nb, scoped=False, zero_ok=False)
    spec["hmm"] = True
    spec["bins"] = nb
    spec["model_kw"] = dict(spec.get("model_kw") or {}, ordered_param="rate", distribution=rng.choice(["gamma", "free"]))
    return spec


def _hmm_rules(rng, spec):
    """bin probabilities and the switch: a third of the problems keeps the default (equal) bin probabilities, a third
    has unequal bins but equally probable patches, a third is arbitrary"""
    nb = spec["bins"]
    rules = [r for r in spec["rules"] if r["par_name"] not in ("bprobs", "bin_switch")]
    mode = spec.get("hmm_force_mode") or rng.choice(["default", "equal-patches", "random"])
    if mode == "equal-patches":
        half = nb // 2
        w0 = [rng.uniform(0.3, 1.0) for _ in range(half)]
        w1 = [rng.uniform(0.3, 1.0) for _ in range(nb - half)]
        rules.append(dict(par_name="bprobs", init=[0.5 * x / sum(w0) for x in w0] + [0.5 * x / sum(w1) for x in w1]))
    elif mode == "random":
        w = [rng.uniform(0.2, 1.0) for _ in range(nb)]
        rules.append(dict(par_name="bprobs", init=[x / sum(w) for x in w]))
    sw = rng.choice([None, 1.0, 0.5, round(rng.uniform(0.02, 0.98), 4), round(rng.uniform(0.02, 0.98), 4)])
    if sw is not None:
        rules.append(dict(par_name="bin_switch", init=sw))
    spec["hmm_mode"] = mode
    return rules


def _build_hmm(spec, rng):
    if not spec.get("rules") and rng is not None:
        U.build_lf(spec, rng)  # generates spec["rules"] (rate parameters, shape)
        spec["rules"] = _hmm_rules(rng, spec)
    return U.build_lf(spec, None)


def _pp_class(bprobs):
    nb = len(bprobs)
    pp = [sum(float(bprobs[b]) for b in range(nb) if _patch_of(nb, b) == a) for a in (0, 1)]
    return "equal" if abs(pp[0] - pp[1]) <= 1e-12 else "unequal"


def _classify(ctx, lf, got):
    """narrow class of an HMM failure: 'switch-matrix-from-the-left' when the reported lnL is EXACTLY what the pre-fix loop
    `state_probs = dot(switch_probs, state_probs) * plhs[site]` gives on the implementation's own per-bin likelihoods
    (model `siteHmmOld`) while the loop as it is now (`siteHmm`, matrix acting from the right) gives something else;
    'other' otherwise"""
    try:
        bprobs = [float(x) for x in lf.get_param_value("bprobs")]
        switch = float(lf.get_param_value("bin_switch"))
        index = [int(i) for i in lf.get_param_value("root").index]
        real_lhs = [[float(x) for x in lf.get_param_value("lh", bin=b)] for b in lf.bin_names]
        (res,) = ctx.driver.batch([("hmm", dict(bprobs=[rat(x) for x in bprobs], switch=rat(switch),
                                                lhs=[[rat(x) for x in row[: max(index) + 1]] for row in real_lhs], index=index, brute=False))])
        old, code = U.log_fraction(unrat(res["old"])), U.log_fraction(unrat(res["code"]))
    except Exception:
        return "other"
    d_old, d_code = abs(got - old), abs(got - code)
    if d_old <= REL_LNL * abs(old) + 1e-12 and d_code > 10 * d_old + 1e-11 * abs(code):
        return "switch-matrix-from-the-left"
    return "other"


def check_hmm(ctx, spec, rng, out, kind):
    """kind='corr': the mirrored model (`siteHmm`, run on the REAL per-bin likelihood arrays and root index) vs lf.lnL
    and vs the real PatchSiteDistribution's attributes.
    kind='spec': lf.lnL vs the published definition evaluated by the harness at the level of the bins (exact, all bin
    paths), per-bin likelihoods from exact pruning with the harness's own leaf profiles; the Lean `bruteHmm` over the patch
    paths must agree with it."""
    import numpy

    try:
        # (the loop of log_dot_reduce does not terminate when a site has likelihood 0 in every class: bounded here)
        with U.deadline(HMM_DEADLINE):
            lf = _build_hmm(spec, rng)
            got = float(lf.lnL)
            bprobs = [float(x) for x in lf.get_param_value("bprobs")]
            switch = float(lf.get_param_value("bin_switch"))
            ex = U.extract(lf, spec, profiles="oracle") if kind == "spec" else None
            root = lf.get_param_value("root")
            index = [int(i) for i in root.index]
            real_lhs = [[float(x) for x in lf.get_param_value("lh", bin=b)] for b in lf.bin_names]
            bdist = lf.get_param_value("bdist")
    except Exception as e:
        add_failure(out, "spec", "site-class HMM likelihood function construction / evaluation raised", dict(_slim(spec), check="hmm"),
                    "a likelihood", f"{type(e).__name__}: {e}", sig=f"hmm-raised:{type(e).__name__}")
        return
    nb, n = len(bprobs), len(index)
    cls = _pp_class(bprobs)
    out["evaluations"] += 1
    bump(out, f"hmm_{kind}", f"bins={nb}:patches={cls}:switch={'1' if switch == 1.0 else '<1'}")
    bump(out, "hmm_sites", n)
    if kind == "corr":
        req = ("hmm", dict(bprobs=[rat(x) for x in bprobs], switch=rat(switch),
                           lhs=[[rat(x) for x in row[: max(index) + 1]] for row in real_lhs], index=index, brute=False))
        (res,) = ctx.driver.batch([req])
        if "error" in res:
            add_failure(out, "corr", "driver error (hmm)", _slim(spec), "reply", res["error"], confirmed=False)
            return
        code = U.log_fraction(unrat(res["code"]))
        old = U.log_fraction(unrat(res["old"]))
        differ = abs(code - old) > REL_LNL * abs(code)
        if abs(got - code) <= REL_LNL * abs(code) + 1e-12:
            bump(out, "hmm_loop_orientation", "as-written: dot(state_probs, switch_probs)" if differ else "either (symmetric matrix)")
            if differ:
                out["nontrivial"].add((spec["model"], spec["seed"], "hmm-orientation"))
        elif abs(got - old) <= REL_LNL * abs(old) + 1e-12:
            # STRICT since fix 6668db777: the model mirrors dot(state_probs, switch_probs); an implementation that behaves like
            # the pre-fix loop is a mismatch AND (theorem hmm_switch_eq_definition / hmm_old_orientation_counter) a violation
            # of the definition - reported with this concrete likelihood function as the failing input
            bump(out, "hmm_loop_orientation", "REGRESSED: dot(switch_probs, state_probs)")
            add_failure(out, "corr", "HMM lnL equals the PRE-FIX loop (switch matrix multiplied from the left), not the model siteHmm",
                        _slim(spec), code, got, confirmed=False)
            add_failure(out, "spec", "site-class HMM lnL is the value of the pre-fix loop dot(switch_probs, state_probs), which is not the sum over "
                        "all class assignments (the loop as modelled is proved equal to it: hmm_switch_eq_definition)",
                        dict(_slim(spec), check="hmm"), code, got, sig=f"hmm:switch-matrix-from-the-left:patch-probs-{cls}")
        else:
            add_failure(out, "corr", "HMM lnL differs from the model siteHmm", _slim(spec), dict(as_written=code, pre_fix=old), got, confirmed=False)
        M = numpy.array(bdist.transition_matrix.Matrix, dtype=float)
        mine = numpy.array([[float(unrat(x)) for x in row] for row in res["matrix"]])
        st = [float(x) for x in bdist.transition_matrix.StationaryProbs]
        ok = (list(bdist.alloc) == res["alloc"] and M.shape == mine.shape and float(numpy.abs(M - mine).max()) <= 1e-12
              and all(abs(a - float(unrat(b))) <= 1e-12 for a, b in zip(st, res["pprobs"]))
              and all(abs(float(a) - float(unrat(b))) <= 1e-12 for a, b in zip(bdist.bprobs, res["cond"])))
        if not ok:
            add_failure(out, "corr", "PatchSiteDistribution alloc / conditional bin probabilities / switch matrix differ from the model",
                        _slim(spec), dict(alloc=res["alloc"], matrix=mine.tolist()), dict(alloc=list(bdist.alloc), matrix=M.tolist()),
                        confirmed=False)
        if n >= 2:
            out["nontrivial"].add((spec["model"], spec["seed"], "hmm-corr"))
        return
    # spec
    (res,) = ctx.driver.batch([U.lean_request(ex, [])])
    if "error" in res:
        add_failure(out, "corr", "driver error (hmm lf)", _slim(spec), "reply", res["error"], confirmed=False)
        return
    per_bin = [[unrat(x) for x in row] for row in res["lh_bins"]]  # [bin][unique column], exact first-principles values
    cols = [[per_bin[b][u] for b in range(nb)] for u in res["index"]]
    want_f, npaths = hmm_definition(bprobs, switch, cols)
    want = U.log_fraction(want_f)
    bump(out, "hmm_bin_paths_log2", int(math.log2(max(npaths, 1))))
    # the Lean spec over the patch paths (and the loop as modelled) on the same exact inputs
    (r2,) = ctx.driver.batch([("hmm", dict(bprobs=[rat(x) for x in bprobs], switch=rat(switch),
                                            lhs=[[rat(x) for x in row] for row in per_bin], index=res["index"], brute=n <= 12))])
    if "error" in r2:
        add_failure(out, "corr", "driver error (hmm)", _slim(spec), "reply", r2["error"], confirmed=False)
        return
    for key in ("spec", "code"):
        if r2[key] is None:
            continue
        v = unrat(r2[key])
        # equal up to the rounding of the float64 bin probabilities (their sum is 1 only to 1e-16)
        if abs(v - want_f) > abs(want_f) * Fraction(1, 10**10):
            add_failure(out, "corr", f"Lean `{key}` over the patch paths differs from the bin-level definition", _slim(spec),
                        float(want_f), float(v), confirmed=False)
    # executed theorems: site_hmm_eq_bin_forward (no hypothesis: EXACT equality of the patch-level code model and the forward
    # recursion over the bins) and the Lean bin-level definition `bruteHmm nb bprobs binMatrix` = the harness's own sum over all
    # bin paths (both exact on the same rationals)
    if r2.get("bin") != r2.get("code"):
        add_failure(out, "corr", "Lean: siteHmm differs from the forward recursion over the bins (contradicts site_hmm_eq_bin_forward)",
                    _slim(spec), r2.get("code"), r2.get("bin"), confirmed=False)
    if r2.get("binspec") is not None and npaths:
        bump(out, "hmm_lean_bin_definition", f"bins={nb}")
        if unrat(r2["binspec"]) != want_f:
            add_failure(out, "corr", "Lean bin-level definition (bruteHmm over bin paths with binMatrix) differs from the harness's sum over all bin paths",
                        _slim(spec), str(want_f), r2["binspec"], confirmed=False)
    if not (abs(got - want) <= REL_LNL * abs(want) + 1e-12):
        add_failure(out, "spec", "site-class HMM lnL differs from the sum over all class assignments (published definition)",
                    dict(_slim(spec), check="hmm"), want, got, sig=f"hmm:{_classify(ctx, lf, got)}:patch-probs-{cls}")
    elif n >= 2:
        out["nontrivial"].add((spec["model"], spec["seed"], "hmm-spec", cls))


def hmm_independent_limit(ctx, spec, rng, out):
    """bin_switch = 1 is the zero-order chain: the HMM likelihood function must report the lnL of the ordinary
    (sites_independent=True) mixture with the same parameters - no model, no oracle: two real likelihood functions"""
    try:
        spec = dict(spec, rules=[r for r in spec["rules"] if r["par_name"] != "bin_switch"] + [dict(par_name="bin_switch", init=1.0)])
        with U.deadline(HMM_DEADLINE):
            lf = U.build_lf(spec, None)
            got = float(lf.lnL)
            bprobs = [float(x) for x in lf.get_param_value("bprobs")]
            spec2 = dict(spec, hmm=False, rules=[r for r in spec["rules"] if r["par_name"] != "bin_switch"])
            want = float(U.build_lf(spec2, None).lnL)
    except Exception as e:
        add_failure(out, "spec", "site-class HMM likelihood function construction / evaluation raised", dict(_slim(spec), check="hmm-indep"),
                    "a likelihood", f"{type(e).__name__}: {e}", sig=f"hmm-raised:{type(e).__name__}")
        return
    cls = _pp_class(bprobs)
    out["evaluations"] += 1
    bump(out, "hmm_independent_limit", f"bins={len(bprobs)}:patches={cls}")
    if not (abs(got - want) <= REL_LNL * abs(want) + 1e-12):
        add_failure(out, "spec", "site-class HMM with bin_switch=1 (independent sites) differs from the sites_independent=True lnL",
                    dict(_slim(spec), check="hmm-indep"), want, got, sig=f"hmm:{_classify(ctx, lf, got)}:patch-probs-{cls}")
    else:
        out["nontrivial"].add((spec["model"], spec["seed"], "hmm-indep", cls))


# --------------------------------------------------------------------------
# streams
# --------------------------------------------------------------------------
def _nuc_models():
    return [m for m, k in U.model_kinds().items() if k == "nucleotide" and m not in U.DISCRETE]


def correspondence(ctx, out, rng):
    loci_tie(ctx, out, rng)
    edge_init_tie(ctx, out, rng)
    nuc = _nuc_models()
    for i in range(ctx.budget(8, 200)):
        spec = rand_hmm_problem(rng, nuc[(i + ctx.seed) % len(nuc)])
        if i < 3:
            # every run contains problems on which the two orientations of the loop give different values
            spec["hmm_force_mode"] = "random"
        check_hmm(ctx, spec, rng, out, "corr")


def spec_stream(ctx, out, rng, budget):
    nuc = _nuc_models()
    allnuc = [m for m, k in U.model_kinds().items() if k == "nucleotide"]
    for i in range(3 * budget):
        name = allnuc[(i + 3 * ctx.seed) % len(allnuc)] if i % 3 else U.DINUC if i % 2 else rng.choice(allnuc)
        check_loci(ctx, rand_loci_problem(rng, name, rng.choice([2, 2, 3, 4])), rng, out)
    for i in range(6 * budget):
        spec = rand_hmm_problem(rng, nuc[(i + 5 * ctx.seed) % len(nuc)])
        check_hmm(ctx, spec, rng, out, "spec")
        if i % 3 == 0:
            hmm_independent_limit(ctx, spec, rng, out)


def recheck(ctx, inp, out):
    """replay of a recorded failing input of this module; returns True if `check` was one of ours"""
    check = inp.get("check")
    spec = {k: v for k, v in inp.items() if k not in ("column", "check", "locus")}
    if check == "loci":
        check_loci(ctx, spec, None, out)
    elif check == "hmm":
        check_hmm(ctx, spec, None, out, "spec")
    elif check == "hmm-indep":
        hmm_independent_limit(ctx, spec, None, out)
    else:
        return False
    return True
