"""C09 — REAL cogent3 vs the independent oracle, through every route the library offers for
(a) tree-to-tree distances / comparisons and (b) pruning, querying, writing and copying trees.

Everything here runs the implementation only; expectations come from harness/c09_util.py
(bipartitions, path lengths, brute-force assignment) computed on the plain nested form.
`fail(out, what, input, expected, got, sig)` records a violation (narrow signature per route).
"""
from __future__ import annotations

import itertools
import json
from fractions import Fraction

from . import c09_util as U
from .common import bump

NEWICK_META = "[]'\"(),:;"


# --------------------------------------------------------------------------
# (a) tree-to-tree distances and comparisons
# --------------------------------------------------------------------------
ROOTED_METHODS = ["rooted_robinson_foulds", "rrf", "matching_cluster", "mc", "rf", "matching", None]
UNROOTED_METHODS = ["unrooted_robinson_foulds", "urf", "lin_rajan_moret", "lrm", "rf", "matching", None]


def _shuffle(rng, t):
    import copy

    t = copy.deepcopy(t)

    def go(x):
        rng.shuffle(x[2])
        for c in x[2]:
            go(c)

    go(t)
    return t


def _pair(rng, small):
    """two trees on the same tips with different degrees of resolution: a resolved tree and a copy with
    0..4 internal nodes contracted (polytomies), children reordered, and for unrooted trees possibly
    seen from another internal node; sometimes additionally one subtree regrafted"""
    n = rng.randint(4, 10)
    rooted = rng.random() < 0.5
    base = U.rand_tree(rng, n, rooted, False, rng.choice(["all", "none"]), "pos", False)
    k1 = rng.choice([0, 0, 0, 1, 2])
    k2 = rng.choice([0, 1, 2, 2, 3, 3, 4])
    a = U.n_collapse(base, k1, rng)
    b = U.n_collapse(base, k2, rng)
    if rng.random() < 0.25:
        other = U.rand_tree(rng, n, rooted, False, "none", "pos", False)
        # same tip names, unrelated topology
        names = U.n_tips(base)
        it = iter(names)

        def rename(x):
            if not x[2]:
                x[0] = next(it)
            for c in x[2]:
                rename(c)

        rename(other)
        b = U.n_collapse(other, rng.choice([0, 1, 2]), rng)
    b = _shuffle(rng, b)
    if not rooted and rng.random() < 0.5:
        cands = [p for p, nn in U.n_internal_paths(b) if p and len(nn[2]) >= 2]
        if cands:
            b2 = U.n_reroot(b, rng.choice(cands))
            if len(b2[2]) >= 3 and set(U.n_tips(b2)) == set(U.n_tips(b)):
                b = b2
    if rng.random() < 0.5:
        a, b = b, a
    return a, b, rooted


def _independent(method, rooted, ta, tb):
    """expected value by an independent computation, or None when not computed (too large)"""
    ca, cb = U.oracle_clusters(ta), U.oracle_clusters(tb)
    if method in ("rooted_robinson_foulds", "rrf") or (method == "rf" and rooted):
        return len(ca ^ cb)
    if method in ("unrooted_robinson_foulds", "urf") or (method == "rf" and not rooted):
        return len(U.oracle_bips(ta) ^ U.oracle_bips(tb))
    if method in ("matching_cluster", "mc") or (method in ("matching", None) and rooted):
        if max(len(ca), len(cb)) <= 12:
            return U.oracle_matching_cluster(ta, tb)
        return None
    if method in ("lin_rajan_moret", "lrm") or (method in ("matching", None) and not rooted):
        if len(ca) != len(cb):
            return "unequal"
        if len(ca) <= 12:
            return U.oracle_lrm(ta, tb)
        return None
    return None


def spec_tree_comparisons(ctx, out, rng, small, budget, fail):
    n_pairs = 140 * budget
    fixed_pairs = []
    # hand-picked resolution gaps (cluster counts differing by 0,1,2,3) in both orders
    from fractions import Fraction as F

    def lad(names):  # ladder ((((a,b),c),d),e)
        t = [names[0], F(1), []]
        for i, nm in enumerate(names[1:]):
            t = ["", None if i == len(names) - 2 else F(1), [t, [nm, F(1), []]]]
        return t

    for n in (5, 6, 7):
        names = [chr(97 + i) for i in range(n)]
        full = lad(names)
        for k in (0, 1, 2, 3):
            # contract k of the innermost nodes: (a,b,c,..) polytomy below the root child
            t = full
            for _ in range(k):
                inner = t[2][0]
                if not inner[2] or not inner[2][0][2]:
                    break
                g = inner[2][0]
                t = [t[0], t[1], [[inner[0], inner[1], g[2] + inner[2][1:]], t[2][1]]]
            fixed_pairs.append((full, t, True))
            fixed_pairs.append((t, full, True))
    pairs = fixed_pairs + [_pair(rng, small) for _ in range(n_pairs)]
    for ta, tb, rooted in pairs:
        if (len(ta[2]) == 2) != rooted or (len(tb[2]) == 2) != rooted:
            continue
        a, b = U.build_real(ta), U.build_real(tb)
        inp = dict(a=U.frac_json(ta), b=U.frac_json(tb))
        ca, cb = U.oracle_clusters(ta), U.oracle_clusters(tb)
        gap = abs(len(ca) - len(cb))
        bump(out, "treedist_cluster_count_gap", min(gap, 3))
        same = (ca == cb) if rooted else (U.oracle_bips(ta) == U.oracle_bips(tb))
        for m in ROOTED_METHODS if rooted else UNROOTED_METHODS:
            key = m or "default"
            out["evaluations"] += 1
            want = _independent(m, rooted, ta, tb)
            res = []
            for x, y in ((a, b), (b, a)):
                try:
                    res.append(x.tree_distance(y, method=m))
                except ValueError as e:
                    res.append("ValueError:" + str(e)[:40])
            d1, d2 = res
            if want == "unequal":
                # lin_rajan_moret refuses trees with different numbers of splits (both orders)
                if not (str(d1).startswith("ValueError") and str(d2).startswith("ValueError")):
                    fail(out, f"tree_distance({key}) on trees with different numbers of splits: one order raises, the other does not", inp, "ValueError both ways", [str(d1), str(d2)], f"treedist-sym:{key}")
                else:
                    bump(out, "treedist_real", f"{key}:unequal-split-count-ValueError")
                continue
            if isinstance(d1, str) or isinstance(d2, str):
                fail(out, f"tree_distance({key}) raised on trees with equal tip sets", inp, "a number", [str(d1), str(d2)], f"treedist-raise:{key}")
                continue
            if d1 != d2:
                fail(out, f"tree_distance({key}) is not symmetric", inp, "d(a,b) == d(b,a)", [float(d1), float(d2)], f"treedist-sym:{key}")
                continue
            if (d1 == 0) != same:
                fail(out, f"tree_distance({key}) zero <-> equal topology fails", inp, f"zero iff same topology (same={same})", float(d1), f"treedist-zero:{key}")
                continue
            if want is not None and int(d1) != want:
                fail(out, f"tree_distance({key}) differs from the independent computation", inp, want, int(d1), f"treedist-value:{key}")
                continue
            bump(out, "treedist_real", f"{key}:{'zero' if d1 == 0 else 'positive'}")
            if d1 != 0:
                out["nontrivial"].add("tdr:" + key + json.dumps(inp))
        _other_comparisons(out, a, b, ta, tb, rooted, inp, fail)
    # node-to-node distance inside one tree
    for _ in range(30 * budget):
        t = U.rand_tree(rng, rng.randint(3, 12), rng.random() < 0.5, rng.random() < 0.4, "all", "pos", False)
        real = U.build_real(t)
        od = U.oracle_dists(t)
        tips = {x.name: x for x in real.tips()}
        names = list(tips)
        for _ in range(6):
            x, y = rng.choice(names), rng.choice(names)
            out["evaluations"] += 1
            d1, d2 = tips[x].distance(tips[y]), tips[y].distance(tips[x])
            want = Fraction(0) if x == y else od[(x, y)]
            if Fraction(float(d1)) != want or Fraction(float(d2)) != want:
                fail(out, "PhyloNode.distance differs from the path length / is not symmetric", dict(tree=U.frac_json(t), pair=[x, y]), str(want), [float(d1), float(d2)], "node-distance")
            else:
                bump(out, "treedist_real", "node.distance:ok")


def _other_comparisons(out, a, b, ta, tb, rooted, inp, fail):
    """lin_rajan_moret method, subsets/subset, compare_by_subsets, compare_by_names,
    compare_by_tip_distances, same_topology"""
    ca, cb = U.oracle_clusters(ta), U.oracle_clusters(tb)
    # subsets / subset
    for t, real, c in ((ta, a, ca), (tb, b, cb)):
        out["evaluations"] += 1
        if set(real.subsets()) != c or real.subset() != frozenset(U.n_tips(t)):
            fail(out, "subsets()/subset() differ from the clades of the tree", dict(tree=U.frac_json(t)), sorted(map(sorted, c)), sorted(map(sorted, real.subsets())), "subsets")
    # compare_by_subsets
    out["evaluations"] += 1
    tot = len(ca) + len(cb)
    want = 1 if not tot else 1 - 2 * len(ca & cb) / float(tot)
    d1, d2 = a.compare_by_subsets(b), b.compare_by_subsets(a)
    if abs(d1 - d2) > 1e-12:
        fail(out, "compare_by_subsets is not symmetric", inp, "equal", [d1, d2], "cmp-subsets-sym")
    elif abs(d1 - want) > 1e-12:
        fail(out, "compare_by_subsets differs from the independent computation", inp, want, d1, "cmp-subsets-value")
    elif tot and (abs(d1) < 1e-12) != (ca == cb):
        fail(out, "compare_by_subsets zero <-> same clades fails", inp, ca == cb, d1, "cmp-subsets-zero")
    else:
        bump(out, "treedist_real", "compare_by_subsets:ok")
    # compare_by_names
    out["evaluations"] += 1
    na = sorted(x.name for x in a.traverse() if x.name is not None)
    nb = sorted(x.name for x in b.traverse() if x.name is not None)
    r1, r2 = a.compare_by_names(b), b.compare_by_names(a)
    if r1 != r2 or r1 != (na == nb):
        fail(out, "compare_by_names asymmetric or differs from comparing the sorted node names", inp, na == nb, [r1, r2], "cmp-names")
    else:
        bump(out, "treedist_real", "compare_by_names:ok")
    # compare_by_tip_distances: (1 - pearson r)/2 over the two tip-by-tip matrices
    out["evaluations"] += 1
    tips = sorted(U.n_tips(ta))
    if len(tips) > 2:
        da, db = U.oracle_dists(ta), U.oracle_dists(tb)
        xs = [Fraction(0) if x == y else da[(x, y)] for x in tips for y in tips]
        ys = [Fraction(0) if x == y else db[(x, y)] for x in tips for y in tips]
        r = U.pearson(xs, ys)
        try:
            d1, d2 = a.compare_by_tip_distances(b), b.compare_by_tip_distances(a)
        except Exception as e:  # noqa: BLE001
            d1 = d2 = repr(e)
        if r is not None:
            want = (1 - r) / 2
            if isinstance(d1, str) or abs(d1 - d2) > 1e-9:
                fail(out, "compare_by_tip_distances is not symmetric / raised", inp, "equal", [d1, d2], "cmp-tipdist-sym")
            elif abs(d1 - want) > 1e-9:
                fail(out, "compare_by_tip_distances differs from (1 - r)/2 of the oracle distance matrices", inp, want, d1, "cmp-tipdist-value")
            else:
                bump(out, "treedist_real", "compare_by_tip_distances:ok")
    # lin_rajan_moret as a method of the tree
    if not rooted:
        out["evaluations"] += 1
        want = _independent("lrm", False, ta, tb)
        try:
            d1, d2 = a.lin_rajan_moret(b), b.lin_rajan_moret(a)
        except ValueError:
            d1 = d2 = "unequal"
        if want is not None and not (d1 == d2 and (d1 == want or (want != "unequal" and int(d1) == want))):
            fail(out, "TreeNode.lin_rajan_moret asymmetric or differs from the brute-force matching", inp, want, [str(d1), str(d2)], "lrm-method")
        else:
            bump(out, "treedist_real", "lin_rajan_moret():ok")


# --------------------------------------------------------------------------
# (b) pruning / querying / writing / copying through every route
# --------------------------------------------------------------------------
def _compare(out, fail, route, inp, t_nested, res, want_tips, dists=True, bips="equal", src_dists=None):
    """res (real tree) must have exactly want_tips, the bipartitions of t_nested restricted to them
    and (dists) the same path lengths"""
    got_tips = list(res.get_tip_names())
    if set(got_tips) != set(want_tips) or len(got_tips) != len(set(want_tips)):
        fail(out, f"tip set wrong after {route}", inp, sorted(want_tips), sorted(map(str, got_tips)), f"tips:{route}")
        return False
    got = U.real_nested(res)
    want_b = U.oracle_bips(t_nested, keep=set(want_tips))
    got_b = U.oracle_bips(got)
    ok = want_b == got_b if bips == "equal" else want_b <= got_b
    if not ok:
        fail(out, f"unrooted topology among kept tips wrong after {route}", inp, sorted(sorted(map(sorted, b)) for b in want_b), sorted(sorted(map(sorted, b)) for b in got_b), f"topology:{route}")
        return False
    if dists:
        want_d = src_dists if src_dists is not None else U.oracle_dists(t_nested)
        got_d = res.get_distances()
        bad = []
        for (a, b), v in want_d.items():
            if a in want_tips and b in want_tips:
                g = got_d.get((a, b))
                if g is None or Fraction(float(g)) != v:
                    bad.append((a, b, str(v), None if g is None else str(Fraction(float(g)))))
        if bad:
            fail(out, f"tip-to-tip path length changed by {route}", dict(inp, pairs=bad[:4]), [b[2] for b in bad[:4]], [b[3] for b in bad[:4]], f"dist:{route}")
            return False
    return True


def _keep_sets(rng, t):
    """subsets of tips to keep: whole nested clades dropped, all children of a node dropped, all but one
    child dropped, subsets that leave the root with one child, random subsets"""
    tips = U.n_tips(t)
    res = []
    internal = [(p, n) for p, n in U.n_internal_paths(t) if p and n[2]]
    deep = [(p, n) for p, n in internal if any(c[2] for c in n[2])]
    for p, n in rng.sample(deep, min(2, len(deep))):
        drop = set(U.n_tips(n))
        res.append(("drop-nested-clade", [x for x in tips if x not in drop]))
    for p, n in rng.sample(internal, min(2, len(internal))):
        drop = set(U.n_tips(n))
        res.append(("drop-clade", [x for x in tips if x not in drop]))
        tipkids = [c[0] for c in n[2] if not c[2]]
        if tipkids:
            res.append(("drop-tip-children", [x for x in tips if x not in set(tipkids)]))
        keep_child = rng.choice(n[2])
        drop = set(U.n_tips(n)) - set(U.n_tips(keep_child))
        res.append(("all-but-one-child", [x for x in tips if x not in drop]))
    rc = rng.choice(t[2])
    res.append(("root-becomes-unary", U.n_tips(rc)))
    for _ in range(2):
        k = rng.randint(2, len(tips))
        res.append(("random", rng.sample(tips, k)))
    return [(kind, keep) for kind, keep in res if len(keep) >= 2]


def _prune_in_place(real, drop, how, rng):
    """apply an in-place pruning route to `real` (a private copy)"""
    if how == "remove_deleted+prune":
        real.remove_deleted(lambda n: n.name in drop)
        real.prune()
    elif how in ("remove+prune", "remove_node+prune"):
        for nm in drop:
            node = real.get_node_matching_name(nm)
            par = node.parent
            if how == "remove+prune":
                ok = par.remove(nm)
            else:
                ok = par.remove_node(node)
            assert ok
            # the low-level calls do not tidy up: drop ancestors left without children
            while par is not None and par.parent is not None and not par.children:
                up = par.parent
                up.remove_node(par)
                par = up
        real.prune()
    return real


def spec_prune_routes(ctx, out, rng, small, budget, fail):
    trees = []
    for t in small[:: max(1, 12 // budget)]:
        trees.append(t)
    for _ in range(40 * budget):
        n = rng.choice([4, 5, 6, 7, 8, 10, 13, 18])
        trees.append(U.rand_tree(rng, n, rng.random() < 0.45, rng.random() < 0.5, rng.choice(["all", "none", "mixed"]), "pos", rng.random() < 0.3))
    # the regression classes named by the independent tester, as fixed first cases
    F = Fraction
    hand = ["", None, [["e", F(1), []], ["cd", F(2), [["c", F(3), []], ["d", F(4), []]]]]]
    hand = ["", None, [["a", F(1), []], ["b", F(2), []], ["cde", F(5), hand[2]]]]
    cases = [(hand, "drop-nested-clade", ["a", "b"])]
    for t in trees:
        for kind, keep in _keep_sets(rng, t):
            cases.append((t, kind, keep))
    for t, kind, keep in cases:
        prune_case(out, fail, t, kind, keep, rng)
    _prune_alone(out, fail, rng, budget)


def prune_case(out, fail, t, kind, keep, rng):
    """every pruning route for one (tree, kept tips)"""
    if True:
        tips = U.n_tips(t)
        keepset = set(keep)
        drop = [x for x in tips if x not in keepset]
        src = U.build_real(t)
        nested = U.real_nested(src)
        before = U.snapshot(src)
        od = U.oracle_dists(nested)
        base_inp = dict(tree=U.frac_json(t), keep=sorted(keep), kind=kind)
        bump(out, "prune_kind", kind)
        # 1. get_sub_tree in every flag combination
        for tipsonly, keep_root, ignore in itertools.product((True, False), (True, False), (True, False)):
            route = f"get_sub_tree[tipsonly={tipsonly},keep_root={keep_root},ignore_missing={ignore}]"
            out["evaluations"] += 1
            names = list(keep) + (["no such tip"] if ignore else [])
            try:
                res = src.get_sub_tree(names, ignore_missing=ignore, keep_root=keep_root, tipsonly=tipsonly)
            except Exception as e:  # noqa: BLE001
                if len(keep) >= 2:
                    fail(out, f"{route} raised on a subset of >= 2 tips", dict(base_inp, route=route), "a tree", repr(e)[:160], f"raised:{route}")
                continue
            if _compare(out, fail, route, dict(base_inp, route=route), nested, res, keep, src_dists=od):
                bump(out, "prune_route", "get_sub_tree:ok")
                out["nontrivial"].add(json.dumps([base_inp, route]))
        if U.snapshot(src) != before:
            fail(out, "get_sub_tree modified the tree it was called on", base_inp, "unmodified", U.snapshot_diff(before, U.snapshot(src)), "mutated:get_sub_tree")
            return
        # 2. in-place routes on private copies
        if drop:
            for how in ("remove_deleted+prune", "remove+prune", "remove_node+prune"):
                out["evaluations"] += 1
                priv = src.deepcopy()
                try:
                    _prune_in_place(priv, set(drop), how, rng)
                except Exception as e:  # noqa: BLE001
                    fail(out, f"{how} raised", dict(base_inp, route=how), "pruned tree", repr(e)[:160], f"raised:{how}")
                    continue
                if _compare(out, fail, how, dict(base_inp, route=how), nested, priv, keep, src_dists=od):
                    bump(out, "prune_route", how + ":ok")
                    out["nontrivial"].add(json.dumps([base_inp, how]))
                # no single-child internal node (other than the root) may survive prune()
                for node in priv.traverse():
                    if node.parent is not None and len(node.children) == 1:
                        fail(out, f"{how} left a single-child internal node", dict(base_inp, route=how), "none", str(node.name), f"unary-left:{how}")
                        break
            if U.snapshot(src) != before:
                fail(out, "pruning a deepcopy modified the original tree", base_inp, "unmodified", U.snapshot_diff(before, U.snapshot(src)), "mutated:deepcopy-prune")


def _prune_alone(out, fail, rng, budget):
    # 3. prune() alone on trees with single-child nodes
    for _ in range(25 * budget):
        t = U.rand_tree(rng, rng.randint(3, 10), rng.random() < 0.5, rng.random() < 0.4, "all", "pos", False)
        tu = U.n_add_unary(t, rng.randint(1, 4), rng, set())
        out["evaluations"] += 1
        real = U.build_real(tu)
        nested = U.real_nested(real)
        inp = dict(tree=U.frac_json(tu), route="prune")
        real.prune()
        if _compare(out, fail, "prune", inp, nested, real, U.n_tips(tu)):
            bump(out, "prune_route", "prune-alone:ok")
            out["nontrivial"].add(json.dumps(inp))
        for node in real.traverse():
            if node.parent is not None and len(node.children) == 1:
                fail(out, "prune left a single-child internal node", inp, "none", str(node.name), "unary-left:prune")
                break


def _names_ok(t, forbid_chars="", forbid_leading_quote=True, forbid_space=False):
    for _, n in U.n_internal_paths(t):
        nm = n[0]
        if forbid_leading_quote and nm.startswith("'"):
            return False
        if any(ch in nm for ch in forbid_chars):
            return False
        if forbid_space and (" " in nm):
            return False
    return True


def spec_queries_io(ctx, out, rng, small, budget, fail):
    import cogent3

    scratch = ctx.scratch
    trees = [(t, False) for t in small[:: max(1, 16 // budget)]]
    for _ in range(45 * budget):
        odd = rng.random() < 0.4
        n = rng.choice([3, 4, 5, 6, 8, 11, 16, 25])
        trees.append((U.rand_tree(rng, n, rng.random() < 0.45, rng.random() < 0.5, rng.choice(["all", "none", "mixed"]), "pos", odd), odd))
    for i, (t, odd) in enumerate(trees):
        io_case(out, fail, t, rng, scratch, i)


def io_case(out, fail, t, rng, scratch, fileno):
    """copies, degree changes, queries, distance reports, every get_newick flag combination and
    write/load_tree for one tree"""
    import cogent3

    fileno = fileno * 10
    if True:
        real = U.build_real(t)
        nested = U.real_nested(real)
        tips = U.n_tips(t)
        od = U.oracle_dists(nested)
        before = U.snapshot(real)
        inp0 = dict(tree=U.frac_json(t))

        def unchanged(route):
            if U.snapshot(real) != before:
                fail(out, f"{route} modified the tree it was called on", dict(inp0, route=route), "unmodified", U.snapshot_diff(before, U.snapshot(real)), f"mutated:{route}")
                return False
            return True

        # copies
        for route, f in (("copy", lambda: real.copy()), ("deepcopy", lambda: real.deepcopy()), ("copy_topology", lambda: real.copy_topology())):
            out["evaluations"] += 1
            res = f()
            if _compare(out, fail, route, dict(inp0, route=route), nested, res, tips, dists=route != "copy_topology", src_dists=od):
                bump(out, "io_route", route + ":ok")
            if not unchanged(route):
                break
            if set(map(id, res.traverse())) & set(map(id, real.traverse())):
                fail(out, f"{route} shares node objects with the original", dict(inp0, route=route), "disjoint", "shared", f"aliased:{route}")
        # multifurcating / bifurcating / unrooted
        for route, f in (("bifurcating", lambda: real.bifurcating()), ("multifurcating(3)", lambda: real.multifurcating(3)), ("unrooted", lambda: real.unrooted())):
            out["evaluations"] += 1
            res = f()
            if _compare(out, fail, route, dict(inp0, route=route), nested, res, tips, bips="equal" if route == "unrooted" else "superset", src_dists=od):
                bump(out, "io_route", route + ":ok")
                out["nontrivial"].add(json.dumps([inp0, route]))
            mx = {"bifurcating": 2, "multifurcating(3)": 3}.get(route)
            if mx and any(len(x.children) > mx for x in res.traverse()):
                fail(out, f"{route} left a node with more than {mx} children", dict(inp0, route=route), mx, "more", f"degree:{route}")
            if route == "unrooted" and len(res.children) < 3 and any(c.children for c in res.children):
                fail(out, "unrooted() result still has < 3 root children although it could collapse one", dict(inp0, route=route), ">= 3", len(res.children), "degree:unrooted")
            unchanged(route)
        # queries
        out["evaluations"] += 1
        k = rng.randint(2, min(4, len(tips)))
        sel = rng.sample(tips, k)
        want = U.oracle_lca_tips(nested, sel)
        node = real.lowest_common_ancestor(sel)
        got = set(node.get_tip_names()) if node.children else {node.name}
        if got != want:
            fail(out, "lowest_common_ancestor is not the smallest clade containing the tips", dict(inp0, tips=sel), sorted(want), sorted(got), "lca:lowest_common_ancestor")
        x, y = sel[0], sel[1]
        node = real.get_connecting_node(x, y)
        got = set(node.get_tip_names())
        if got != U.oracle_lca_tips(nested, [x, y]):
            fail(out, "get_connecting_node is not the smallest clade containing the two tips", dict(inp0, tips=[x, y]), sorted(U.oracle_lca_tips(nested, [x, y])), sorted(got), "lca:get_connecting_node")
        ev = real.get_edge_vector()
        ev2 = real.get_edge_vector(include_root=False)
        if len(ev) != U.n_size(nested) or len(ev2) != U.n_size(nested) - 1 or ev[-1] is not real or any(e is real for e in ev2):
            fail(out, "get_edge_vector does not list every node once in postorder", inp0, U.n_size(nested), len(ev), "edge-vector")
        # tip_to_tip_distances (all / subset of endpoints), max distances, set_tip_distances
        out["evaluations"] += 1
        mat, order = real.tip_to_tip_distances()
        names = [o.name for o in order]
        bad = [(a, b) for i, a in enumerate(names) for j, b in enumerate(names) if Fraction(float(mat[i, j])) != (0 if a == b else od[(a, b)])]
        if bad:
            fail(out, "tip_to_tip_distances differs from the path lengths", dict(inp0, pairs=bad[:3]), "oracle", "different", "ttd:all")
        mat, order = real.tip_to_tip_distances(endpoints=sel)
        names = [getattr(o, "name", o) for o in order]
        bad = [(a, b) for i, a in enumerate(names) for j, b in enumerate(names) if Fraction(float(mat[i, j])) != (0 if a == b else od[(a, b)])]
        if bad or names != sel:
            fail(out, "tip_to_tip_distances(endpoints) differs from the path lengths", dict(inp0, endpoints=sel, pairs=bad[:3]), "oracle", "different", "ttd:endpoints")
        mx = max(od.values())
        m1 = real.max_tip_tip_distance()
        if Fraction(float(m1[0])) != mx or od.get((m1[1][0], m1[1][1])) != mx:
            fail(out, "max_tip_tip_distance is not the largest path length", inp0, str(mx), str(m1), "max-dist:max_tip_tip_distance")
        priv = real.deepcopy()
        m2 = priv.get_max_tip_tip_distance()
        if Fraction(float(m2[0])) != mx or od.get((m2[1][0], m2[1][1])) != mx:
            fail(out, "get_max_tip_tip_distance is not the largest path length", inp0, str(mx), str(m2[:2]), "max-dist:get_max_tip_tip_distance")
        priv = real.deepcopy()
        priv.set_tip_distances()
        hs = U.oracle_tip_heights(nested)
        for p, _n in U.n_internal_paths(nested):
            nd = U.real_node_at(priv, p)
            if Fraction(float(nd.TipDistance)) != hs[p]:
                fail(out, "set_tip_distances: TipDistance is not the distance to the farthest tip below", dict(inp0, node=list(p)), str(hs[p]), float(nd.TipDistance), "set_tip_distances")
                break
        # midpoint rooting: the two farthest tips are equidistant from the new root
        out["evaluations"] += 1
        mr = real.root_at_midpoint()
        mn = U.real_nested(mr)
        maxd, (f1, f2) = real.max_tip_tip_distance()

        def root_depth(x, name, acc=Fraction(0)):
            for c in x[2]:
                if name in U.n_tips(c):
                    return root_depth(c, name, acc + c[1]) if c[2] else acc + c[1]
            return acc

        dd = (root_depth(mn, f1), root_depth(mn, f2))
        if dd[0] != dd[1] or dd[0] * 2 != Fraction(float(maxd)):
            fail(out, "root_at_midpoint: the two farthest tips are not equidistant from the new root", dict(inp0, pair=[f1, f2]), str(Fraction(float(maxd)) / 2), [str(dd[0]), str(dd[1])], "midpoint-equidistant")
        else:
            bump(out, "io_route", "midpoint-equidistant:ok")
        priv = real.deepcopy()
        priv.scale_branch_lengths()
        _compare(out, fail, "scale_branch_lengths", dict(inp0, route="scale_branch_lengths"), nested, priv, tips, dists=False)
        unchanged("queries")
        bump(out, "io_route", "queries:ok")
        # get_newick in every flag combination, read back with make_tree
        meta = not _names_ok(t, NEWICK_META)
        lq = not _names_ok(t, "")
        if not lq:
            for wd, semi, esc, wnn in itertools.product((True, False), repeat=4):
                if not esc and meta:
                    continue  # unescaped output is only meaningful for names without newick metacharacters
                route = f"get_newick[with_distances={wd},semicolon={semi},escape_name={esc},with_node_names={wnn}]"
                out["evaluations"] += 1
                text = real.get_newick(with_distances=wd, semicolon=semi, escape_name=esc, with_node_names=wnn)
                for unmunge in (True, False):
                    if esc and not unmunge and not _names_ok(t, "", forbid_space=True):
                        continue  # blanks are written as underscores; reading them back needs un-munging
                    if not esc and unmunge and not _names_ok(t, "_"):
                        continue  # raw underscores would be un-munged
                    r2 = f"{route}->make_tree[underscore_unmunge={unmunge}]"
                    try:
                        res = cogent3.make_tree(text, underscore_unmunge=unmunge)
                    except Exception as e:  # noqa: BLE001
                        fail(out, f"{r2} raised", dict(inp0, route=r2, text=text[:200]), "a tree", repr(e)[:160], f"raised:{r2}")
                        continue
                    if _compare(out, fail, r2, dict(inp0, route=r2, text=text[:200]), nested, res, tips, dists=wd, src_dists=od):
                        bump(out, "io_route", "get_newick:ok")
            unchanged("get_newick")
        # write / load_tree
        plain = _names_ok(t, NEWICK_META + " _<>&")
        for suffix, ok, kw in (
            (".nwk", not lq, dict(underscore_unmunge=True)),
            (".tree", not lq, dict(underscore_unmunge=True)),
            (".json", not lq and not meta, {}),
            (".xml", plain, {}),
        ):
            if not ok:
                continue
            fileno += 1
            path = scratch / f"t{fileno}{suffix}"
            route = f"write/load_tree[{suffix}]"
            out["evaluations"] += 1
            try:
                real.write(str(path))
                res = cogent3.load_tree(str(path), **kw)
            except Exception as e:  # noqa: BLE001
                fail(out, f"{route} raised", dict(inp0, route=route), "a tree", repr(e)[:160], f"raised:{route}")
                continue
            finally:
                try:
                    path.unlink()
                except OSError:
                    pass
            if _compare(out, fail, route, dict(inp0, route=route), nested, res, tips, src_dists=od):
                bump(out, "io_route", route + ":ok")
        unchanged("write")


# --------------------------------------------------------------------------
# (c) trees whose INTERNAL names are not unique / missing, built without TreeBuilder's renaming
# --------------------------------------------------------------------------
def _plain_newick(t, top=True):
    """own writer: alphanumeric names, lengths as exact decimals of dyadics"""
    def ln(x):
        return "" if x is None else ":" + repr(float(x))
    if not t[2]:
        return t[0] + ln(t[1])
    inner = ",".join(_plain_newick(c, False) for c in t[2])
    return "(" + inner + ")" + (t[0] or "") + ln(t[1]) + (";" if top else "")


def _relabel_internal(rng, t, mode):
    """internal labels: 'support' = bootstrap-style repeated numbers, 'none' = no labels, 'mixed'"""
    import copy

    t = copy.deepcopy(t)

    def go(x, top):
        if x[2]:
            if top:
                x[0] = ""
            elif mode == "support":
                x[0] = rng.choice(["100", "100", "95", "100"])
            elif mode == "none":
                x[0] = ""
            else:
                x[0] = rng.choice(["100", "", "X", "X"])
            for c in x[2]:
                go(c, False)

    go(t, True)
    return t


def _build_variant(t, how):
    """real tree for the nested form `t` through a route that does NOT make names unique"""
    from cogent3.core.tree import PhyloNode, TreeNode

    if how == "DndParser":
        from cogent3.parse.tree import DndParser

        return DndParser(_plain_newick(t), constructor=PhyloNode)
    if how == "make_tree":
        import cogent3

        return cogent3.make_tree(_plain_newick(t))
    cls = PhyloNode if how == "hand-PhyloNode" else TreeNode

    def go(x):
        kids = [go(c) for c in x[2]]
        if cls is PhyloNode:
            return PhyloNode(name=(x[0] or None), children=kids, length=None if x[1] is None else float(x[1]))
        return TreeNode(name=(x[0] or None), children=kids)

    return go(t)


def _cmp_by_tips(out, fail, route, inp, t, res, keep=None, dists=True):
    """compare the real result with the oracle on `t`, identifying everything by TIP names only"""
    tips = U.n_tips(t)
    want_tips = set(tips if keep is None else keep)
    got_tips = [x.name for x in res.tips()]
    if set(got_tips) != want_tips or len(got_tips) != len(want_tips):
        fail(out, f"tip set wrong after {route}", inp, sorted(want_tips), sorted(map(str, got_tips)), f"tips:{route}")
        return False

    def nested(node):
        ln = getattr(node, "length", None)
        return [node.name if not node.children else "", None if ln is None else Fraction(float(ln)), [nested(c) for c in node.children]]

    got = nested(res)
    want_b = U.oracle_bips(t, keep=want_tips)
    if want_b != U.oracle_bips(got):
        fail(out, f"unrooted topology (by tip sets) wrong after {route}", inp, len(want_b), len(U.oracle_bips(got)), f"topology:{route}")
        return False
    if dists:
        od = U.oracle_dists(t)
        gd = res.get_distances()
        bad = []
        for (a, b), v in od.items():
            if a in want_tips and b in want_tips:
                g = gd.get((a, b))
                if g is None or Fraction(float(g)) != v:
                    bad.append((a, b, str(v), None if g is None else str(Fraction(float(g)))))
        if bad:
            fail(out, f"tip-to-tip path length changed by {route}", dict(inp, pairs=bad[:4]), [b[2] for b in bad[:4]], [b[3] for b in bad[:4]], f"dist:{route}")
            return False
    return True


def nonunique_case(out, fail, t, how, rng):
    """every transformation on one tree with repeated / missing internal names"""
    import cogent3
    from cogent3.util.deserialise import deserialise_object

    tips = U.n_tips(t)
    phylo = how != "hand-TreeNode"
    inp0 = dict(tree=U.frac_json(t), built=how)
    try:
        real = _build_variant(t, how)
    except Exception as e:  # noqa: BLE001
        fail(out, f"building the tree through {how} raised", inp0, "a tree", repr(e)[:160], f"raised:build[{how}]")
        return
    out["evaluations"] += 1
    if not _cmp_by_tips(out, fail, f"build[{how}]", inp0, t, real, dists=phylo):
        return
    before = U.snapshot(real)
    names = [n.name for n in real.traverse() if n.children and n.parent is not None]
    ops = [("copy", lambda: real.copy()), ("deepcopy", lambda: real.deepcopy()), ("sorted", lambda: real.sorted()),
           ("rooted_with_tip", lambda: real.rooted_with_tip(rng.choice(tips)))]
    if phylo:
        sub = rng.sample(tips, rng.randint(2, len(tips)))
        ops += [
            ("root_at_midpoint", lambda: real.root_at_midpoint()),
            ("unrooted", lambda: real.unrooted()),
            ("get_sub_tree", (sub, lambda: real.get_sub_tree(sub, tipsonly=True))),
            ("newick-roundtrip", lambda: cogent3.make_tree(real.get_newick(with_distances=True), underscore_unmunge=True)),
            ("json-roundtrip", lambda: deserialise_object(real.to_json())),
        ]
        uniq = [nm for nm in names if nm is not None and names.count(nm) == 1]
        if uniq:
            nm = rng.choice(uniq)
            ops.append(("rooted_at", lambda: real.rooted_at(nm)))
    for op in ops:
        route, f = op
        keep = None
        if isinstance(f, tuple):
            keep, f = f
        out["evaluations"] += 1
        r2 = f"{route}[{how}]"
        inp = dict(inp0, route=route, **({"keep": sorted(keep)} if keep else {}))
        try:
            res = f()
        except Exception as e:  # noqa: BLE001
            fail(out, f"{r2} raised", inp, "a tree", repr(e)[:160], f"raised:{r2}")
            continue
        if _cmp_by_tips(out, fail, r2, inp, t, res, keep=keep, dists=phylo):
            bump(out, "nonunique_route", f"{route}:ok")
            out["nontrivial"].add(json.dumps([inp0, route]))
        if U.snapshot(real) != before:
            fail(out, f"{r2} modified the tree it was called on", inp, "unmodified", U.snapshot_diff(before, U.snapshot(real)), f"mutated:{r2}")
            return


def spec_nonunique_internal(ctx, out, rng, small, budget, fail):
    F = Fraction
    # the tester's class as a fixed first case: midpoint inside an internal branch, repeated label
    hand = ["", None, [["100", F(3), [["a", F(1), []], ["b", F(2), []]]], ["100", F(6), [["c", F(4), []], ["d", F(5), []]]], ["", F(2), [["e", F(1), []], ["f", F(2), []]]]]]
    cases = [(hand, h) for h in ("DndParser", "hand-PhyloNode", "make_tree")]
    for _ in range(30 * budget):
        n = rng.choice([4, 5, 6, 7, 9, 12, 16])
        base = U.rand_tree(rng, n, rng.random() < 0.45, rng.random() < 0.4, "none", "pos", False)
        t = _relabel_internal(rng, base, rng.choice(["support", "none", "mixed"]))
        for how in ("DndParser", "hand-PhyloNode", "make_tree", "hand-TreeNode"):
            cases.append((t, how))
    for t, how in cases:
        bump(out, "nonunique_built", how)
        nonunique_case(out, fail, t, how, rng)
