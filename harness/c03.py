"""C03 — Alignment operations equal the same operations on the gapped strings."""
from __future__ import annotations

import itertools

from .common import add_failure as _add_failure
from .common import bump, new_outcome

PROP = "C03"
PROPS_FILES = ["CogentModel/Props/C03.lean"]
LEAN_TARGETS = ["CogentModel.Props.C03"]
DRIVER = "drv_c03"
TRUSTED = [
    "hand-written model lean/CogentModel/Model/Aln.lean of Aligned = (IndelMap, displayed ungapped string) rows and of the "
    "dense ArrayAlignment rows, on top of Model/IndelMap.lean (C08); tied by random alignments x random op histories run on "
    "real Alignment rows (map state + data string compared after every op)",
    "the Sequence view under each row is modelled by its displayed string (that a view displays the sliced/complemented "
    "string is property C01)",
    "plain Python str operations are the oracle of the spec-level differential",
]
ASSUMPTIONS = [
    "moltypes dna / rna / protein (the property's quantifier); 'text' and 'bytes' alignments are not generated",
    "an IndexError for a negative slice bound beyond -len is accepted as a loud refusal (Python would clamp)",
    "info, annotation_db propagation, repr policies, motif_length > 1 are exercised only",
    "complement table = IUPAC DNA/RNA complement as checked by C12",
]
MAX_PER_SIG = 6

DNA_COMP = str.maketrans("ACGTUNRYSWKMBDHV-?", "TGCAANYRSWMKVHDB-?")
RNA_COMP = str.maketrans("ACGUTNRYSWKMBDHV-?", "UGCAANYRSWMKVHDB-?")
CANON = {"dna": "ACGT", "rna": "ACGU", "protein": "ACDEFGHIKLMNPQRSTVWY"}
DEGEN = {"dna": "NRY", "rna": "NRY", "protein": "XB"}


def add_failure(out, kind, what, inp, expected, got, confirmed=True, sig=None):
    key = f"{kind}:{sig or what}"
    cnt = out.setdefault("_sigcount", {})
    cnt[key] = cnt.get(key, 0) + 1
    bump(out, "failure_sigs", key)
    if cnt[key] <= MAX_PER_SIG:
        _add_failure(out, kind, what, inp, expected, got, confirmed=confirmed, sig=sig, maxkeep=400)


# --------------------------------------------------------------------------
# generators
# --------------------------------------------------------------------------
def _rand_row(rng, n, mt, gappy):
    out = []
    while len(out) < n:
        r = rng.random()
        if r < gappy:
            out += ["-"] * rng.choice([1, 1, 2, 3, 5])
        elif r < gappy + 0.06:
            out.append(rng.choice(DEGEN[mt]))
        else:
            out += [rng.choice(CANON[mt]) for _ in range(rng.choice([1, 2, 4]))]
    return "".join(out[:n])


def _rand_aln(rng):
    mt = rng.choice(["dna", "dna", "rna", "protein"])
    k = rng.randint(1, 5)
    n = rng.choice([0, 1, 2, 3, 5, 8, 13, 24]) if rng.random() < 0.5 else rng.randint(1, 24)
    gappy = rng.choice([0.0, 0.1, 0.25, 0.5])
    rows = {}
    for i in range(k):
        r = rng.random()
        if r < 0.05:
            rows[f"s{i}"] = "-" * n
        elif r < 0.12 and n:
            lead = rng.randint(0, n)
            rows[f"s{i}"] = "-" * lead + _rand_row(rng, n - lead, mt, gappy)
        elif r < 0.2 and n:
            tr = rng.randint(0, n)
            rows[f"s{i}"] = _rand_row(rng, n - tr, mt, gappy) + "-" * tr
        else:
            rows[f"s{i}"] = _rand_row(rng, n, mt, gappy)
    return mt, rows


def _rand_bound(rng, n, wild):
    r = rng.random()
    if r < 0.12:
        return None
    if r < 0.85 or not wild:
        return rng.randint(0, n)
    if r < 0.93:
        return rng.randint(-n - 1, -1) if n else -1
    return rng.randint(n + 1, n + 4)


def _rand_op(rng, mt, rows, wild=True):
    names = list(rows)
    n = len(next(iter(rows.values()))) if rows else 0
    r = rng.random()
    if r < 0.22:
        return ["slice", _rand_bound(rng, n, wild), _rand_bound(rng, n, wild)]
    if r < 0.27:
        return ["int", rng.randint(0, max(n - 1, 0)) if (rng.random() < 0.7 or not wild) else rng.randint(-n - 1, n + 1)]
    if r < 0.40 and mt in ("dna", "rna"):
        return ["rc"]
    if r < 0.52:
        k = rng.randint(0, min(n, 6))
        cols = [rng.randint(0, max(n - 1, 0)) for _ in range(k)] if n else []
        if wild and n and rng.random() < 0.1:
            cols.append(rng.choice([-1, -n, n, n + 1]))
        return ["take_positions", cols, rng.random() < 0.3]
    if r < 0.60:
        k = rng.randint(1, len(names))
        sel = rng.sample(names, k)
        neg = rng.random() < 0.3 and k < len(names)
        return ["take_seqs", sel, neg]
    if r < 0.66:
        return ["no_degenerates", rng.random() < 0.3]
    if r < 0.73:
        return ["omit_gap_pos", rng.choice([None, None, 0, 0.25, 0.5, 0.75])]
    if r < 0.79:
        return ["degapped_relative_to", rng.choice(names)]
    if r < 0.84:
        if rng.random() < 0.5:
            perm = list(range(n))
            rng.shuffle(perm)
            return ["sample_perm", perm, rng.randint(0, n)]
        return ["sample_idx", [rng.randint(0, max(n - 1, 0)) for _ in range(rng.randint(1, 6))] if n else []]
    if r < 0.90:
        return ["add", rng.choice(["self", "copy"])]
    if r < 0.96:
        return ["to_type", rng.random() < 0.5]
    if mt == "dna":
        return ["to_rna"]
    if mt == "rna":
        return ["to_dna"]
    return ["to_type", rng.random() < 0.5]


# --------------------------------------------------------------------------
# the spec: the same op on plain strings
# --------------------------------------------------------------------------
class SpecNone(Exception):
    """the op has no result (filtered() returning None / empty selection)"""


def _spec_apply(mt, rows, op):
    """returns (moltype, rows); raises IndexError/ValueError/SpecNone like the string operation would"""
    k = op[0]
    names = list(rows)
    n = len(rows[names[0]]) if names else 0
    if k == "slice":
        return mt, {nm: s[op[1] : op[2]] for nm, s in rows.items()}
    if k == "int":
        return mt, {nm: s[op[1]] for nm, s in rows.items()}
    if k == "rc":
        tab = DNA_COMP if mt == "dna" else RNA_COMP
        return mt, {nm: s[::-1].translate(tab) for nm, s in rows.items()}
    if k == "take_positions":
        cols, neg = op[1], op[2]
        if neg:
            drop = set(cols)
            return mt, {nm: "".join(c for i, c in enumerate(s) if i not in drop) for nm, s in rows.items()}
        return mt, {nm: "".join(s[i] for i in cols) for nm, s in rows.items()}
    if k == "take_seqs":
        sel, neg = op[1], op[2]
        keep = [nm for nm in names if nm not in sel] if neg else list(sel)
        return mt, {nm: rows[nm] for nm in keep}
    if k in ("no_degenerates", "omit_gap_pos", "degapped_relative_to"):
        if k == "no_degenerates":
            ok = set(CANON[mt]) | ({"-"} if op[1] else set())
            keep = [i for i in range(n) if all(rows[nm][i] in ok for nm in names)]
        elif k == "omit_gap_pos":
            frac = op[1]
            if frac is None:
                keep = [i for i in range(n) if not all(rows[nm][i] in "-?" for nm in names)]
            else:
                keep = [i for i in range(n) if sum(rows[nm][i] in "-?" for nm in names) <= frac * len(names)]
        else:
            keep = [i for i in range(n) if rows[op[1]][i] != "-"]
        if not keep and k != "degapped_relative_to":
            raise SpecNone()
        return mt, {nm: "".join(s[i] for i in keep) for nm, s in rows.items()}
    if k == "sample_perm":
        locs = op[1][: op[2]] if op[2] else op[1]
        return mt, {nm: "".join(s[i] for i in locs) for nm, s in rows.items()}
    if k == "sample_idx":
        return mt, {nm: "".join(s[i] for i in op[1]) for nm, s in rows.items()}
    if k == "add":
        return mt, {nm: s + s for nm, s in rows.items()}
    if k == "to_type":
        return mt, dict(rows)
    if k == "to_rna":
        return "rna", {nm: s.replace("T", "U") for nm, s in rows.items()}
    if k == "to_dna":
        return "dna", {nm: s.replace("U", "T") for nm, s in rows.items()}
    raise ValueError(k)


def _mk(rows, mt, arr):
    import cogent3

    return cogent3.make_aligned_seqs(dict(rows), array_align=arr, moltype=mt)


def _real_apply(aln, op, mt):
    k = op[0]
    if k == "slice":
        return aln[op[1] : op[2]]
    if k == "int":
        return aln[op[1]]
    if k == "rc":
        return aln.rc()
    if k == "take_positions":
        return aln.take_positions(op[1], negate=op[2])
    if k == "take_seqs":
        return aln.take_seqs(op[1], negate=op[2])
    if k == "no_degenerates":
        return aln.no_degenerates(allow_gap=op[1])
    if k == "omit_gap_pos":
        return aln.omit_gap_pos() if op[1] is None else aln.omit_gap_pos(allowed_gap_frac=op[1])
    if k == "degapped_relative_to":
        return aln.get_degapped_relative_to(op[1])
    if k == "sample_perm":
        perm, n = op[1], op[2]
        return aln.sample(n=n, with_replacement=False, permutation=lambda size: list(perm))
    if k == "sample_idx":
        idx = op[1]
        return aln.sample(n=len(idx), with_replacement=True, randint=lambda lo, hi, size: list(idx))
    if k == "add":
        if op[1] == "self":
            return aln + aln
        from cogent3.core.alignment import ArrayAlignment

        other = _mk(aln.to_dict(), aln.moltype.label, isinstance(aln, ArrayAlignment))
        return aln + other
    if k == "to_type":
        return aln.to_type(array_align=op[1])
    if k == "to_rna":
        return aln.to_rna()
    if k == "to_dna":
        return aln.to_dna()
    raise ValueError(k)


def _op_detail(op, rows):
    """narrow class of an op relative to the alignment it is applied to (for signatures)"""
    names = list(rows)
    n = len(rows[names[0]]) if names else 0
    k = op[0]
    if k == "slice":
        a, b = op[1], op[2]
        if (a is not None and a < -n) or (b is not None and b < -n):
            return "neg-oob"
        if (b is not None and b > n) or (a is not None and a > n):
            return "beyond-len"
        if (a is not None and a < 0) or (b is not None and b < 0):
            return "negative"
        if b == 0 and b is not None:
            return "stop-zero"
        return "in-range"
    if k == "int":
        i = op[1]
        return "negative" if i < 0 else ("oob" if i >= n else "in-range")
    if k == "take_positions":
        cols = op[1]
        if op[2]:
            return "negate"
        if any(c < 0 for c in cols):
            return "neg-col"
        if any(c >= n for c in cols):
            return "oob-col"
        return "plain"
    if k == "add":
        return op[1]
    if k == "sample_perm" or k == "sample_idx":
        return "n=0" if (k == "sample_perm" and op[2] == 0) or (k == "sample_idx" and not op[1]) else "given"
    return ""


def _tainted(done):
    """did an earlier op slice beyond the end (the state then carries a too-long map)?"""
    return any(d[0] == "slice" and d[-1] == "beyond-len" for d in done)


READ_ONLY = [
    ("names", lambda a: list(a.names)),
    ("len", lambda a: len(a)),
    ("num_seqs", lambda a: a.num_seqs),
    ("to_fasta", lambda a: a.to_fasta()),
    ("to_phylip", lambda a: a.to_phylip()),
    ("is_ragged", lambda a: a.is_ragged()),
    ("get_lengths", lambda a: sorted(dict(a.get_lengths()).items())),
    ("degap", lambda a: a.degap().to_dict()),
    ("count_gaps_per_pos", lambda a: [int(x) for x in a.count_gaps_per_pos().array]),
    ("count_gaps_per_seq", lambda a: [int(x) for x in a.count_gaps_per_seq().array]),
    ("variable_positions", lambda a: [int(x) for x in a.variable_positions()]),
    ("majority_consensus", lambda a: str(a.majority_consensus())),
    ("iupac_consensus", lambda a: str(a.iupac_consensus())),
    ("get_gap_array", lambda a: a.get_gap_array().astype(int).tolist()),
    ("counts_per_pos", lambda a: a.counts_per_pos().array.astype(int).tolist()),
    ("get_gapped_seq", lambda a: [str(a.get_gapped_seq(n)) for n in a.names]),
    ("get_seq", lambda a: [str(a.get_seq(n)) for n in a.names]),
    ("iter_positions", lambda a: ["".join(map(str, p)) for p in a.iter_positions()]),
    ("str", lambda a: str(a)),
    ("counts", lambda a: sorted(dict(a.counts()).items())),
]


def _call(f, a):
    try:
        return ("ok", f(a))
    except Exception as e:
        return ("exc", type(e).__name__)


def _run_history(out, rng, mt0, rows0, ops, arr, check_methods=True):
    """run ops on the real class and on the strings; report the first divergence. returns number of ops that agreed"""
    cls = "ArrayAlignment" if arr else "Alignment"
    inp = dict(cls=cls, moltype=mt0, rows=rows0, ops=[])
    try:
        aln = _mk(rows0, mt0, arr)
    except Exception as e:
        add_failure(out, "spec", "constructor raised", inp, rows0, repr(e), sig=f"{cls}:construct")
        return 0
    mt, rows = mt0, dict(rows0)
    done = []
    for op in ops:
        detail = _op_detail(op, rows)
        done.append((op[0], detail))
        inp = dict(cls=cls, moltype=mt0, rows=rows0, ops=ops[: len(done)])
        out["evaluations"] += 1
        want_exc = None
        try:
            nmt, nrows = _spec_apply(mt, rows, op)
        except IndexError:
            want_exc = "IndexError"
        except SpecNone:
            want_exc = "None"
        got_exc = None
        try:
            res = _real_apply(aln, op, mt)
            if res is None:
                got_exc = "None"
            elif isinstance(res, dict) and not res:
                got_exc = "None"
        except IndexError:
            got_exc = "IndexError"
        except Exception as e:
            got_exc = type(e).__name__
        taint = ":after-slice-beyond-len" if _tainted(done[:-1]) else ""
        cur_cls = type(aln).__name__
        sig = f"{cur_cls}:{op[0]}:{detail}{taint}"
        if want_exc or got_exc:
            if want_exc != got_exc:
                if op[0] == "slice" and detail == "neg-oob" and got_exc == "IndexError":
                    bump(out, "accepted_refusal", sig)
                    return len(done) - 1
                add_failure(out, "spec", f"{op[0]} raises/returns differently from the string operation", inp, want_exc or "rows", got_exc or "rows", sig=sig + ":exc")
            return len(done) - 1
        try:
            got = res.to_dict()
            got_names = list(res.names)
            got_len = len(res)
        except Exception as e:
            add_failure(out, "spec", f"result of {op[0]} cannot be read", inp, nrows, repr(e), sig=sig + ":unreadable")
            return len(done) - 1
        want_len = len(next(iter(nrows.values()))) if nrows else 0
        if got != nrows or got_names != list(nrows):
            add_failure(out, "spec", f"rows after {op[0]} differ from the same operation on the gapped strings", inp, nrows, got, sig=sig)
            return len(done) - 1
        if got_len != want_len:
            # recorded, but the history goes on: what a too-long map does to later ops is a separate signature
            add_failure(out, "spec", f"len(alignment) after {op[0]} differs from the row length", inp, want_len, got_len, sig=sig + ":len")
        if len({len(v) for v in got.values()}) > 1:
            add_failure(out, "spec", f"rows of unequal length after {op[0]}", inp, nrows, got, sig=sig + ":ragged")
            return len(done) - 1
        aln, mt, rows = res, nmt, nrows
        bump(out, "op", op[0])
        bump(out, "op_detail", f"{op[0]}:{detail}")
    # read-only methods answer as on a fresh object built from the rows
    if check_methods and rows and rng.random() < 0.5:
        from cogent3.core.alignment import ArrayAlignment

        is_arr = isinstance(aln, ArrayAlignment)
        fresh = _mk(rows, mt, is_arr)
        for name, f in rng.sample(READ_ONLY, 5):
            a, b = _call(f, aln), _call(f, fresh)
            bump(out, "methods", name)
            if a != b:
                taint = ":after-slice-beyond-len" if _tainted(done) else ""
                add_failure(out, "spec", f"read-only method {name} differs from a fresh alignment built from the rows",
                            dict(cls=cls, moltype=mt0, rows=rows0, ops=ops, method=name), b, a,
                            sig=f"{'ArrayAlignment' if is_arr else 'Alignment'}:method:{name}{taint}")
    return len(done)


# --------------------------------------------------------------------------
# spec-level differential (also the failing-input search)
# --------------------------------------------------------------------------
def _regression_corpus(out, rng):
    """witnesses of repaired defects (status "fixed" in known_findings.d/C03.json) are replayed first on every run;
    a failure is an ordinary spec failure (fixed entries are never matched as known)"""
    import json
    from .common import VERIF

    fp = VERIF / "known_findings.d" / "C03.json"
    if not fp.exists():
        return
    for k in json.loads(fp.read_text()).get("findings", []):
        w = k.get("witness")
        if k.get("status") != "fixed" or not w:
            continue
        bump(out, "regression_corpus", k["id"])
        tmp = new_outcome()
        _run_history(tmp, rng, w["moltype"], w["rows"], w["ops"], w.get("cls") == "ArrayAlignment", check_methods=False)
        out["evaluations"] += tmp["evaluations"]
        for f in tmp["failures"]:
            add_failure(out, "spec", f"REGRESSION of {k['id']} ({k.get('commit')}): " + f["what"], f["input"], f["expected"], f["got"], sig="regression:" + f["sig"])


def spec_check(ctx, budget):
    out = new_outcome(
        "random dna/rna/protein alignments (1-5 rows, length 0-24, leading/trailing/all-gap rows, degenerates) x random "
        "histories (depth 1-5) of slice/int/rc/take_positions/take_seqs/no_degenerates/omit_gap_pos/degapped_relative_to/"
        "sample(given indices)/+/to_type/to_rna/to_dna on BOTH Alignment and ArrayAlignment vs the same ops on plain "
        "strings; exhaustive single slices/int/rc-after-slice on small alignments; read-only methods vs a fresh object. "
        "non-trivial = distinct (class, alignment, history) that ran >= 1 op to a non-empty result"
    )
    rng = ctx.subrng(f"spec{budget}")
    _regression_corpus(out, rng)
    # exhaustive: every [a:b] (None/negative/out-of-range) then rc, on a few fixed layouts
    fixed = [
        ("dna", {"s0": "G--", "s1": "A-C", "s2": "YYG"}),
        ("dna", {"s0": "--AC-", "s1": "T-G-A", "s2": "-----"}),
        ("rna", {"s0": "ACGU", "s1": "A--U"}),
        ("protein", {"s0": "MK-L", "s1": "-KXL"}),
    ]
    for mt, rows in fixed:
        n = len(next(iter(rows.values())))
        vals = [None] + list(range(-n - 1, n + 3))
        for a, b in itertools.product(vals, vals):
            for arr in (False, True):
                tail = [["rc"]] if mt != "protein" else [["take_positions", [0], False]]
                _run_history(out, rng, mt, rows, [["slice", a, b]] + (tail if rng.random() < 0.5 else []), arr, check_methods=False)
        for i in range(-n - 1, n + 2):
            for arr in (False, True):
                _run_history(out, rng, mt, rows, [["int", i]], arr, check_methods=False)
    for it in range(400 * budget):
        mt, rows = _rand_aln(rng)
        # build the history against the evolving string state so later ops stay meaningful
        ops, cur_mt, cur = [], mt, dict(rows)
        for _ in range(rng.randint(1, 5)):
            if not cur:
                break
            op = _rand_op(rng, cur_mt, cur, wild=rng.random() < 0.5)
            ops.append(op)
            try:
                cur_mt, cur = _spec_apply(cur_mt, cur, op)
            except (IndexError, SpecNone):
                break
        for arr in (False, True):
            k = _run_history(out, rng, mt, rows, ops, arr)
            if k and any(rows.values()):
                out["nontrivial"].add((arr, mt, str(rows), str(ops)))
            bump(out, "history_depth", len(ops))
        bump(out, "moltype", mt)
        bump(out, "nrows", len(rows))
        if len(out["samples"]) < 4 and len(ops) >= 3 and len(next(iter(rows.values()))) > 5:
            out["samples"].append(dict(moltype=mt, rows=rows, ops=ops, expected=cur))
    return out


# --------------------------------------------------------------------------
# correspondence: Lean row model vs the real Aligned rows / ArrayAlignment rows
# --------------------------------------------------------------------------
MODEL_OPS = ("slice", "int", "rc", "take_seqs", "take_positions", "to_rna", "to_dna", "add", "keep")


def _row_state(aln):
    """[(name, gap_pos, cum, parent_length, displayed ungapped data)] of an Alignment"""
    res = []
    for s in aln.seqs:
        res.append(
            dict(name=s.name, gp=[int(x) for x in s.map.gap_pos], cum=[int(x) for x in s.map.cum_gap_lengths],
                 pl=int(s.map.parent_length), data=str(s.data))
        )
    return res


def _real_model_op(aln, op):
    from cogent3.core.location import FeatureMap

    if op[0] == "keep":
        # Alignment.gapped_by_map with a run-length FeatureMap of kept blocks (what filtered() builds)
        fm = FeatureMap.from_locations(locations=[tuple(l) for l in op[1]], parent_length=len(aln))
        return aln.gapped_by_map(fm)
    return _real_apply(aln, op, aln.moltype.label)


def correspondence(ctx):
    out = new_outcome(
        "Lean row model (IndelMap x displayed string per row) vs real Alignment rows after every op of random histories "
        "(slice incl. None/negative/beyond-len, int, rc, take_seqs, take_positions, to_rna/to_dna, + (self/copy), keep = "
        "gapped_by_map with a run-length FeatureMap as filtered() builds); dense rows vs ArrayAlignment. compared: each "
        "row's (gap_pos, cum_gap_lengths, parent_length, data string), names, to_dict. non-trivial = distinct (alignment, "
        "history) with >= 1 op applied and a gap in some row"
    )
    rng = ctx.subrng("corr")
    cases = []
    for it in range(ctx.budget(1000, 15000)):
        mt, rows = _rand_aln(rng)
        if mt == "protein" and rng.random() < 0.5:
            mt, rows = _rand_aln(rng)
        ops = []
        cur_mt, cur = mt, dict(rows)
        for _ in range(rng.randint(1, 5)):
            if not cur:
                break
            n = len(next(iter(cur.values())))
            if rng.random() < 0.15 and n:
                k = rng.randint(1, 3)
                c = sorted(rng.sample(range(0, n + 1), min(2 * k, (n + 1) // 2 * 2)))
                locs = [[c[2 * i], c[2 * i + 1]] for i in range(len(c) // 2)]
                op = ["keep", locs]
            else:
                op = _rand_op(rng, cur_mt, cur, wild=rng.random() < 0.5)
                if op[0] not in MODEL_OPS:
                    continue
            ops.append(op)
            try:
                if op[0] == "keep":
                    cur = {nm: "".join(s[a:b] for a, b in op[1]) for nm, s in cur.items()}
                else:
                    cur_mt, cur = _spec_apply(cur_mt, cur, op)
            except (IndexError, SpecNone):
                break
        if ops:
            cases.append((mt, rows, ops))
    reqs = [("history", dict(moltype=mt, rows=[[k, v] for k, v in rows.items()], ops=ops)) for mt, rows, ops in cases]
    models = ctx.driver.batch(reqs)
    for (mt, rows, ops), model in zip(cases, models):
        if "error" in model:
            add_failure(out, "corr", "driver error", dict(moltype=mt, rows=rows, ops=ops), None, model, confirmed=False)
            continue
        # annotatable class: row states
        aln = _mk(rows, mt, False)
        arr = _mk(rows, mt, True)
        real_states, arr_states = [_row_state(aln)], [arr.to_dict()]
        alive_a = alive_b = True
        for op in ops:
            if alive_a and op[0] == "keep" and max(e for _, e in op[1]) > len(aln):
                # the kept blocks were drawn for the string state; FeatureMap.from_locations would clip them
                alive_a = False
            if alive_a:
                try:
                    aln = _real_model_op(aln, op)
                    real_states.append(_row_state(aln))
                except Exception as e:
                    real_states.append({"err": type(e).__name__})
                    alive_a = False
            if alive_b:
                try:
                    if op[0] == "keep":
                        from cogent3.core.location import FeatureMap

                        raise NotImplementedError
                    arr = _real_apply(arr, op, arr.moltype.label)
                    arr_states.append(arr.to_dict())
                except NotImplementedError:
                    alive_b = False
                except Exception as e:
                    arr_states.append({"err": type(e).__name__})
                    alive_b = False
        out["evaluations"] += len(real_states) + len(arr_states)
        m_rows = model["aligned"][: len(real_states)]
        if m_rows != real_states:
            i = next((j for j, (x, y) in enumerate(zip(m_rows, real_states)) if x != y), min(len(m_rows), len(real_states)))
            add_failure(out, "corr", f"Aligned row state differs after op #{i} ({ops[i - 1][0] if i else 'construct'})",
                        dict(moltype=mt, rows=rows, ops=ops[:i]), m_rows[i] if i < len(m_rows) else None,
                        real_states[i] if i < len(real_states) else None, confirmed=False)
        m_arr = model["array"][: len(arr_states)]
        if m_arr != arr_states:
            i = next((j for j, (x, y) in enumerate(zip(m_arr, arr_states)) if x != y), min(len(m_arr), len(arr_states)))
            add_failure(out, "corr", f"ArrayAlignment rows differ after op #{i} ({ops[i - 1][0] if i else 'construct'})",
                        dict(moltype=mt, rows=rows, ops=ops[:i]), m_arr[i] if i < len(m_arr) else None,
                        arr_states[i] if i < len(arr_states) else None, confirmed=False)
        for op in ops:
            bump(out, "corr_op", op[0])
        if any("-" in v for v in rows.values()) and len(real_states) > 1:
            out["nontrivial"].add((mt, str(rows), str(ops)))
        if len(out["samples"]) < 3 and len(ops) >= 3 and isinstance(real_states[-1], list):
            out["samples"].append(dict(moltype=mt, rows=rows, ops=ops, final_row_states=real_states[-1]))
    return out


# --------------------------------------------------------------------------
# findings
# --------------------------------------------------------------------------
def match_finding(f, k):
    sig = f.get("sig") or ""
    import fnmatch

    if not any(fnmatch.fnmatchcase(sig, s) for s in k.get("sigs", [])):
        return False
    r = k.get("restrict") or {}
    inp = f.get("input") or {}
    ops = inp.get("ops") or []
    if r.get("cls") and inp.get("cls") != r["cls"]:
        return False
    if r.get("last_op") and (not ops or ops[-1][0] not in r["last_op"]):
        return False
    if r.get("needs_slice_beyond_len"):
        # some slice in the history must reach beyond the current length
        if not _history_has_beyond(inp):
            return False
    if r.get("moltypes") and inp.get("moltype") not in r["moltypes"]:
        return False
    return True


def _history_has_beyond(inp):
    mt, rows = inp.get("moltype"), dict(inp.get("rows") or {})
    for op in inp.get("ops") or []:
        if op[0] == "slice" and _op_detail(op, rows) == "beyond-len":
            return True
        try:
            mt, rows = _spec_apply(mt, rows, op)
        except Exception:
            return False
    return False


def _replay_input(inp, sig):
    out = new_outcome()
    import random

    rng = random.Random(0)
    arr = inp.get("cls") == "ArrayAlignment"
    if "method" in inp:
        # force the method comparison
        global READ_ONLY
        saved = READ_ONLY
        try:
            READ_ONLY = [m for m in saved if m[0] == inp["method"]] * 5

            class R(random.Random):
                def random(self):
                    return 0.0

            _run_history(out, R(0), inp["moltype"], inp["rows"], inp["ops"], arr)
        finally:
            READ_ONLY = saved
    else:
        _run_history(out, rng, inp["moltype"], inp["rows"], inp["ops"], arr, check_methods=False)
    for f in out["failures"]:
        if sig is None or f["sig"] == sig:
            return f
    return None


def check_witness(ctx, w):
    return _replay_input(w, w.get("sig"))


def replay(ctx, data):
    f = data.get("failing_input") or {}
    inp = f.get("input")
    if not inp or "rows" not in inp:
        return False
    r = _replay_input(inp, None)
    if r:
        print("expected", r["expected"], "got", r["got"])
    return r is not None
