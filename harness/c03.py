"""C03 — Alignment operations equal the same operations on the gapped strings."""
from __future__ import annotations

import itertools

from .common import add_failure as _add_failure
from .common import bump, new_outcome

PROP = "C03"
PROPS_FILES = ["CogentModel/Props/C03.lean", "CogentModel/Props/C03Filter.lean", "CogentModel/Props/C03Gen.lean"]
LEAN_TARGETS = ["CogentModel.Props.C03", "CogentModel.Props.C03Filter", "CogentModel.Props.C03Gen"]
DRIVER = "drv_c03"
TRUSTED = [
    "hand-written model lean/CogentModel/Model/Aln.lean of Aligned = (IndelMap, displayed ungapped string) rows and of the "
    "dense ArrayAlignment rows, on top of Model/IndelMap.lean (C08); tied by random alignments x random op histories run on "
    "real Alignment rows (map state + data string compared after every op)",
    "the Sequence view under each row is modelled by its displayed string (that a view displays the sliced/complemented "
    "string is property C01)",
    "plain Python str operations are the oracle of the spec-level differential",
    "translator/c03_windows2lean.py (AST of AlignmentI.sliding_windows -> Gen/C03Windows.lean, proved equal to the hand model "
    "windowBounds for all arguments; PySlice.rangeList is the spec of range())",
    "hand-written model lean/CogentModel/Model/AlnPred.lean of the predicate side of filtered / no_degenerates / omit_gap_pos "
    "(motif grouping, zip(*seqs), AllowedCharacters, GapsOk incl. the binary64 quotient f64div, the kept toggle, the "
    "drop_remainder refusal) and of the sliding_windows bounds; tied by the history correspondence (the model evaluates "
    "the predicate itself), by calling the real GapsOk / AllowedCharacters objects on random columns, by f64div vs "
    "CPython float division over an exhaustive box, and by sliding_windows of both classes",
]
ASSUMPTIONS = [
    "moltypes dna / rna / protein (the property's quantifier); 'text' and 'bytes' alignments are not generated",
    "an IndexError for a negative slice bound beyond -len is accepted as a loud refusal (Python would clamp)",
    "info, annotation_db propagation, repr policies, motif_length > 1 are exercised only",
    "complement table = IUPAC DNA/RNA complement as checked by C12",
]
MAX_PER_SIG = 6


def generate(ctx):
    """translator step: AlignmentI.sliding_windows of the CURRENT source -> Gen/C03Windows.lean (proved equal to the hand model
    windowBounds in Props/C03Gen.lean, so a semantic edit of the method breaks a proof obligation)"""
    import sys

    from .common import LEAN, SRC, VERIF

    sys.path.insert(0, str(VERIF))
    from translator import c03_windows2lean as tr

    lean, info, problems = tr.translate(SRC / "core" / "alignment.py")
    ctx.notes.append(f"c03_windows2lean: {info}")
    if lean is not None and tr.write_if_changed(LEAN / "CogentModel" / "Gen" / "C03Windows.lean", lean):
        ctx.notes.append("Gen/C03Windows.lean was rewritten (source differs from the last generated text)")
    return [f"c03_windows2lean: {p}" for p in problems]
N_PLANNED = 330  # planned histories per budget unit (x 2 classes)
N_RANDOM = 220  # free random histories per budget unit (x 2 classes)

DNA_COMP = str.maketrans("ACGTUNRYSWKMBDHV-?", "TGCAANYRSWMKVHDB-?")
RNA_COMP = str.maketrans("ACGUTNRYSWKMBDHV-?", "UGCAANYRSWMKVHDB-?")
CANON = {"dna": "ACGT", "rna": "ACGU", "protein": "ACDEFGHIKLMNPQRSTVWY"}
DEGEN = {"dna": "NRY?", "rna": "NRY?", "protein": "XB?"}


def add_failure(out, kind, what, inp, expected, got, confirmed=True, sig=None):
    key = f"{kind}:{sig or what}"
    cnt = out.setdefault("_sigcount", {})
    cnt[key] = cnt.get(key, 0) + 1
    bump(out, "failure_sigs", key)
    if cnt[key] <= MAX_PER_SIG:
        _add_failure(out, kind, what, inp, expected, got, confirmed=confirmed, sig=sig, maxkeep=400)


# --------------------------------------------------------------------------
# generators
# --------------------------------------------------------------------------
def _rand_row(rng, n, mt, gappy):
    out = []
    while len(out) < n:
        r = rng.random()
        if r < gappy:
            out += ["-"] * rng.choice([1, 1, 2, 3, 5])
        elif r < gappy + 0.06:
            out.append(rng.choice(DEGEN[mt]))
        else:
            out += [rng.choice(CANON[mt]) for _ in range(rng.choice([1, 2, 4]))]
    return "".join(out[:n])


def _rand_aln(rng):
    mt = rng.choice(["dna", "dna", "rna", "protein"])
    k = rng.randint(1, 5)
    n = rng.choice([0, 1, 2, 3, 5, 8, 13, 24]) if rng.random() < 0.5 else rng.randint(1, 24)
    gappy = rng.choice([0.0, 0.1, 0.25, 0.5])
    rows = {}
    for i in range(k):
        r = rng.random()
        if r < 0.05:
            rows[f"s{i}"] = "-" * n
        elif r < 0.12 and n:
            lead = rng.randint(0, n)
            rows[f"s{i}"] = "-" * lead + _rand_row(rng, n - lead, mt, gappy)
        elif r < 0.2 and n:
            tr = rng.randint(0, n)
            rows[f"s{i}"] = _rand_row(rng, n - tr, mt, gappy) + "-" * tr
        else:
            rows[f"s{i}"] = _rand_row(rng, n, mt, gappy)
    return mt, rows


def _rand_bound(rng, n, wild):
    r = rng.random()
    if r < 0.12:
        return None
    if r < 0.85 or not wild:
        return rng.randint(0, n)
    if r < 0.93:
        return rng.randint(-n - 1, -1) if n else -1
    return rng.randint(n + 1, n + 4)


def _ncols(rows):
    return len(next(iter(rows.values()))) if rows else 0


def _gap_targets(rows):
    """alignment columns where some row's gap run starts or ends, +-1, 0, len"""
    n = _ncols(rows)
    pts = {0, 1, n - 1, n}
    for s in rows.values():
        for i in range(1, n):
            if (s[i] == "-") != (s[i - 1] == "-"):
                pts |= {i - 1, i, i + 1}
    return sorted(p for p in pts if 0 <= p <= n)


def _targeted_bound(rng, rows, wild):
    """a slice bound at a gap boundary of some row (sometimes written negative), else the uniform/wild stream"""
    n = _ncols(rows)
    r = rng.random()
    if r < 0.08:
        return None
    if r < 0.72:
        p = rng.choice(_gap_targets(rows))
        if wild and p < n and rng.random() < 0.2:
            return p - n
        return p
    return _rand_bound(rng, n, wild)


SHAPES = ["all-gap-col", "all-gap-col", "all-gap-row", "all-gap-row", "single-row", "single-col", "lead-trail",
          "lead-trail", "empty", "all-gap", "codon", "codon", "codon", "plain"]


def _shaped_aln(rng):
    """alignments with a forced feature: all-gap columns / rows, one row, one column, leading+trailing gap runs,
    zero columns, nothing but gaps, codon-sized (3k, 3k+1, 3k+2 columns)"""
    shape = rng.choice(SHAPES)
    mt, rows = _rand_aln(rng)
    names = list(rows)
    n = _ncols(rows)
    if shape == "codon" or (n < 2 and shape in ("all-gap-col", "lead-trail")):
        n = rng.choice([3, 6, 9, 12, 4, 7, 10, 5, 8, 11])
        gappy = rng.choice([0.1, 0.25, 0.4])
        rows = {nm: _rand_row(rng, n, mt, gappy) for nm in names}
    if shape == "all-gap-col":
        cols = set(rng.sample(range(n), min(n, rng.randint(1, 3))))
        if rng.random() < 0.4:
            cols |= {0} if rng.random() < 0.5 else {n - 1}
        if rng.random() < 0.4:
            c = rng.randrange(n)
            cols |= {c, min(c + 1, n - 1)}
        rows = {nm: "".join("-" if i in cols else ch for i, ch in enumerate(s)) for nm, s in rows.items()}
    elif shape == "all-gap-row":
        for nm in rng.sample(names, rng.randint(1, max(1, len(names) - 1))):
            rows[nm] = "-" * n
    elif shape == "single-row":
        rows = {names[0]: rows[names[0]]}
    elif shape == "single-col":
        rows = {nm: (s[:1] or rng.choice(CANON[mt] + "-")) for nm, s in rows.items()}
    elif shape == "lead-trail":
        for nm in names:
            a, b = rng.randint(0, n // 2), rng.randint(0, n // 2)
            if rng.random() < 0.7:
                rows[nm] = "-" * a + rows[nm][a : n - b] + "-" * b
    elif shape == "empty":
        rows = {nm: "" for nm in names}
    elif shape == "all-gap":
        rows = {nm: "-" * max(n, 1) for nm in names}
    return mt, rows, shape


PREDS = {
    # predicates on the tuple of per-row motifs of one (motif-)column
    "nogap": lambda ms: all("-" not in m for m in ms),
    "first-nongap": lambda ms: "-" not in ms[0],
    "variable": lambda ms: len(set(ms)) > 1,
    "hash": lambda ms: (sum(ord(c) for m in ms for c in m) + len(ms)) % 3 != 0,
    "all": lambda ms: True,
    "none": lambda ms: False,
}


def _gen_op(rng, kind, mt, rows, wild=True):
    """one op of the given kind, parameters drawn relative to the current string state; None if not applicable"""
    names = list(rows)
    nr, n = len(names), _ncols(rows)
    if kind == "slice":
        a, b = _targeted_bound(rng, rows, wild), _targeted_bound(rng, rows, wild)
        if rng.random() < 0.7 and n >= 2:
            # mostly a non-empty window between two gap boundaries (so that the history goes on)
            t = _gap_targets(rows)
            x, y = sorted(rng.sample(t, 2)) if len(t) >= 2 else (0, n)
            a = x if rng.random() < 0.85 else (None if x == 0 else x - n)
            b = y if rng.random() < 0.75 else (None if y == n else (y - n if y < n else rng.randint(n + 1, n + 3) if wild else n))
        return ["slice", a, b]
    if kind == "rc":
        return ["rc"] if mt in ("dna", "rna") else None
    if kind == "take_positions":
        neg = rng.random() < 0.35
        if not n:
            return ["take_positions", [], neg]
        style = rng.choice(["plain", "repeated", "unsorted", "negative", "oob", "mixed", "empty", "targets", "all"])
        cols = [rng.randrange(n) for _ in range(rng.randint(1, min(n, 6) + 2))]
        if style == "plain":
            cols = sorted(set(cols))
        elif style == "repeated":
            cols = sorted(cols + [rng.choice(cols)] * 2)
        elif style == "unsorted":
            cols = sorted(set(cols), reverse=True)
            if len(cols) > 2 and rng.random() < 0.5:
                rng.shuffle(cols)
        elif style == "negative":
            cols = [c - n if rng.random() < 0.6 else c for c in cols] + [rng.choice([-1, -n])]
        elif style == "oob":
            cols.insert(rng.randint(0, len(cols)), rng.choice([n, n + 1, -n - 1, -n - 2]))
        elif style == "mixed":
            cols = [c - n if rng.random() < 0.4 else c for c in cols + cols[:2]]
            rng.shuffle(cols)
        elif style == "empty":
            cols = []
        elif style == "targets":
            t = [p for p in _gap_targets(rows) if p < n]
            cols = sorted(rng.sample(t, min(len(t), rng.randint(1, 5))))
        elif style == "all":
            cols = list(range(n))
        return ["take_positions", cols, neg]
    if kind == "omit_gap_pos":
        if not nr:
            return None
        ml = 3 if rng.random() < 0.3 else 1
        denom = nr * ml
        r = rng.random()
        if r < 0.35 and n >= ml:
            # exactly the gap fraction of an existing (motif-)column: the <= boundary
            j = rng.randrange(n // ml)
            k = sum(s[j * ml : (j + 1) * ml].count("-") for s in rows.values())
            frac = k / denom
        elif r < 0.65:
            frac = rng.randint(0, denom) / denom
        elif r < 0.85:
            frac = rng.choice([0, 0.125, 0.25, 0.375, 0.5, 0.625, 0.75, 0.875, 1.0])
        else:
            frac = None
        return ["omit_gap_pos", frac, ml]
    if kind == "no_degenerates":
        return ["no_degenerates", rng.random() < 0.4, 3 if rng.random() < 0.5 else 1]
    if kind == "filtered":
        ml = rng.choice([1, 3, 3, 3, 2])
        return ["filtered", rng.choice(["nogap", "first-nongap", "variable", "hash", "hash", "all", "none"]), ml, rng.random() < 0.6]
    if kind == "motif":
        return _gen_op(rng, rng.choice(["filtered", "filtered", "no_degenerates", "omit_gap_pos"]), mt, rows, wild)
    if kind == "degapped_relative_to":
        special = [nm for nm, s in rows.items() if s[:1] == "-" or s[-1:] == "-"]
        return ["degapped_relative_to", rng.choice(special if special and rng.random() < 0.75 else names)]
    if kind == "sample":
        ml = 3 if (n >= 3 and rng.random() < 0.5) else 1
        pop = n // ml
        if not pop:
            return None
        if rng.random() < 0.5:
            perm = list(range(pop))
            rng.shuffle(perm)
            return ["sample_perm", perm, rng.choice([0, pop, rng.randint(1, pop)]), ml]
        idx = [rng.choice([0, pop - 1, rng.randrange(pop)]) for _ in range(rng.randint(1, 6))]
        return ["sample_idx", idx, ml]
    if kind == "take_seqs":
        # a selection in an order that is not the current one
        sel = rng.sample(names, rng.randint(1, nr))
        if len(sel) > 1 and sel == [x for x in names if x in sel]:
            sel.reverse()
        neg = rng.random() < 0.2 and len(sel) < nr
        return ["take_seqs", sel, neg]
    if kind == "copy":
        # copies / serialisation round trips in the middle of a chain: deepcopy, copy, to_rich_dict -> deserialise_object,
        # to_json -> deserialise_object (a sliced then rc'd row must survive them unchanged)
        return ["copy", rng.choice(["deepcopy", "deepcopy", "copy", "rich_dict", "json", "json"])]
    if kind == "add_perm":
        # `+` with the right operand's rows in another order (pairing must be by NAME), optionally transformed
        order = list(names)
        if len(order) > 1:
            while order == names:
                rng.shuffle(order)
        how = rng.choice(["perm", "perm", "perm-rc", "perm-slice"]) if mt in ("dna", "rna") else rng.choice(["perm", "perm-slice"])
        return ["add", how, order]
    if kind == "degap_amb":
        # reference rows holding '?', N, R ... : only the gap character marks a dropped column
        amb = [nm for nm, v in rows.items() if any(c in v for c in "?NRYXB")]
        return ["degapped_relative_to", rng.choice(amb if amb else names)]
    if kind == "to_xna":
        return ["to_rna"] if mt == "dna" else ["to_dna"] if mt == "rna" else None
    if kind == "add_seqs":
        # rows of another alignment (new names, same length, a gap layout of their own) inserted before / after a
        # named row or appended
        fresh = [f"x{i}" for i in range(len(names) + 3) if f"x{i}" not in rows]
        other = {nm: _rand_row(rng, n, mt, rng.choice([0.0, 0.25, 0.5])) for nm in fresh[: rng.randint(1, 2)]}
        where = rng.choice(["end", "before", "after"])
        return ["add_seqs", other, where, rng.choice(names)]
    if kind == "to_type:T":
        return ["to_type", True]
    if kind == "to_type:F":
        return ["to_type", False]
    if kind == "*":
        return _rand_op(rng, mt, rows, wild)
    raise ValueError(kind)


PLANS = [
    ("copy-chain", ["slice", "copy", "rc", "copy", "?slice", "?copy"]),
    ("copy-chain", ["?take_seqs", "slice", "copy", "rc", "copy", "rc", "?copy", "?*"]),
    ("copy-chain", ["rc", "copy", "slice", "copy", "?*"]),
    ("add-perm", ["?slice", "?rc", "add_perm", "?*"]),
    ("add-perm", ["take_seqs", "add_perm", "?copy"]),
    ("degap-amb", ["?slice", "?rc", "degap_amb", "?*"]),
    ("slice-rc-slice", ["slice", "rc", "slice", "?*"]),
    ("slice-rc-slice", ["?take_positions", "slice", "rc", "slice", "?rc", "?slice"]),
    ("take_positions", ["?slice", "?rc", "take_positions", "?*"]),
    ("omit_gap_pos", ["?slice", "omit_gap_pos", "?*"]),
    ("omit_gap_pos", ["?rc", "omit_gap_pos", "?omit_gap_pos"]),
    ("motif", ["?slice", "?rc", "motif", "?*"]),
    ("motif", ["motif", "?motif"]),
    ("motif", ["?slice", "filtered", "?*"]),
    ("degapped", ["?slice", "?rc", "degapped_relative_to", "?*"]),
    ("sample", ["?slice", "?rc", "sample", "?*"]),
    ("to_type", ["slice", "?rc", "to_type:T", "*", "to_type:F", "*"]),
    ("to_type", ["?slice", "rc", "to_type:F", "*", "to_type:T", "*"]),
    ("to_type", ["take_seqs", "?slice", "to_type:T", "?*", "to_type:F", "?*"]),
    ("to_xna", ["?slice", "?rc", "to_xna", "?rc", "?*", "?to_xna", "?*"]),
    ("add_seqs", ["?slice", "?rc", "add_seqs", "?*"]),
]


def _build_history(rng, mt, rows, plan, only=None):
    """ops following the plan, each drawn against the evolving string state; returns (ops, final rows or None)"""
    ops, cur_mt, cur = [], mt, dict(rows)
    for kind in plan:
        if kind.startswith("?"):
            if rng.random() < 0.5:
                continue
            kind = kind[1:]
        if not cur:
            break
        op = _gen_op(rng, kind, cur_mt, cur, wild=rng.random() < 0.5)
        if op is None or (only and op[0] not in only):
            continue
        ops.append(op)
        try:
            cur_mt, cur = _spec_apply(cur_mt, cur, op)
        except (IndexError, ValueError, SpecNone):
            return ops, None
    return ops, cur


def _rand_op(rng, mt, rows, wild=True):
    names = list(rows)
    n = len(next(iter(rows.values()))) if rows else 0
    if rng.random() < 0.3:
        # the parameterised generators: gap-boundary slices, take_positions styles, exact gap fractions, motif-wise
        # filters, samples with motif_length, class conversion
        op = _gen_op(rng, rng.choice(["slice", "slice", "take_positions", "take_positions", "omit_gap_pos", "motif", "filtered",
                                      "degapped_relative_to", "degap_amb", "sample", "to_type:T", "to_type:F", "rc",
                                      "copy", "copy", "add_perm", "to_xna", "to_xna", "add_seqs"]), mt, rows, wild)
        if op is not None:
            return op
    r = rng.random()
    if r < 0.22:
        return ["slice", _rand_bound(rng, n, wild), _rand_bound(rng, n, wild)]
    if r < 0.27:
        return ["int", rng.randint(0, max(n - 1, 0)) if (rng.random() < 0.7 or not wild) else rng.randint(-n - 1, n + 1)]
    if r < 0.40 and mt in ("dna", "rna"):
        return ["rc"]
    if r < 0.52:
        k = rng.randint(0, min(n, 6))
        cols = [rng.randint(0, max(n - 1, 0)) for _ in range(k)] if n else []
        if wild and n and rng.random() < 0.1:
            cols.append(rng.choice([-1, -n, n, n + 1]))
        return ["take_positions", cols, rng.random() < 0.3]
    if r < 0.60:
        k = rng.randint(1, len(names))
        sel = rng.sample(names, k)
        neg = rng.random() < 0.3 and k < len(names)
        return ["take_seqs", sel, neg]
    if r < 0.66:
        return ["no_degenerates", rng.random() < 0.3]
    if r < 0.73:
        return ["omit_gap_pos", rng.choice([None, None, 0, 0.25, 0.5, 0.75])]
    if r < 0.79:
        return ["degapped_relative_to", rng.choice(names)]
    if r < 0.84:
        if rng.random() < 0.5:
            perm = list(range(n))
            rng.shuffle(perm)
            return ["sample_perm", perm, rng.randint(0, n)]
        return ["sample_idx", [rng.randint(0, max(n - 1, 0)) for _ in range(rng.randint(1, 6))] if n else []]
    if r < 0.90:
        return ["add", rng.choice(["self", "copy"])]
    if r < 0.96:
        return ["to_type", rng.random() < 0.5]
    if mt == "dna":
        return ["to_rna"]
    if mt == "rna":
        return ["to_dna"]
    return ["to_type", rng.random() < 0.5]


# --------------------------------------------------------------------------
# the spec: the same op on plain strings
# --------------------------------------------------------------------------
class SpecNone(Exception):
    """the op has no result (filtered() returning None / empty selection)"""


def _spec_apply(mt, rows, op):
    """returns (moltype, rows); raises IndexError/ValueError/SpecNone like the string operation would"""
    k = op[0]
    names = list(rows)
    n = len(rows[names[0]]) if names else 0
    if k == "slice":
        return mt, {nm: s[op[1] : op[2]] for nm, s in rows.items()}
    if k == "int":
        return mt, {nm: s[op[1]] for nm, s in rows.items()}
    if k == "rc":
        tab = DNA_COMP if mt == "dna" else RNA_COMP
        return mt, {nm: s[::-1].translate(tab) for nm, s in rows.items()}
    if k == "take_positions":
        cols, neg = op[1], op[2]
        if neg:
            drop = set(cols)
            return mt, {nm: "".join(c for i, c in enumerate(s) if i not in drop) for nm, s in rows.items()}
        return mt, {nm: "".join(s[i] for i in cols) for nm, s in rows.items()}
    if k == "take_seqs":
        sel, neg = op[1], op[2]
        keep = [nm for nm in names if nm not in sel] if neg else list(sel)
        return mt, {nm: rows[nm] for nm in keep}
    if k in ("no_degenerates", "omit_gap_pos", "filtered"):
        # motif-wise filtering: a motif = ml consecutive columns; the predicate sees the tuple of per-row motifs;
        # the remainder columns are dropped (or refused when drop_remainder=False)
        if k == "no_degenerates":
            ml = op[2] if len(op) > 2 else 1
            ok = set(CANON[mt]) | ({"-"} if op[1] else set())
            pred = lambda ms: all(c in ok for m in ms for c in m)
        elif k == "omit_gap_pos":
            ml = op[2] if len(op) > 2 else 1
            # the code's own float comparison: (gap characters in the motif column) / (rows * ml) <= allowed, default
            # allowed 1 - 1e-6; the generator only draws allowed values for which the float result is unambiguous
            frac = 1 - 1e-6 if op[1] is None else op[1]
            denom = len(names) * ml
            pred = lambda ms: sum(c in "-?" for m in ms for c in m) / denom <= frac
        else:
            ml = op[2]
            pred = PREDS[op[1]]
            if n % ml and not op[3]:
                raise ValueError("not divisible")
        nm_ = n // ml
        keep = [j for j in range(nm_) if pred(tuple(rows[x][j * ml : (j + 1) * ml] for x in names))]
        if not keep:
            raise SpecNone()
        return mt, {x: "".join(s[j * ml : (j + 1) * ml] for j in keep) for x, s in rows.items()}
    if k == "degapped_relative_to":
        keep = [i for i in range(n) if rows[op[1]][i] != "-"]
        return mt, {nm: "".join(s[i] for i in keep) for nm, s in rows.items()}
    if k == "sample_perm":
        ml = op[3] if len(op) > 3 else 1
        locs = op[1][: op[2]] if op[2] else op[1]
        return mt, {nm: "".join(s[i * ml : (i + 1) * ml] for i in locs) for nm, s in rows.items()}
    if k == "sample_idx":
        ml = op[2] if len(op) > 2 else 1
        return mt, {nm: "".join(s[i * ml : (i + 1) * ml] for i in op[1]) for nm, s in rows.items()}
    if k == "add":
        if op[1] in ("self", "copy", "perm"):
            return mt, {nm: s + s for nm, s in rows.items()}
        if op[1] == "perm-rc":
            tab = DNA_COMP if mt == "dna" else RNA_COMP
            return mt, {nm: s + s[::-1].translate(tab) for nm, s in rows.items()}
        if op[1] == "perm-slice":
            return mt, {nm: s + s[1:] for nm, s in rows.items()}
        raise ValueError(op[1])
    if k == "add_seqs":
        other, where, name = op[1], op[2], op[3]
        if set(other) & set(rows):
            raise ValueError("duplicate names")
        if where == "end":
            return mt, {**rows, **other}
        res = {}
        for nm, v in rows.items():
            if where == "before" and nm == name:
                res.update(other)
            res[nm] = v
            if where == "after" and nm == name:
                res.update(other)
        return mt, res
    if k == "copy":
        return mt, dict(rows)
    if k == "to_type":
        return mt, dict(rows)
    if k == "to_rna":
        return "rna", {nm: s.replace("T", "U") for nm, s in rows.items()}
    if k == "to_dna":
        return "dna", {nm: s.replace("U", "T") for nm, s in rows.items()}
    raise ValueError(k)


def _mk(rows, mt, arr):
    import cogent3

    return cogent3.make_aligned_seqs(dict(rows), array_align=arr, moltype=mt)


def _real_apply(aln, op, mt):
    k = op[0]
    if k == "slice":
        return aln[op[1] : op[2]]
    if k == "int":
        return aln[op[1]]
    if k == "rc":
        return aln.rc()
    if k == "take_positions":
        return aln.take_positions(op[1], negate=op[2])
    if k == "take_seqs":
        return aln.take_seqs(op[1], negate=op[2])
    if k == "no_degenerates":
        if len(op) > 2 and op[2] != 1:
            return aln.no_degenerates(allow_gap=op[1], motif_length=op[2])
        return aln.no_degenerates(allow_gap=op[1])
    if k == "omit_gap_pos":
        kw = {} if op[1] is None else dict(allowed_gap_frac=op[1])
        if len(op) > 2 and op[2] != 1:
            kw["motif_length"] = op[2]
        return aln.omit_gap_pos(**kw)
    if k == "filtered":
        from cogent3.core.alignment import ArrayAlignment

        pred = PREDS[op[1]]
        if isinstance(aln, ArrayAlignment):
            # the dense class hands the predicate an integer matrix (rows x motif_length)
            alpha = aln.alphabet
            f = lambda data: pred(tuple("".join(alpha.from_indices(r)) for r in data))
        else:
            f = lambda col: pred(tuple(str(x) for x in col))
        return aln.filtered(f, motif_length=op[2], drop_remainder=op[3])
    if k == "degapped_relative_to":
        return aln.get_degapped_relative_to(op[1])
    if k == "sample_perm":
        import numpy

        perm, n = op[1], op[2]
        ml = op[3] if len(op) > 3 else 1
        return aln.sample(n=n, with_replacement=False, motif_length=ml, permutation=lambda size: numpy.array(perm, dtype=int))
    if k == "sample_idx":
        import numpy

        idx = op[1]
        ml = op[2] if len(op) > 2 else 1
        return aln.sample(n=len(idx), with_replacement=True, motif_length=ml, randint=lambda lo, hi, size: numpy.array(idx, dtype=int))
    if k == "copy":
        from cogent3.util.deserialise import deserialise_object

        if op[1] == "deepcopy":
            return aln.deepcopy()
        if op[1] == "copy":
            return aln.copy()
        if op[1] == "rich_dict":
            return deserialise_object(aln.to_rich_dict())
        return deserialise_object(aln.to_json())
    if k == "add_seqs":
        from cogent3.core.alignment import ArrayAlignment

        other = _mk(op[1], aln.moltype.label, isinstance(aln, ArrayAlignment))
        kw = {} if op[2] == "end" else {f"{op[2]}_name": op[3]}
        return aln.add_seqs(other, **kw)
    if k == "add" and op[1].startswith("perm"):
        right = aln.take_seqs(list(op[2]))
        if op[1] == "perm-rc":
            right = right.rc()
        elif op[1] == "perm-slice":
            right = right[1:]
        return aln + right
    if k == "add":
        if op[1] == "self":
            return aln + aln
        from cogent3.core.alignment import ArrayAlignment

        other = _mk(aln.to_dict(), aln.moltype.label, isinstance(aln, ArrayAlignment))
        return aln + other
    if k == "to_type":
        return aln.to_type(array_align=op[1])
    if k == "to_rna":
        return aln.to_rna()
    if k == "to_dna":
        return aln.to_dna()
    raise ValueError(k)


def _op_detail(op, rows):
    """narrow class of an op relative to the alignment it is applied to (for signatures)"""
    names = list(rows)
    n = len(rows[names[0]]) if names else 0
    k = op[0]
    if k == "slice":
        a, b = op[1], op[2]
        if (a is not None and a < -n) or (b is not None and b < -n):
            return "neg-oob"
        if (b is not None and b > n) or (a is not None and a > n):
            return "beyond-len"
        if (a is not None and a < 0) or (b is not None and b < 0):
            return "negative"
        if b == 0 and b is not None:
            return "stop-zero"
        return "in-range"
    if k == "int":
        i = op[1]
        return "negative" if i < 0 else ("oob" if i >= n else "in-range")
    if k == "take_positions":
        cols = op[1]
        if op[2]:
            return "negate" + (":neg-or-oob-col" if any(c < 0 or c >= n for c in cols) else "")
        if any(c >= n or c < -n for c in cols):
            return "oob-col"
        if any(c < 0 for c in cols):
            return "neg-col"
        if not cols:
            return "empty"
        if len(set(cols)) < len(cols):
            return "repeated"
        if cols != sorted(cols):
            return "unsorted"
        return "plain"
    if k == "add":
        return op[1]
    if k == "add_seqs":
        return op[2]
    if k == "copy":
        return op[1] + (":zero-columns" if n == 0 else "")
    if k == "sample_perm" or k == "sample_idx":
        ml = (op[3] if len(op) > 3 else 1) if k == "sample_perm" else (op[2] if len(op) > 2 else 1)
        d = "n=0" if (k == "sample_perm" and op[2] == 0) or (k == "sample_idx" and not op[1]) else "given"
        return d if ml == 1 else f"{d}:ml{ml}:{'rem' if n % ml else 'div'}"
    if k == "filtered":
        return f"{op[1]}:ml{op[2]}:{'rem' if n % op[2] else 'div'}:{'drop' if op[3] else 'keep'}"
    if k == "no_degenerates":
        ml = op[2] if len(op) > 2 else 1
        return "" if ml == 1 else f"ml{ml}:{'rem' if n % ml else 'div'}"
    if k == "omit_gap_pos":
        ml = op[2] if len(op) > 2 else 1
        if op[1] is None:
            d = "default"
        else:
            # does some (motif-)column sit exactly on the threshold?
            denom = len(names) * ml
            exact = any(sum(c in "-?" for x in names for c in rows[x][j * ml : (j + 1) * ml]) / denom == op[1] for j in range(n // ml))
            d = "frac-exact" if exact else "frac"
        return d if ml == 1 else f"{d}:ml{ml}:{'rem' if n % ml else 'div'}"
    if k == "degapped_relative_to":
        ref = rows.get(op[1], "")
        if any(c in ref for c in "?NRYXB"):
            return "ref-ambiguity" + ("+?" if "?" in ref else "")
        if ref and not ref.replace("-", ""):
            return "ref-all-gap"
        c = [x for x, f in (("lead", ref[:1] == "-"), ("trail", ref[-1:] == "-")) if f]
        return "ref-" + "+".join(c) if c else "ref-other"
    return ""


def _tainted(done):
    """did an earlier op slice beyond the end (the state then carries a too-long map)?"""
    return any(d[0] == "slice" and d[-1] == "beyond-len" for d in done)


READ_ONLY = [
    ("names", lambda a: list(a.names)),
    ("len", lambda a: len(a)),
    ("num_seqs", lambda a: a.num_seqs),
    ("to_fasta", lambda a: a.to_fasta()),
    ("to_phylip", lambda a: a.to_phylip()),
    ("is_ragged", lambda a: a.is_ragged()),
    ("get_lengths", lambda a: sorted(dict(a.get_lengths()).items())),
    ("degap", lambda a: a.degap().to_dict()),
    ("count_gaps_per_pos", lambda a: [int(x) for x in a.count_gaps_per_pos().array]),
    ("count_gaps_per_seq", lambda a: [int(x) for x in a.count_gaps_per_seq().array]),
    ("variable_positions", lambda a: [int(x) for x in a.variable_positions()]),
    ("majority_consensus", lambda a: str(a.majority_consensus())),
    ("iupac_consensus", lambda a: str(a.iupac_consensus())),
    ("get_gap_array", lambda a: a.get_gap_array().astype(int).tolist()),
    ("counts_per_pos", lambda a: a.counts_per_pos().array.astype(int).tolist()),
    ("get_gapped_seq", lambda a: [str(a.get_gapped_seq(n)) for n in a.names]),
    ("get_seq", lambda a: [str(a.get_seq(n)) for n in a.names]),
    ("iter_positions", lambda a: ["".join(map(str, p)) for p in a.iter_positions()]),
    ("str", lambda a: str(a)),
    ("counts", lambda a: sorted(dict(a.counts()).items())),
    ("get_ambiguous_positions", lambda a: sorted((k, sorted(v.items())) for k, v in a.get_ambiguous_positions().items())),
    ("counts_per_seq", lambda a: _tab(a.counts_per_seq())),
    ("counts_per_seq:gap", lambda a: _tab(a.counts_per_seq(include_ambiguity=True, allow_gap=True))),
    ("counts_per_pos:ml2", lambda a: _tab(a.counts_per_pos(motif_length=2, include_ambiguity=True, allow_gap=True))),
    ("probs_per_pos", lambda a: _tab(a.probs_per_pos(), 9)),
    ("entropy_per_pos", lambda a: [None if x != x else round(float(x), 9) for x in a.entropy_per_pos()]),
    ("to_pretty", lambda a: a.to_pretty()),
    ("to_nexus", lambda a: a.to_nexus("protein" if a.moltype.label == "protein" else a.moltype.label)),
    ("get_identical_sets", lambda a: sorted(sorted(x) for x in a.get_identical_sets())),
    ("repr", lambda a: repr(a)),
    ("count_gaps_per_seq:noamb", lambda a: [int(x) for x in a.count_gaps_per_seq(include_ambiguity=False).array]),
    ("get_gap_array:noamb", lambda a: a.get_gap_array(include_ambiguity=False).astype(int).tolist()),
    ("iter_seqs", lambda a: [str(x) for x in a.iter_seqs()]),
    ("get_translation", lambda a: a.get_translation(incomplete_ok=True).to_dict()),
    ("has_terminal_stop", lambda a: a.has_terminal_stop()),
    ("to_dna", lambda a: a.to_dna().to_dict()),
    ("to_rna", lambda a: a.to_rna().to_dict()),
    ("get_motif_probs", lambda a: sorted((k, round(float(v), 9)) for k, v in a.get_motif_probs().items())),
]


def _tab(t, nd=None):
    """a DictArray-like result as (column labels, rows)"""
    if t is None:
        return None
    arr = t.array.tolist()
    if nd is not None:
        arr = [[None if x != x else round(float(x), nd) for x in r] for r in arr]
    return [list(map(str, t.motifs)) if hasattr(t, "motifs") else None, arr]


def _call(f, a):
    try:
        return ("ok", f(a))
    except Exception as e:
        return ("exc", type(e).__name__)


def _run_history(out, rng, mt0, rows0, ops, arr, check_methods=True):
    """run ops on the real class and on the strings; report the first divergence. returns number of ops that agreed"""
    cls = "ArrayAlignment" if arr else "Alignment"
    inp = dict(cls=cls, moltype=mt0, rows=rows0, ops=[])
    try:
        aln = _mk(rows0, mt0, arr)
    except Exception as e:
        add_failure(out, "spec", "constructor raised", inp, rows0, repr(e), sig=f"{cls}:construct")
        return 0
    mt, rows = mt0, dict(rows0)
    done = []
    for op in ops:
        detail = _op_detail(op, rows)
        done.append((op[0], detail))
        inp = dict(cls=cls, moltype=mt0, rows=rows0, ops=ops[: len(done)])
        out["evaluations"] += 1
        want_exc = None
        try:
            nmt, nrows = _spec_apply(mt, rows, op)
        except IndexError:
            want_exc = "IndexError"
        except ValueError:
            want_exc = "ValueError"
        except SpecNone:
            want_exc = "None"
        got_exc = None
        if op[0] == "copy":
            # oracle for copies / serialisation round trips: what a FRESH object built from the current rows does with the
            # same call (same exception class => agree); the rows must be unchanged whenever the fresh copy succeeds
            try:
                _real_apply(_mk(rows, mt, type(aln).__name__ == "ArrayAlignment"), op, mt)
            except Exception as e:
                want_exc = type(e).__name__
        try:
            res = _real_apply(aln, op, mt)
            if res is None:
                got_exc = "None"
            elif isinstance(res, dict) and not res:
                got_exc = "None"
        except IndexError:
            got_exc = "IndexError"
        except Exception as e:
            got_exc = type(e).__name__
        taint = ":after-slice-beyond-len" if _tainted(done[:-1]) else ""
        if op[0] in ("slice", "int") and any(d[0] == "rc" for d in done[:-1]):
            taint += ":after-rc"
        if any(d[0] == "to_type" for d in done[:-1]):
            taint += ":after-to_type"
        cur_cls = type(aln).__name__
        sig = f"{cur_cls}:{op[0]}:{detail}{taint}"
        if want_exc or got_exc:
            if want_exc == got_exc:
                bump(out, "op_refused_alike", f"{op[0]}:{detail}:{want_exc}")
            if want_exc != got_exc:
                if op[0] == "slice" and detail == "neg-oob" and got_exc == "IndexError":
                    bump(out, "accepted_refusal", sig)
                    return len(done) - 1
                add_failure(out, "spec", f"{op[0]} raises/returns differently from the string operation", inp, want_exc or "rows", got_exc or "rows", sig=sig + ":exc")
            return len(done) - 1
        try:
            got = res.to_dict()
            got_names = list(res.names)
            got_len = len(res)
        except Exception as e:
            add_failure(out, "spec", f"result of {op[0]} cannot be read", inp, nrows, repr(e), sig=sig + ":unreadable")
            return len(done) - 1
        want_len = len(next(iter(nrows.values()))) if nrows else 0
        if got != nrows or got_names != list(nrows):
            add_failure(out, "spec", f"rows after {op[0]} differ from the same operation on the gapped strings", inp, nrows, got, sig=sig)
            return len(done) - 1
        if got_len != want_len:
            # recorded, but the history goes on: what a too-long map does to later ops is a separate signature
            add_failure(out, "spec", f"len(alignment) after {op[0]} differs from the row length", inp, want_len, got_len, sig=sig + ":len")
        if len({len(v) for v in got.values()}) > 1:
            add_failure(out, "spec", f"rows of unequal length after {op[0]}", inp, nrows, got, sig=sig + ":ragged")
            return len(done) - 1
        aln, mt, rows = res, nmt, nrows
        bump(out, "op", op[0])
        bump(out, "op_detail", f"{op[0]}:{detail}")
    # read-only methods answer as on a fresh object built from the rows
    if check_methods and rows and rng.random() < 0.5:
        from cogent3.core.alignment import ArrayAlignment

        is_arr = isinstance(aln, ArrayAlignment)
        fresh = _mk(rows, mt, is_arr)
        for name, f in rng.sample(READ_ONLY, 9):
            a, b = _call(f, aln), _call(f, fresh)
            bump(out, "methods", name)
            if a != b:
                taint = ":after-slice-beyond-len" if _tainted(done) else ""
                add_failure(out, "spec", f"read-only method {name} differs from a fresh alignment built from the rows",
                            dict(cls=cls, moltype=mt0, rows=rows0, ops=ops, method=name), b, a,
                            sig=f"{'ArrayAlignment' if is_arr else 'Alignment'}:method:{name}{taint}")
    # sliding_windows of the result: the windows of the rows
    if rows and _ncols(rows) and rng.random() < 0.3:
        w, st, a, b = _rand_window_args(rng, _ncols(rows))
        out["evaluations"] += 1
        want = _windows_oracle(rows, w, st, a, b)
        try:
            got = [x.to_dict() for x in aln.sliding_windows(w, st, start=a, end=b)]
        except Exception as e:
            got = {"err": type(e).__name__}
        bump(out, "methods", "sliding_windows")
        if got != want:
            add_failure(out, "spec", "sliding_windows of the result are not the windows of the rows",
                        dict(cls=cls, moltype=mt0, rows=rows0, ops=ops, windows=[w, st, a, b]), want, got,
                        sig=f"{type(aln).__name__}:sliding_windows" + (":after-slice-beyond-len" if _tainted(done) else ""))
    return len(done)


# --------------------------------------------------------------------------
# spec-level differential (also the failing-input search)
# --------------------------------------------------------------------------
def _collection_add(out, mt, seqs, order):
    """SequenceCollection `+` with the right operand's sequences in another order: per-name concatenation"""
    import cogent3

    out["evaluations"] += 1
    inp = dict(cls="SequenceCollection", moltype=mt, rows=seqs, ops=[["add", "perm", order]])
    want = {k: v + v for k, v in seqs.items()}
    try:
        c = cogent3.make_unaligned_seqs(dict(seqs), moltype=mt)
        got = (c + c.take_seqs(order)).to_dict()
    except Exception as e:
        add_failure(out, "spec", "SequenceCollection + raised", inp, want, type(e).__name__, sig="SequenceCollection:add:perm:exc")
        return
    if got != want:
        add_failure(out, "spec", "SequenceCollection + does not concatenate the sequences of the same name", inp, want, got,
                    sig="SequenceCollection:add:perm")
    else:
        bump(out, "op_detail", "SequenceCollection:add:perm")


def _plain_seq_op(mt, text, op):
    """a sequence operation on the plain displayed string: slice with stride (complemented when the stride is
    negative on a nucleic acid) or reverse complement"""
    tab = DNA_COMP if mt == "dna" else RNA_COMP if mt == "rna" else None
    if op[0] == "rc":
        return text[::-1].translate(tab)
    r = text[op[1] : op[2] : op[3]]
    return r.translate(tab) if (op[3] or 1) < 0 and tab else r


def _rand_seq_history(rng, mt, n):
    ops = []
    for _ in range(rng.choice([0, 1, 1, 2])):
        r = rng.random()
        if r < 0.35 and mt != "protein":
            ops.append(["rc"])
        else:
            step = rng.choice([None, None, 1, 2, 3, -1, -1, -2])
            ops.append(["s", rng.choice([None, 0, 1, 2, -3]), rng.choice([None, n, n - 1, -1]), step])
    return ops


def _mk_seq_obj(kind, mt, text, name):
    if kind == "old":
        import cogent3

        return cogent3.make_seq(text, name=name, moltype=mt)
    from cogent3.core import new_moltype

    return new_moltype.get_moltype(mt).make_seq(seq=text, name=name)


def _apply_seq_history(seq, ops):
    for op in ops:
        seq = seq.rc() if op[0] == "rc" else seq[slice(op[1], op[2], op[3])]
    return seq


def _is_rev(ops):
    rev = False
    for op in ops:
        if op[0] == "rc" or (op[3] or 1) < 0:
            rev = not rev
    return rev


def _spec_seq_add(out, rng, count):
    """`+` of sequences and of plain SequenceCollections whose operands carry histories of their own (rc'd, sliced,
    strided, rc of a slice) on EITHER side: the result is the per-name concatenation of the DISPLAYED strings"""
    import cogent3

    cases = []
    # deterministic: every pair of single-op histories on a fixed pair of sequences
    single = [[], [["rc"]], [["s", 1, None, None]], [["s", None, None, -1]], [["s", None, None, 2]], [["s", 1, 6, None], ["rc"]],
              [["rc"], ["s", 1, None, None]], [["s", None, None, -2]]]
    for hl in single:
        for hr in single:
            cases.append(("dna", {"a": ("ACGGTTRA", hl, hr), "b": ("TTYACGCA", hl, hr)}))
    for _ in range(count):
        mt = rng.choice(["dna", "dna", "rna", "protein"])
        rows = {}
        for i in range(rng.randint(1, 3)):
            n = rng.randint(1, 12)
            text = "".join(rng.choice(CANON[mt] + (DEGEN[mt][:3] if rng.random() < 0.3 else "")) for _ in range(n))
            rows[f"s{i}"] = (text, _rand_seq_history(rng, mt, n), _rand_seq_history(rng, mt, n))
        cases.append((mt, rows))
    for mt, rows in cases:
        want = {}
        for nm, (text, hl, hr) in rows.items():
            l = r = text
            for op in hl:
                l = _plain_seq_op(mt, l, op)
            for op in hr:
                r = _plain_seq_op(mt, r, op)
            want[nm] = l + r
        revs = {(("rev" if _is_rev(hl) else "fwd"), ("rev" if _is_rev(hr) else "fwd")) for _, hl, hr in rows.values()}
        cls = "+".join(sorted(f"left-{a}:right-{b}" for a, b in revs))
        inp = dict(moltype=mt, seqs={nm: dict(text=t, left=hl, right=hr) for nm, (t, hl, hr) in rows.items()})
        # Sequence + Sequence, old and new style
        for kind in ("old", "new"):
            for nm, (text, hl, hr) in rows.items():
                out["evaluations"] += 1
                try:
                    got = str(_apply_seq_history(_mk_seq_obj(kind, mt, text, nm), hl) + _apply_seq_history(_mk_seq_obj(kind, mt, text, nm), hr))
                except Exception as e:
                    got = {"err": type(e).__name__}
                a, b = ("rev" if _is_rev(hl) else "fwd"), ("rev" if _is_rev(hr) else "fwd")
                if got != want[nm]:
                    add_failure(out, "spec", "Sequence + Sequence is not the concatenation of the displayed strings",
                                dict(inp, impl=kind, name=nm), want[nm], got, sig=f"Sequence:{kind}:add:left-{a}:right-{b}")
                else:
                    bump(out, "op_detail", f"Sequence:{kind}:add:left-{a}:right-{b}")
        # SequenceCollection + SequenceCollection built from those sequence objects (their views travel with them)
        out["evaluations"] += 1
        try:
            left = cogent3.make_unaligned_seqs({nm: _apply_seq_history(_mk_seq_obj("old", mt, t, nm), hl) for nm, (t, hl, hr) in rows.items()}, moltype=mt)
            right = cogent3.make_unaligned_seqs({nm: _apply_seq_history(_mk_seq_obj("old", mt, t, nm), hr) for nm, (t, hl, hr) in rows.items()}, moltype=mt)
            got = (left + right).to_dict()
        except Exception as e:
            got = {"err": type(e).__name__}
        if got != want:
            add_failure(out, "spec", "SequenceCollection + does not concatenate the displayed sequences of the same name",
                        inp, want, got, sig=f"SequenceCollection:add:{cls}")
        else:
            bump(out, "op_detail", f"SequenceCollection:add:{cls}")
        # collection-level rc on either side
        if mt != "protein":
            base = {nm: t for nm, (t, _, _) in rows.items()}
            tab = DNA_COMP if mt == "dna" else RNA_COMP
            rcs = {nm: t[::-1].translate(tab) for nm, t in base.items()}
            for lrev, rrev in ((False, True), (True, False), (True, True)):
                out["evaluations"] += 1
                try:
                    c = cogent3.make_unaligned_seqs(dict(base), moltype=mt)
                    got = ((c.rc() if lrev else c) + (c.rc() if rrev else c)).to_dict()
                except Exception as e:
                    got = {"err": type(e).__name__}
                w = {nm: (rcs[nm] if lrev else base[nm]) + (rcs[nm] if rrev else base[nm]) for nm in base}
                sig = f"SequenceCollection:add:coll-rc:left-{'rev' if lrev else 'fwd'}:right-{'rev' if rrev else 'fwd'}"
                if got != w:
                    add_failure(out, "spec", "coll + coll.rc() is not the per-name concatenation with the reverse complement",
                                dict(moltype=mt, seqs=base, left_rc=lrev, right_rc=rrev), w, got, sig=sig)
                else:
                    bump(out, "op_detail", sig)


_B = "TCAG"
_AA = "FFLLSSSSYY**CC*WLLLLPPPPHHQQRRRRIIIMTTTTNNKKSSRRVVVVAAAADDEEGGGG"
STD_CODE = {a + b + c: _AA[16 * i + 4 * j + k] for i, a in enumerate(_B) for j, b in enumerate(_B) for k, c in enumerate(_B)}


def _codons(v):
    v = v.replace("U", "T")
    return [v[i : i + 3] for i in range(0, len(v) - len(v) % 3, 3)]


def _translatable(mt, cur):
    """every sequence is canonical, a whole number (>= 1 after trimming) of codons, with no stop before the last codon:
    the case in which 'translate' means one thing"""
    if mt not in ("dna", "rna") or not cur:
        return False
    for v in cur.values():
        cs = _codons(v)
        if len(v) % 3 or not cs or any(c not in CANON[mt] for c in v) or any(STD_CODE[c] == "*" for c in cs[:-1]):
            return False
        if len(cs) == 1 and STD_CODE[cs[0]] == "*":
            return False
    return True


def _renamer(kind, names):
    """renaming functions: all names changed (suffix / prefix / upper on lower-case names), only some, or none"""
    first = names[0] if names else None
    return {"suffix": lambda n: n + "_", "prefix": lambda n: "q" + n, "upper": lambda n: n.upper(),
            "first-only": lambda n: n + "x" if n == first else n, "identity": lambda n: n}[kind]


def _seq_pred(kind, arg):
    """predicates for take_seqs_if; they look at the DISPLAYED sequence"""
    return {"len>": lambda s: len(s) > arg, "count-even": lambda s: str(s).count(arg) % 2 == 0,
            "starts": lambda s: str(s)[:1] == arg}[kind]


def _coll_spec(mt, cur, op):
    """one collection operation on the (name, string) rows"""
    k = op[0]
    if k == "take_seqs":
        sel = [op[1]] if isinstance(op[1], str) else op[1]
        return mt, {n: cur[n] for n in ([n for n in cur if n not in sel] if op[2] else sel)}
    if k == "take_seqs_if":
        f = _seq_pred(op[1], op[2])
        res = {n: v for n, v in cur.items() if bool(f(v)) != op[3]}
        if not res:
            raise SpecNone()
        return mt, res
    if k == "rename_seqs":
        f = _renamer(op[1], op[2])
        return mt, {f(n): v for n, v in cur.items()}
    if k == "rc":
        tab = DNA_COMP if mt == "dna" else RNA_COMP
        return mt, {n: v[::-1].translate(tab) for n, v in cur.items()}
    if k in ("to_rna", "to_dna"):
        return _spec_apply(mt, cur, op)
    if k == "to_moltype":
        if op[1] == mt:
            return mt, dict(cur)
        return _spec_apply(mt, cur, ["to_rna"] if op[1] == "rna" else ["to_dna"])
    if k == "degap":
        return mt, {n: v.replace("-", "").replace("?", "") for n, v in cur.items()}
    if k == "pad_seqs":
        m = max(len(v) for v in cur.values()) + op[1]
        return mt, {n: v + "-" * (m - len(v)) for n, v in cur.items()}
    if k == "add_seqs":
        other, where, name = op[1], (op[2] if len(op) > 2 else "end"), (op[3] if len(op) > 3 else None)
        if where == "end":
            return mt, {**cur, **other}
        res = {}
        for n, v in cur.items():
            if where == "before" and n == name:
                res.update(other)
            res[n] = v
            if where == "after" and n == name:
                res.update(other)
        return mt, res
    if k == "add":
        return mt, {n: v + v for n, v in cur.items()}
    if k == "copy":
        return mt, dict(cur)
    if k == "trim_stop_codons":
        # a terminal stop codon (standard code) of a sequence that is a whole number of codons is removed
        def trim(v):
            cs = _codons(v)
            return v[:-3] if cs and len(v) % 3 == 0 and STD_CODE.get(cs[-1]) == "*" else v

        return mt, {n: trim(v) for n, v in cur.items()}
    if k == "get_translation":
        res = {}
        for n, v in cur.items():
            aa = "".join(STD_CODE[c] for c in _codons(v))
            res[n] = aa[:-1] if aa.endswith("*") else aa
        return "protein", res
    raise ValueError(k)


NEW_LACKS = ("add", "copy")  # no `+` / copy / deepcopy on the new-style collection; its add_seqs only appends


def _run_coll(out, impl, mt, seqs, ops):
    """one history on a plain SequenceCollection (old or new-style class) vs the strings; True if all ops agreed"""
    import cogent3
    from cogent3.core import new_alignment

    make = cogent3.make_unaligned_seqs if impl == "old" else new_alignment.make_unaligned_seqs
    try:
        c = make(dict(seqs), moltype=mt)
    except Exception as e:
        add_failure(out, "spec", "collection constructor raised", dict(impl=impl, moltype=mt, seqs=seqs, ops=[]), seqs, type(e).__name__,
                    sig=f"SequenceCollection:{impl}:construct")
        return False
    done, cur_mt, cur = [], mt, dict(seqs)
    for op in ops:
        done.append(op)
        k = op[0]
        if impl == "new" and (k in NEW_LACKS or (k == "add_seqs" and len(op) > 2 and op[2] != "end")):
            return True
        want_exc = None
        try:
            nmt, ncur = _coll_spec(cur_mt, cur, op)
        except SpecNone:
            want_exc = True
        out["evaluations"] += 1
        try:
            if k == "take_seqs":
                c = c.take_seqs(op[1], negate=op[2])
            elif k == "take_seqs_if":
                c = c.take_seqs_if(_seq_pred(op[1], op[2]), negate=op[3])
            elif k == "rename_seqs":
                c = c.rename_seqs(_renamer(op[1], op[2]))
            elif k == "rc":
                c = c.rc()
            elif k == "to_rna":
                c = c.to_rna()
            elif k == "to_dna":
                c = c.to_dna()
            elif k == "to_moltype":
                c = c.to_moltype(op[1])
            elif k == "degap":
                c = c.degap()
            elif k == "pad_seqs":
                c = c.pad_seqs(pad_length=(max(len(v) for v in cur.values()) + op[1]) if op[1] else None)
            elif k == "add_seqs":
                kw = {} if len(op) < 3 or op[2] == "end" else {f"{op[2]}_name": op[3]}
                c = c.add_seqs(make(dict(op[1]), moltype=cur_mt) if impl == "old" else dict(op[1]), **kw)
            elif k == "add":
                c = c + c.take_seqs(op[1])
            elif k == "trim_stop_codons":
                c = c.trim_stop_codons()
            elif k == "get_translation":
                c = c.get_translation()
            elif op[1] == "rich_dict":
                from cogent3.util.deserialise import deserialise_object

                c = deserialise_object(c.to_rich_dict())
            else:
                c = getattr(c, op[1])()
            if c is None or (isinstance(c, dict) and not c):
                got, got_names = None, None
            else:
                got, got_names = c.to_dict(), list(c.names)
        except Exception as e:
            got, got_names = {"err": type(e).__name__}, None
        after_rc = any(d[0] == "rc" for d in done[:-1])
        detail = f":{op[1]}" if k in ("rename_seqs", "take_seqs_if") else (f":{op[2]}" if k == "add_seqs" and len(op) > 2 else "")
        sig = f"SequenceCollection:{impl}:{k}{detail}" + (":after-rc" if after_rc else "")
        if want_exc:
            # nothing selected: an empty result / None / a refusal are all acceptable, rows are not
            if isinstance(got, dict) and got and "err" not in got:
                add_failure(out, "spec", f"collection {k} returns sequences where the string operation selects none",
                            dict(impl=impl, moltype=mt, seqs=seqs, ops=list(done)), "nothing", got, sig=sig + ":exc")
                return False
            bump(out, "coll_op", f"{impl}:{k}:nothing")
            return True
        if got != ncur or (got_names is not None and got_names != list(ncur)):
            add_failure(out, "spec", f"collection {k} differs from the same operation on the strings",
                        dict(impl=impl, moltype=mt, seqs=seqs, ops=list(done)), ncur, got, sig=sig)
            return False
        cur_mt, cur = nmt, ncur
        bump(out, "coll_op", f"{impl}:{k}")
    return True


def _rand_coll(rng):
    mt = rng.choice(["dna", "dna", "rna", "protein"])
    k = rng.randint(1, 5)
    if mt != "protein" and rng.random() < 0.4:
        # coding sequences: whole codons, canonical, some with a terminal stop codon
        stops = ["TAA", "TAG", "TGA"]
        seqs = {}
        for i in range(k):
            body = "".join(rng.choice([c for c in STD_CODE if STD_CODE[c] != "*"]) for _ in range(rng.randint(1, 4)))
            v = body + (rng.choice(stops) if rng.random() < 0.5 else "")
            seqs[f"s{i}"] = v.replace("T", "U") if mt == "rna" else v
        return mt, seqs
    return mt, {f"s{i}": _rand_row(rng, rng.randint(1, 14), mt, rng.choice([0.0, 0.0, 0.2])) for i in range(k)}


def _rand_coll_op(rng, cur_mt, cur, n_done, for_new):
    names = list(cur)
    kinds = ["take_seqs", "take_seqs", "take_seqs_if", "rename_seqs", "rename_seqs", "rc", "rc", "rc", "to_xna", "to_moltype",
             "degap", "pad_seqs", "add_seqs", "trim_stop_codons", "get_translation", "get_translation"]
    if not for_new:
        kinds += ["add", "copy", "add_seqs"]
    k = rng.choice(kinds)
    nucleic = cur_mt in ("dna", "rna")
    if k in ("rc", "to_xna", "to_moltype", "trim_stop_codons") and not nucleic:
        return None
    if k == "take_seqs":
        if rng.random() < 0.15:
            return ["take_seqs", rng.choice(names), False]
        sel = rng.sample(names, rng.randint(1, len(names)))
        return ["take_seqs", sel, rng.random() < 0.3 and len(sel) < len(names)]
    if k == "take_seqs_if":
        kind = rng.choice(["len>", "count-even", "starts"])
        lens = sorted(len(v) for v in cur.values())
        arg = rng.choice(lens + [lens[0] - 1]) if kind == "len>" else rng.choice(CANON[cur_mt][:4])
        return ["take_seqs_if", kind, arg, rng.random() < 0.3]
    if k == "rename_seqs":
        kind = rng.choice(["suffix", "suffix", "prefix", "upper", "first-only", "identity"])
        f = _renamer(kind, names)
        if len({f(n) for n in names}) < len(names):
            return None
        return ["rename_seqs", kind, names]
    if k == "to_xna":
        return ["to_rna"] if cur_mt == "dna" else ["to_dna"]
    if k == "to_moltype":
        return ["to_moltype", rng.choice(["dna", "rna"])]
    if k == "pad_seqs":
        return ["pad_seqs", rng.choice([0, 0, 1, 3])]
    if k == "add_seqs":
        fresh = [f"y{i}" for i in range(len(names) + 2) if f"y{i}" not in cur and f"y{i}".upper() not in cur]
        other = {fresh[0]: _rand_row(rng, rng.randint(1, 9), cur_mt, 0.0)}
        if for_new or rng.random() < 0.4:
            return ["add_seqs", other, "end", None]
        return ["add_seqs", other, rng.choice(["before", "after"]), rng.choice(names)]
    if k == "add":
        order = list(names)
        rng.shuffle(order)
        return ["add", order]
    if k == "copy":
        return ["copy", rng.choice(["deepcopy", "copy", "rich_dict"])]
    if k == "trim_stop_codons":
        # defined here for gap-free sequences (a stop followed by terminal gaps belongs to the alignment classes)
        # and for non-empty ones (an empty sequence has no last codon to look at: both classes refuse)
        return ["trim_stop_codons"] if all(v and not any(c in GAPS for c in v) for v in cur.values()) else None
    if k == "get_translation":
        return ["get_translation"] if _translatable(cur_mt, cur) else None
    return [k]


def _coll_histories(out, rng, count):
    """the COLLECTION half of the property: histories of take_seqs (list / single name, both polarities) / take_seqs_if /
    rename_seqs (all, some, no names changed) / rc / to_rna / to_dna / to_moltype / degap / pad_seqs / add_seqs (end, before,
    after) / `+` / copies / trim_stop_codons / get_translation on a plain SequenceCollection (ragged sequences, gaps and
    degenerates allowed; coding sequences with terminal stops), old and new-style class, against the same operations on the
    (name, string) rows.  A history restricted to what the new-style class offers runs on both classes, a free one on the old."""
    for it in range(count):
        mt, seqs = _rand_coll(rng)
        for for_new in (True, False):
            ops, cur_mt, cur = [], mt, dict(seqs)
            for _ in range(rng.randint(1, 5)):
                op = _rand_coll_op(rng, cur_mt, cur, len(ops), for_new)
                if op is None:
                    continue
                ops.append(op)
                try:
                    cur_mt, cur = _coll_spec(cur_mt, cur, op)
                except SpecNone:
                    break
            if not ops:
                continue
            for impl in (("old", "new") if for_new else ("old",)):
                if _run_coll(out, impl, mt, seqs, ops):
                    out["nontrivial"].add(("coll", impl, mt, str(seqs), str(ops)))


def _regression_corpus(out, rng):
    """witnesses of repaired defects (status "fixed" in known_findings.d/C03.json) are replayed first on every run;
    a failure is an ordinary spec failure (fixed entries are never matched as known)"""
    import json
    from .common import VERIF

    fp = VERIF / "known_findings.d" / "C03.json"
    if not fp.exists():
        return
    for k in json.loads(fp.read_text()).get("findings", []):
        w = k.get("witness")
        if k.get("status") != "fixed" or not w:
            continue
        bump(out, "regression_corpus", k["id"])
        tmp = new_outcome()
        if "rows" not in w:
            # collection-level witness
            f = _replay_input(w, None)
            if f:
                add_failure(out, "spec", f"REGRESSION of {k['id']} ({k.get('commit')}): " + f["what"], f["input"], f["expected"], f["got"], sig="regression:" + f["sig"])
            continue
        _run_history(tmp, rng, w["moltype"], w["rows"], w["ops"], w.get("cls") == "ArrayAlignment", check_methods=False)
        out["evaluations"] += tmp["evaluations"]
        for f in tmp["failures"]:
            add_failure(out, "spec", f"REGRESSION of {k['id']} ({k.get('commit')}): " + f["what"], f["input"], f["expected"], f["got"], sig="regression:" + f["sig"])


def spec_check(ctx, budget):
    out = new_outcome(
        "random dna/rna/protein alignments (1-5 rows, length 0-24, leading/trailing/all-gap rows, degenerates) and shaped "
        "ones (all-gap columns/rows, one row, one column, zero columns, only gaps, 3k/3k+1/3k+2 columns) x random "
        "histories (depth 1-5) and planned histories (slice->rc->slice at gap boundaries/negative/beyond len; "
        "take_positions repeated/unsorted/negative/out-of-range x negate; omit_gap_pos at exact k/(rows*motif_length) and "
        "dyadic thresholds compared the way the float computation does; filtered/no_degenerates/omit_gap_pos with "
        "motif_length 3 (2) incl. remainder dropped or refused; degapped_relative_to leading/trailing/all-gap rows; "
        "sample with given permutation/randint indices, motif_length 1 and 3; to_type both ways after slice/rc then more "
        "ops) of slice/int/rc/take_positions/take_seqs/no_degenerates/omit_gap_pos/filtered/degapped_relative_to/"
        "sample(given indices)/+/to_type/to_rna/to_dna on BOTH Alignment and ArrayAlignment vs the same ops on plain "
        "strings; exhaustive single slices/int/rc-after-slice on small alignments; 39 read-only methods vs a fresh object; "
        "add_seqs (end/before/after a name), to_rna/to_dna chains, sliding_windows of the result vs the windows of the rows. "
        "non-trivial = distinct (class, alignment, history) that ran >= 1 op to a non-empty result"
    )
    rng = ctx.subrng(f"spec{budget}")
    _regression_corpus(out, rng)
    # exhaustive: every [a:b] (None/negative/out-of-range) then rc, on a few fixed layouts
    fixed = [
        ("dna", {"s0": "G--", "s1": "A-C", "s2": "YYG"}),
        ("dna", {"s0": "--AC-", "s1": "T-G-A", "s2": "-----"}),
        ("rna", {"s0": "ACGU", "s1": "A--U"}),
        ("protein", {"s0": "MK-L", "s1": "-KXL"}),
    ]
    for mt, rows in fixed:
        n = len(next(iter(rows.values())))
        vals = [None] + list(range(-n - 1, n + 3))
        for a, b in itertools.product(vals, vals):
            for arr in (False, True):
                tail = [["rc"]] if mt != "protein" else [["take_positions", [0], False]]
                _run_history(out, rng, mt, rows, [["slice", a, b]] + (tail if rng.random() < 0.5 else []), arr, check_methods=False)
        for i in range(-n - 1, n + 2):
            for arr in (False, True):
                _run_history(out, rng, mt, rows, [["int", i]], arr, check_methods=False)
    # get_degapped_relative_to with '-', '?', N, R in every position of the reference row, both classes: only the gap
    # character marks a dropped column
    base = {"dna": "ACGTAC", "rna": "ACGUAC", "protein": "MKVLAT"}
    for mt in ("dna", "rna", "protein"):
        for pos in range(6):
            for ch in ("-", "?", DEGEN[mt][0], DEGEN[mt][1]):
                ref = base[mt][:pos] + ch + base[mt][pos + 1 :]
                ref2 = ref[:2] + "-" + ref[3:] if pos != 2 else ref
                rows = {"s0": ref2, "s1": base[mt][::-1], "s2": "-" + base[mt][1:5] + "?"}
                for arr in (False, True):
                    _run_history(out, rng, mt, rows, [["degapped_relative_to", "s0"]], arr, check_methods=False)
                    _run_history(out, rng, mt, rows, [["degapped_relative_to", "s2"]], arr, check_methods=False)
    # `+` pairs rows by NAME: right operand with every permutation of three names, both classes and the plain collection
    for mt, rows in (("dna", {"s0": "AC", "s1": "GT", "s2": "T-"}), ("protein", {"s0": "MK", "s1": "-L", "s2": "VV"})):
        for order in itertools.permutations(list(rows)):
            for how in ("perm", "perm-slice") + (("perm-rc",) if mt == "dna" else ()):
                for arr in (False, True):
                    _run_history(out, rng, mt, rows, [["add", how, list(order)]], arr, check_methods=False)
            _collection_add(out, mt, {k: v.replace("-", "") + "A" * i for i, (k, v) in enumerate(rows.items())}, list(order))
    # copies / serialisation round trips around rc on a slice that does not start at sequence coordinate 0
    for mt, rows in (("dna", {"s0": "AAACCGGTTT", "s1": "A-ACC--TTG"}), ("rna", {"s0": "AAACCGGUUU", "s1": "-AACC--UUG"})):
        for a, b in ((3, 9), (1, 10), (2, 5), (0, 7)):
            for k1 in ("deepcopy", "copy", "rich_dict", "json"):
                for k2 in ("deepcopy", "copy", "rich_dict", "json"):
                    for arr in (False, True):
                        _run_history(out, rng, mt, rows, [["slice", a, b], ["copy", k1], ["rc"], ["copy", k2], ["slice", 1, None]],
                                     arr, check_methods=False)
    _spec_seq_add(out, rng, 60 * budget)
    _coll_histories(out, rng, 120 * budget)
    # planned histories: every class of the property's quantifier appears on purpose, on both classes
    for it in range(N_PLANNED * budget):
        name, plan = PLANS[it % len(PLANS)]
        mt, rows, shape = _shaped_aln(rng) if rng.random() < 0.6 else (*_rand_aln(rng), "random")
        if name in ("slice-rc-slice", "to_type") and mt == "protein" and rng.random() < 0.8:
            mt = rng.choice(["dna", "rna"])
            rows = {nm: "".join(c if c == "-" else rng.choice(CANON[mt]) for c in v) for nm, v in rows.items()}
        ops, cur = _build_history(rng, mt, rows, plan)
        if not ops:
            continue
        bump(out, "plan", name)
        bump(out, "shape", shape)
        for arr in (False, True):
            k = _run_history(out, rng, mt, rows, ops, arr, check_methods=it % 3 == 0)
            if k and any(rows.values()):
                out["nontrivial"].add((arr, mt, str(rows), str(ops)))
        if len(out["samples"]) < 2 and name == "slice-rc-slice" and _ncols(rows) > 5 and cur:
            out["samples"].append(dict(moltype=mt, rows=rows, ops=ops, expected=cur))
    # exact gap fractions: every k / nrows on a few alignments, both classes
    for it in range(6 * budget):
        mt, rows, shape = _shaped_aln(rng)
        nr = len(rows)
        if not _ncols(rows):
            continue
        for ml in (1, 3):
            ks = range(nr * ml + 1) if ml == 1 else rng.sample(range(nr * ml + 1), min(4, nr * ml + 1))
            for k in ks:
                for arr in (False, True):
                    _run_history(out, rng, mt, rows, [["omit_gap_pos", k / (nr * ml), ml]], arr, check_methods=False)
    for it in range(N_RANDOM * budget):
        mt, rows = _rand_aln(rng) if rng.random() < 0.7 else _shaped_aln(rng)[:2]
        # build the history against the evolving string state so later ops stay meaningful
        ops, cur_mt, cur = [], mt, dict(rows)
        for _ in range(rng.randint(1, 5)):
            if not cur:
                break
            op = _rand_op(rng, cur_mt, cur, wild=rng.random() < 0.5)
            ops.append(op)
            try:
                cur_mt, cur = _spec_apply(cur_mt, cur, op)
            except (IndexError, ValueError, SpecNone):
                break
        for arr in (False, True):
            k = _run_history(out, rng, mt, rows, ops, arr)
            if k and any(rows.values()):
                out["nontrivial"].add((arr, mt, str(rows), str(ops)))
            bump(out, "history_depth", len(ops))
        bump(out, "moltype", mt)
        bump(out, "nrows", len(rows))
        if len(out["samples"]) < 4 and len(ops) >= 3 and len(next(iter(rows.values()))) > 5:
            out["samples"].append(dict(moltype=mt, rows=rows, ops=ops, expected=cur))
    return out


# --------------------------------------------------------------------------
# correspondence: Lean row model vs the real Aligned rows / ArrayAlignment rows
# --------------------------------------------------------------------------
MODEL_OPS = ("slice", "int", "rc", "take_seqs", "take_positions", "to_rna", "to_dna", "add", "keep",
             "degapped_relative_to", "sample_perm", "sample_idx", "to_type",
             "no_degenerates", "omit_gap_pos", "filtered", "copy", "add_seqs")


def _filter_mask(mt, rows, op):
    """column mask (True = kept) that filtered()/no_degenerates()/omit_gap_pos() apply to these rows: the predicate is
    evaluated here on the string columns (both classes see the same columns); the model then mirrors what the classes
    do with the kept blocks.  None when the call refuses (length not divisible and drop_remainder=False)."""
    k = op[0]
    names = list(rows)
    n = len(rows[names[0]]) if names else 0
    if k == "no_degenerates":
        ml = op[2] if len(op) > 2 else 1
        ok = set(CANON[mt]) | ({"-"} if op[1] else set())
        pred = lambda ms: all(c in ok for m in ms for c in m)
    elif k == "omit_gap_pos":
        ml = op[2] if len(op) > 2 else 1
        frac = 1 - 1e-6 if op[1] is None else op[1]
        denom = len(names) * ml
        pred = lambda ms: sum(c in "-?" for m in ms for c in m) / denom <= frac
    else:
        ml = op[2]
        pred = PREDS[op[1]]
        if n % ml and not op[3]:
            return None
    nm_ = n // ml
    kept = {j for j in range(nm_) if pred(tuple(rows[x][j * ml : (j + 1) * ml] for x in names))}
    return [(i // ml) in kept and i < nm_ * ml for i in range(n)]


def _model_ops(mt, rows, ops):
    """the driver's encoding of a harness history (state dependent for the filter ops); stops where the model stops"""
    res = []
    cur_mt, cur = mt, dict(rows)
    for op in ops:
        if op[0] in ("no_degenerates", "omit_gap_pos", "filtered") and len(res) % 3:
            # the MODEL evaluates the predicate on the motif columns it displays (Model/AlnPred.lean), incl. the
            # drop_remainder refusal
            res.append(_pred_op(cur_mt, op))
        elif op[0] in ("no_degenerates", "omit_gap_pos", "filtered"):
            # the verdict per column is evaluated here and handed to the model (AOp.filterMask)
            mask = _filter_mask(cur_mt, cur, op)
            if mask is None:
                break
            res.append(["filter_mask", mask])
        elif op[0] in ("copy", "add_seqs") or (op[0] == "add" and op[1] not in ("self", "copy")):
            break
        else:
            res.append(_model_op(op))
        try:
            if op[0] == "keep":
                cur = {nm: "".join(s[a:b] for a, b in op[1]) for nm, s in cur.items()}
            else:
                cur_mt, cur = _spec_apply(cur_mt, cur, op)
        except Exception:
            break
    return res


GAPS = "-?"  # moltype.gaps of dna / rna / protein


def _pred_op(mt, op):
    """the driver's encoding of a filter op whose predicate the model evaluates itself"""
    from .common import rat

    k = op[0]
    if k == "no_degenerates":
        return ["no_degenerates_m", CANON[mt] + ("-" if op[1] else ""), op[2] if len(op) > 2 else 1]
    if k == "omit_gap_pos":
        return ["omit_gap_pos_m", GAPS, rat(1 - 1e-6 if op[1] is None else op[1]), op[2] if len(op) > 2 else 1]
    return ["filtered_m", op[1], op[2], bool(op[3])]


def _model_op(op):
    """the driver's encoding of a harness op: sample -> explicit locations; to_type -> class round trip"""
    k = op[0]
    if k == "sample_perm":
        ml = op[3] if len(op) > 3 else 1
        locs = op[1][: op[2]] if op[2] else op[1]
        return ["sample", [int(x) for x in locs], ml]
    if k == "sample_idx":
        return ["sample", [int(x) for x in op[1]], op[2] if len(op) > 2 else 1]
    if k == "to_type":
        return ["to_type_roundtrip"]
    return op


def _row_state(aln):
    """[(name, gap_pos, cum, parent_length, displayed ungapped data)] of an Alignment"""
    res = []
    for s in aln.seqs:
        res.append(
            dict(name=s.name, gp=[int(x) for x in s.map.gap_pos], cum=[int(x) for x in s.map.cum_gap_lengths],
                 pl=int(s.map.parent_length), data=str(s.data))
        )
    return res


def _real_model_op(aln, op):
    from cogent3.core.location import FeatureMap

    if op[0] == "keep":
        # Alignment.gapped_by_map with a run-length FeatureMap of kept blocks (what filtered() builds)
        fm = FeatureMap.from_locations(locations=[tuple(l) for l in op[1]], parent_length=len(aln))
        return aln.gapped_by_map(fm)
    return _real_apply(aln, op, aln.moltype.label)


def _view_state(aln):
    """per row: the map and the SeqView record under the Sequence (start, stop, step, seq_len, parent string), displayed data"""
    res = []
    for s in aln.seqs:
        v = s.data._seq
        res.append(dict(name=s.name, gp=[int(x) for x in s.map.gap_pos], cum=[int(x) for x in s.map.cum_gap_lengths],
                        pl=int(s.map.parent_length), start=int(v.start), stop=int(v.stop), step=int(v.step),
                        seq_len=int(v.seq_len), parent=str(v.seq), str=str(s.data)))
    return res


VIEW_PLANS = [["slice", "rc", "slice", "?rc", "?slice"], ["rc", "slice", "?slice", "?rc"], ["slice", "slice", "rc", "?slice"],
              ["rc", "rc", "slice"]]


def _view_correspondence(ctx, out, rng):
    """the VIEW-level row model of theorem view_history_refines (Model/AlnView.lean: rowSliceV / rowRcV = IndelMap x the C01
    sequence view) against the real Aligned rows: after every slice / rc of a history the map AND the SeqView record
    (start, stop, step, seq_len, parent string) under each row's Sequence, plus the displayed data"""
    cases = []
    for it in range(ctx.budget(250, 4000)):
        mt, rows, shape = _shaped_aln(rng) if rng.random() < 0.6 else (*_rand_aln(rng), "random")
        if mt not in ("dna", "rna"):
            mt = rng.choice(["dna", "rna"])
            rows = {nm: "".join(c if c == "-" else rng.choice(CANON[mt]) for c in v) for nm, v in rows.items()}
        ops, _ = _build_history(rng, mt, rows, VIEW_PLANS[it % len(VIEW_PLANS)], only=("slice", "rc"))
        if ops:
            cases.append((mt, rows, ops))
    models = ctx.driver.batch([("view_history", dict(moltype=mt, rows=[[k, v] for k, v in rows.items()], ops=ops))
                               for mt, rows, ops in cases])
    for (mt, rows, ops), model in zip(cases, models):
        inp = dict(moltype=mt, rows=rows, ops=ops, level="view")
        if "error" in model:
            add_failure(out, "corr", "driver error (view_history)", inp, None, model, confirmed=False)
            continue
        aln = _mk(rows, mt, False)
        real = [_view_state(aln)]
        for op in ops:
            try:
                aln = aln[op[1] : op[2]] if op[0] == "slice" else aln.rc()
                real.append(_view_state(aln))
            except Exception as e:
                real.append({"err": type(e).__name__})
                break
        out["evaluations"] += len(real)
        bump(out, "view_history_depth", len(ops))
        for op in ops:
            bump(out, "view_op", op[0])
        got = model["rows"][: len(real)]
        if got != real:
            i = next((j for j, (x, y) in enumerate(zip(got, real)) if x != y), min(len(got), len(real)))
            add_failure(out, "corr", f"view-level row (map + SeqView record) differs after op #{i} ({ops[i - 1][0] if i else 'construct'})",
                        dict(inp, ops=ops[:i]), got[i] if i < len(got) else None, real[i] if i < len(real) else None, confirmed=False)
        elif len(real) > 2 and any("-" in v for v in rows.values()) and any(r["step"] < 0 for r in real[-1] if isinstance(real[-1], list)):
            out["nontrivial"].add(("view", mt, str(rows), str(ops)))


def _windows_oracle(rows, window, step, start, end):
    """sliding_windows on plain strings: the windows of `window` columns starting at start, start+step, ... that lie
    inside the alignment and start before `end`"""
    n = _ncols(rows)
    lo = 0 if start is None else start
    hi = n - window + 1 if end is None else min(end, n - window + 1)
    return [{nm: v[p : p + window] for nm, v in rows.items()} for p in range(lo, hi, step)] if lo < hi else []


def _rand_window_args(rng, n):
    window = rng.choice([1, 2, 3, 3, 4, n, n + 1, max(n - 1, 1)]) if rng.random() < 0.6 else rng.randint(1, max(n, 1))
    step = rng.choice([1, 1, 2, 3, 5])
    start = None if rng.random() < 0.4 else rng.randint(0, n)
    end = None if rng.random() < 0.4 else rng.randint(0, n + 2)
    return window, step, start, end


def _pred_correspondence(ctx, out, rng):
    """Model/AlnPred.lean against the real code piece by piece: (a) f64div vs CPython's float division, exhaustive
    0 <= k <= d <= 40 plus random large pairs; (b) the real GapsOk (gap_frac_ok, negate, gap_run) and
    AllowedCharacters objects, string and array flavour, on random motif columns with thresholds ON and around the
    exact fractions; (c) sliding_windows of both classes vs the model's window bounds applied to the strings"""
    from fractions import Fraction

    import numpy
    from cogent3.core.alignment import AllowedCharacters, GapsOk

    from .common import rat, unrat

    pairs = [(k, d) for d in range(1, 41) for k in range(0, d + 1)]
    for _ in range(ctx.budget(300, 5000)):
        d = rng.choice([rng.randint(1, 200), rng.randint(1, 10**6), rng.randint(1, 2**40)])
        pairs.append((rng.randint(0, 3 * d), d))
    got = ctx.driver.batch([("f64div", dict(k=k, d=d)) for k, d in pairs])
    for (k, d), g in zip(pairs, got):
        out["evaluations"] += 1
        want = Fraction(k / d)
        if isinstance(g, dict) or unrat(g) != want:
            add_failure(out, "corr", "f64div differs from CPython float division", dict(k=k, d=d), rat(want), g, confirmed=False)
    bump(out, "pred_stream", "f64div", )
    # (b) predicate objects
    alpha = "ACGTN-?"
    cases = []
    for _ in range(ctx.budget(600, 8000)):
        nr, ml = rng.randint(1, 5), rng.choice([1, 1, 2, 3])
        gappy = rng.choice([0.0, 0.2, 0.5, 0.9, 1.0])
        col = ["".join(rng.choice("-?" if rng.random() < 0.8 else "?") if rng.random() < gappy else rng.choice("ACGTN") for _ in range(ml))
               for _ in range(nr)]
        kind = rng.choice(["gaps_ok", "gaps_ok", "gaps_not_ok", "allowed", "gap_run_ok"])
        denom = nr * ml
        cnt = sum(c in GAPS for m in col for c in m)
        if kind in ("gaps_ok", "gaps_not_ok"):
            r = rng.random()
            if r < 0.35:
                frac = cnt / denom  # exactly on the threshold
            elif r < 0.5:
                frac = numpy.nextafter(cnt / denom, rng.choice([0.0, 2.0])).item()  # one ulp off
            elif r < 0.7:
                frac = rng.randint(0, denom) / denom
            elif r < 0.8:
                frac = rng.choice([0, 1, 1 - 1e-6, 0.5, 1 / 3, 2 / 3, 0.1])
            else:
                frac = rng.random()
            cases.append((kind, col, GAPS, ml, frac))
        elif kind == "allowed":
            chars = rng.choice(["ACGT", "ACGT-", "ACGTN", "ACG", "-", "ACGT-?N"])
            cases.append((kind, col, chars, ml, None))
        else:
            cases.append((kind, ["".join(col)], GAPS, rng.randint(0, 3), None))
    reqs = [("pred", dict(kind=k, col=col, chars=chars, ml=ml, **({} if frac is None else {"frac": rat(frac)})))
            for k, col, chars, ml, frac in cases]
    got = ctx.driver.batch(reqs)
    for (kind, col, chars, ml, frac), g in zip(cases, got):
        out["evaluations"] += 1
        arr = numpy.array([[alpha.index(c) for c in m] for m in col], dtype=int)
        idx = [alpha.index(c) for c in chars]
        try:
            if kind == "gaps_ok":
                real = [bool(GapsOk(chars, frac, motif_length=ml)(tuple(col))), bool(GapsOk(idx, frac, motif_length=ml, is_array=True)(arr))]
            elif kind == "gaps_not_ok":
                real = [bool(GapsOk(chars, frac, motif_length=ml, negate=True)(tuple(col))),
                        bool(GapsOk(idx, frac, motif_length=ml, is_array=True, negate=True)(arr))]
            elif kind == "allowed":
                real = [bool(AllowedCharacters(chars)(tuple(col))), bool(AllowedCharacters(idx, is_array=True)(arr))]
            else:
                real = [bool(GapsOk(chars, gap_run=True, allowed_run=ml)(col[0]))]
        except Exception as e:
            real = [type(e).__name__]
        bump(out, "pred_kind", f"{kind}:{g}")
        if any(r != g for r in real):
            add_failure(out, "corr", f"predicate {kind}: model verdict differs from the real object (string / array flavour)",
                        dict(kind=kind, col=col, chars=chars, ml=ml, frac=frac), g, real, confirmed=False)
        elif kind.startswith("gaps") and frac == sum(c in GAPS for m in col for c in m) / (len(col) * ml):
            out["nontrivial"].add(("pred-on-threshold", kind, str(col), ml))
    # (c) sliding windows, both classes
    wcases = []
    for _ in range(ctx.budget(120, 2500)):
        mt, rows, shape = _shaped_aln(rng) if rng.random() < 0.4 else (*_rand_aln(rng), "random")
        n = _ncols(rows)
        if n:
            wcases.append((mt, rows, _rand_window_args(rng, n)))
    got = ctx.driver.batch([("windows", dict(n=_ncols(rows), window=w, step=st, start=a, end=b)) for mt, rows, (w, st, a, b) in wcases])
    for (mt, rows, (w, st, a, b)), g in zip(wcases, got):
        model = [{nm: v[x:y] for nm, v in rows.items()} for x, y in g] if isinstance(g, list) else g
        for arr in (False, True):
            out["evaluations"] += 1
            try:
                real = [x.to_dict() for x in _mk(rows, mt, arr).sliding_windows(w, st, start=a, end=b)]
            except Exception as e:
                real = {"err": type(e).__name__}
            bump(out, "windows", min(len(real), 5) if isinstance(real, list) else "err")
            if real != model:
                add_failure(out, "corr", "sliding_windows: yielded alignments differ from the model's window bounds applied to the rows",
                            dict(cls="ArrayAlignment" if arr else "Alignment", moltype=mt, rows=rows, window=w, step=st, start=a, end=b),
                            model, real, confirmed=False)
            elif isinstance(real, list) and len(real) > 1 and any("-" in v for v in rows.values()):
                out["nontrivial"].add(("windows", arr, str(rows), w, st, a, b))


def correspondence(ctx):
    out = new_outcome(
        "Lean row model (IndelMap x displayed string per row) vs real Alignment rows after every op of random histories "
        "(slice incl. None/negative/beyond-len, int, rc, take_seqs, take_positions, to_rna/to_dna, + (self/copy), keep = "
        "gapped_by_map with a run-length FeatureMap as filtered() builds) and of planned histories (slice->rc->slice with "
        "bounds at gap boundaries, take_positions repeated/unsorted/negative/out-of-range, both polarities) on alignments "
        "with all-gap rows/columns, one row, one column, zero columns; get_degapped_relative_to, sample with given "
        "indices (motif_length 1 and 3) and the to_type round trip are in the model too; filtered / no_degenerates / omit_gap_pos "
        "(motif_length 1-3) are in the model as `filter_mask` (the predicate is evaluated by the harness on the string columns, "
        "the model mirrors the run-length FeatureMap + joined_segments path of Alignment and the column take of "
        "ArrayAlignment); dense rows vs ArrayAlignment; the VIEW-level row model of view_history_refines (IndelMap x C01 "
        "sequence view: start/stop/step/seq_len/parent string under every row) on slice/rc histories; for 2/3 of the filter ops "
        "the MODEL evaluates the predicate itself (Model/AlnPred.lean: motif columns, AllowedCharacters, GapsOk with the binary64 "
        "quotient, kept toggle, drop_remainder refusal); the real GapsOk / AllowedCharacters objects (string + array flavour) on "
        "random motif columns with thresholds on / one ulp off the exact fraction; f64div vs CPython division (0<=k<=d<=40 + "
        "random up to 2^40); sliding_windows of both classes vs windowBounds. compared: each "
        "row's (gap_pos, cum_gap_lengths, parent_length, data string), names, to_dict. non-trivial = distinct (alignment, "
        "history) with >= 1 op applied and a gap in some row"
    )
    rng = ctx.subrng("corr")
    cases = []
    for it in range(ctx.budget(700, 12000)):
        mt, rows = _rand_aln(rng)
        if mt == "protein" and rng.random() < 0.5:
            mt, rows = _rand_aln(rng)
        ops = []
        cur_mt, cur = mt, dict(rows)
        for _ in range(rng.randint(1, 5)):
            if not cur:
                break
            n = len(next(iter(cur.values())))
            if rng.random() < 0.15 and n:
                k = rng.randint(1, 3)
                c = sorted(rng.sample(range(0, n + 1), min(2 * k, (n + 1) // 2 * 2)))
                locs = [[c[2 * i], c[2 * i + 1]] for i in range(len(c) // 2)]
                op = ["keep", locs]
            else:
                op = _rand_op(rng, cur_mt, cur, wild=rng.random() < 0.5)
                if op[0] not in MODEL_OPS:
                    continue
            ops.append(op)
            try:
                if op[0] == "keep":
                    cur = {nm: "".join(s[a:b] for a, b in op[1]) for nm, s in cur.items()}
                else:
                    cur_mt, cur = _spec_apply(cur_mt, cur, op)
            except (IndexError, SpecNone, ValueError):
                break
        if ops:
            cases.append((mt, rows, ops))
    # planned histories over the ops the model covers: slice -> rc -> slice triples with bounds at gap boundaries /
    # negative / beyond len, take_positions with repeated / unsorted / negative / out-of-range columns (both
    # polarities), on alignments with all-gap rows / columns, one row, one column, no column
    CORR_PLANS = [
        ("slice-rc-slice", ["slice", "rc", "slice", "?rc", "?slice"]),
        ("slice-rc-slice", ["?take_positions", "slice", "rc", "slice", "?take_positions"]),
        ("take_positions", ["?slice", "?rc", "take_positions", "?slice"]),
        ("take_positions", ["take_positions", "?rc", "?take_positions"]),
        ("motif", ["?slice", "?rc", "motif", "?motif"]),
        ("motif", ["motif", "?rc", "motif"]),
    ]
    for it in range(ctx.budget(500, 6000)):
        name, plan = CORR_PLANS[it % len(CORR_PLANS)]
        mt, rows, shape = _shaped_aln(rng) if rng.random() < 0.7 else (*_rand_aln(rng), "random")
        if mt == "protein" and name == "slice-rc-slice":
            mt = rng.choice(["dna", "rna"])
            rows = {nm: "".join(c if c == "-" else rng.choice(CANON[mt]) for c in v) for nm, v in rows.items()}
        ops, _ = _build_history(rng, mt, rows, plan, only=MODEL_OPS)
        if ops:
            cases.append((mt, rows, ops))
            bump(out, "corr_plan", name)
            bump(out, "corr_shape", shape)
    # keep only the prefix of each history the model covers (a refused filtered() ends it)
    cases = [(mt, rows, ops[: len(_model_ops(mt, rows, ops))]) for mt, rows, ops in cases]
    cases = [c for c in cases if c[2]]
    reqs = [("history", dict(moltype=mt, rows=[[k, v] for k, v in rows.items()], ops=_model_ops(mt, rows, ops)))
            for mt, rows, ops in cases]
    models = ctx.driver.batch(reqs)
    for (mt, rows, ops), model in zip(cases, models):
        if "error" in model:
            add_failure(out, "corr", "driver error", dict(moltype=mt, rows=rows, ops=ops), None, model, confirmed=False)
            continue
        # annotatable class: row states
        aln = _mk(rows, mt, False)
        arr = _mk(rows, mt, True)
        real_states, arr_states = [_row_state(aln)], [arr.to_dict()]
        alive_a = alive_b = True
        for op in ops:
            if alive_a and op[0] == "keep" and max(e for _, e in op[1]) > len(aln):
                # the kept blocks were drawn for the string state; FeatureMap.from_locations would clip them
                alive_a = False
            if alive_a:
                try:
                    if op[0] == "to_type":
                        # class conversion there and back: the rows are rebuilt from to_dict()
                        aln = aln.to_type(array_align=True).to_type(array_align=False)
                    else:
                        aln = _real_model_op(aln, op)
                    if aln is None:
                        # filtered() kept nothing
                        real_states.append({"err": "None"})
                        alive_a = False
                        continue
                    real_states.append(_row_state(aln))
                except Exception as e:
                    real_states.append({"err": type(e).__name__})
                    alive_a = False
            if alive_b:
                try:
                    if op[0] == "keep":
                        from cogent3.core.location import FeatureMap

                        raise NotImplementedError
                    if op[0] == "to_type":
                        arr = arr.to_type(array_align=False).to_type(array_align=True)
                    else:
                        arr = _real_apply(arr, op, arr.moltype.label)
                    if arr is None:
                        arr_states.append({"err": "None"})
                        alive_b = False
                        continue
                    arr_states.append(arr.to_dict())
                except NotImplementedError:
                    alive_b = False
                except Exception as e:
                    arr_states.append({"err": type(e).__name__})
                    alive_b = False
        out["evaluations"] += len(real_states) + len(arr_states)
        m_rows = model["aligned"][: len(real_states)]
        if m_rows != real_states:
            i = next((j for j, (x, y) in enumerate(zip(m_rows, real_states)) if x != y), min(len(m_rows), len(real_states)))
            add_failure(out, "corr", f"Aligned row state differs after op #{i} ({ops[i - 1][0] if i else 'construct'})",
                        dict(moltype=mt, rows=rows, ops=ops[:i]), m_rows[i] if i < len(m_rows) else None,
                        real_states[i] if i < len(real_states) else None, confirmed=False)
        m_arr = model["array"][: len(arr_states)]
        if m_arr != arr_states:
            i = next((j for j, (x, y) in enumerate(zip(m_arr, arr_states)) if x != y), min(len(m_arr), len(arr_states)))
            add_failure(out, "corr", f"ArrayAlignment rows differ after op #{i} ({ops[i - 1][0] if i else 'construct'})",
                        dict(moltype=mt, rows=rows, ops=ops[:i]), m_arr[i] if i < len(m_arr) else None,
                        arr_states[i] if i < len(arr_states) else None, confirmed=False)
        cr, cm = dict(rows), mt
        for op in ops:
            bump(out, "corr_op", op[0])
            if op[0] != "keep":
                bump(out, "corr_op_detail", f"{op[0]}:{_op_detail(op, cr)}")
            try:
                if op[0] == "keep":
                    cr = {nm: "".join(v[a:b] for a, b in op[1]) for nm, v in cr.items()}
                else:
                    cm, cr = _spec_apply(cm, cr, op)
            except Exception:
                break
        if any("-" in v for v in rows.values()) and len(real_states) > 1:
            out["nontrivial"].add((mt, str(rows), str(ops)))
        if len(out["samples"]) < 3 and len(ops) >= 3 and isinstance(real_states[-1], list):
            out["samples"].append(dict(moltype=mt, rows=rows, ops=ops, final_row_states=real_states[-1]))
    _view_correspondence(ctx, out, rng)
    _pred_correspondence(ctx, out, rng)
    return out


# --------------------------------------------------------------------------
# findings
# --------------------------------------------------------------------------
def match_finding(f, k):
    sig = f.get("sig") or ""
    import fnmatch

    if not any(fnmatch.fnmatchcase(sig, s) for s in k.get("sigs", [])):
        return False
    r = k.get("restrict") or {}
    inp = f.get("input") or {}
    ops = inp.get("ops") or []
    if r.get("cls") and inp.get("cls") != r["cls"]:
        return False
    if r.get("last_op") and (not ops or ops[-1][0] not in r["last_op"]):
        return False
    if r.get("needs_slice_beyond_len"):
        # some slice in the history must reach beyond the current length
        if not _history_has_beyond(inp):
            return False
    if r.get("moltypes") and inp.get("moltype") not in r["moltypes"]:
        return False
    if r.get("impl") and inp.get("impl") != r["impl"]:
        return False
    if r.get("rc_forgotten"):
        # the finding explains exactly ONE wrong answer: the rows the history gives when the reverse complements before
        # the last operation are not applied to the sequences kept by it (anything else is a different violation)
        try:
            mt, cur = inp["moltype"], dict(inp["seqs"])
            for op in [o for o in ops if o[0] != "rc"]:
                mt, cur = _coll_spec(mt, cur, op)
        except Exception:
            return False
        got = f.get("got")
        if not isinstance(got, dict) or ops[-1][0] == "rc" or set(got) != set(cur):
            return False
        new_names = set(ops[-1][1]) if ops[-1][0] == "add_seqs" else set()
        want = f.get("expected") if isinstance(f.get("expected"), dict) else {}
        if ops[-1][0] == "rename_seqs":
            # only a name the renamer CHANGES loses its reversed record; the others must be right
            ren = _renamer(ops[-1][1], ops[-1][2])
            new_names = {n for n in ops[-1][2] if ren(n) == n}
            if any(got[n] != want.get(n) for n in got if n in new_names):
                return False
        if any(got[n] != cur[n] for n in got if n not in new_names):
            return False
    if r.get("rc_applied_again"):
        # exactly ONE wrong answer: every sequence is the reverse complement of the right one (the displayed strings were
        # stored together with the old reversed record)
        got, want = f.get("got"), f.get("expected")
        if not ops or ops[-1][0] != "trim_stop_codons" or not isinstance(got, dict) or not isinstance(want, dict) or list(got) != list(want):
            return False
        tab = RNA_COMP if any("U" in v for v in want.values()) else DNA_COMP
        if any(got[n] != want[n][::-1].translate(tab) for n in got):
            return False
    if r.get("pad_wrong_end"):
        # exactly ONE wrong answer: every reversed sequence padded in FRONT of what it displayed (the padding was appended to the
        # stored plus-strand data of a reversed sequence)
        try:
            mt, cur = inp["moltype"], dict(inp["seqs"])
            for op in ops[:-1]:
                mt, cur = _coll_spec(mt, cur, op)
            _, want = _coll_spec(mt, cur, ops[-1])
        except Exception:
            return False
        got = f.get("got")
        if ops[-1][0] != "pad_seqs" or not isinstance(got, dict) or list(got) != list(want):
            return False
        # (a sequence added after the rc is not reversed and is padded correctly)
        if any(got[n] not in ("-" * (len(want[n]) - len(cur[n])) + cur[n], want[n]) for n in got):
            return False
    if r.get("got") and str(f.get("got")) != r["got"]:
        # the finding explains one exception class only (another exception, or wrong rows, is a different violation)
        return False
    return True


def _history_has_beyond(inp):
    mt, rows = inp.get("moltype"), dict(inp.get("rows") or {})
    for op in inp.get("ops") or []:
        if op[0] == "slice" and _op_detail(op, rows) == "beyond-len":
            return True
        try:
            mt, rows = _spec_apply(mt, rows, op)
        except Exception:
            return False
    return False


def _replay_input(inp, sig):
    out = new_outcome()
    import random

    rng = random.Random(0)
    arr = inp.get("cls") == "ArrayAlignment"
    if "seqs" in inp and "impl" in inp:
        _run_coll(out, inp["impl"], inp["moltype"], inp["seqs"], inp["ops"])
        for f in out["failures"]:
            if sig is None or f["sig"] == sig:
                return f
        return None
    if "windows" in inp:
        aln = _mk(inp["rows"], inp["moltype"], arr)
        mt, rows = inp["moltype"], dict(inp["rows"])
        try:
            for op in inp["ops"]:
                aln = _real_apply(aln, op, mt)
                mt, rows = _spec_apply(mt, rows, op)
            w, st, a, b = inp["windows"]
            got = [x.to_dict() for x in aln.sliding_windows(w, st, start=a, end=b)]
        except Exception as e:
            got = {"err": type(e).__name__}
        want = _windows_oracle(rows, *inp["windows"])
        return None if got == want else dict(what="sliding_windows", input=inp, expected=want, got=got, sig=sig)
    if "method" in inp:
        # force the method comparison
        global READ_ONLY
        saved = READ_ONLY
        try:
            READ_ONLY = [m for m in saved if m[0] == inp["method"]] * 5

            class R(random.Random):
                def random(self):
                    return 0.0

            _run_history(out, R(0), inp["moltype"], inp["rows"], inp["ops"], arr)
        finally:
            READ_ONLY = saved
    else:
        _run_history(out, rng, inp["moltype"], inp["rows"], inp["ops"], arr, check_methods=False)
    for f in out["failures"]:
        if sig is None or f["sig"] == sig:
            return f
    return None


def check_witness(ctx, w):
    return _replay_input(w, w.get("sig"))


def replay(ctx, data):
    f = data.get("failing_input") or {}
    inp = f.get("input")
    if not inp or ("rows" not in inp and "impl" not in inp):
        print("input", inp, "expected", f.get("expected"), "got", f.get("got"))
        return False
    r = _replay_input(inp, None)
    if r:
        print("expected", r["expected"], "got", r["got"])
    return r is not None
