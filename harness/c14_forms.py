"""C14 — the OTHER ways a composed app is handed its inputs (spec stream, independent oracle = the app on each input alone).

`observe_at` of the property names three observation points; the generated apply_to runs of c14.py use one input
form only (a list of path strings, show_progress=False).  This stream reaches the rest of `_as_completed` / `_apply_to`:

  * `list(app.as_completed(inputs, …))` called DIRECTLY, on
      - a writer-less composition loader + generic*            (`self._source_wrapped`)
      - a loader-less composition generic+ over in-memory records that carry `.source`
      - a composition ending in a writer                       (`self.input._source_wrapped`; nothing is written)
  * the input given as a list, a tuple, ONE str, ONE pathlib.Path (apply_to), a generator-free `DataStoreDirectory`
    of input files (members are `DataMember`s; `dstore.completed` is what is processed)
  * show_progress True / False, serial and parallel (any max_workers), per-record sleeps in parallel runs
  * every per-record outcome of gen_pipeline (success, exception, None, wrong type, returned NotCompleted, dropped source)

Oracle: every input appears exactly once among the results, under ITS OWN source, and the value travelling with that
source is what a fresh copy of the app returns on that input alone; for apply_to the store holds one record per input.
"""
from __future__ import annotations

import os

from .common import add_failure, bump, new_outcome


def _mk_inputs(ctx, base, members, form, tagn):
    """returns (the object handed to as_completed/apply_to, [the per-input values a fresh app is called on])"""
    from pathlib import Path

    from .c14 import _ident

    indir = base / f"in{tagn}"
    paths = [str(indir / f"{_ident(m)}.txt") for m in members]
    if form == "list":
        return list(paths), paths
    if form == "tuple":
        return tuple(paths), paths
    if form == "str":
        return paths[0], paths[:1]
    if form == "path":
        return Path(paths[0]), paths[:1]
    if form == "dstore":
        from cogent3.app.data_store import DataStoreDirectory

        indir.mkdir(parents=True, exist_ok=True)
        for p in paths:
            Path(p).write_text("x")
        return DataStoreDirectory(indir, mode="r", suffix="txt"), paths
    raise ValueError(form)


def _src_member(src):
    """the input a result says it came from -> member index (independent of cogent3's get_data_source)"""
    from .c14_apps import member_index

    for _ in range(3):
        nxt = getattr(src, "source", None)
        if nxt is None or isinstance(src, (str, os.PathLike)):
            break
        src = nxt
    src = getattr(src, "unique_id", src)
    return member_index(str(src))


def _qualified(src):
    """directory-qualified identifier '<parent dir>-<stem>' of what a result says it came from"""
    from .c14_apps import dir_qualified_id

    return dir_qualified_id(getattr(src, "unique_id", src))


def _fresh_on(spec, comp, x):
    """a FRESH app (no writer) called on one input alone"""
    from . import c14_apps as A
    from .c14 import build_inner, canon_value

    if comp == "steps":
        app = _steps_only(spec)
        return canon_value(app(A.RecA(x, source=f"{A.member_name(x)}.txt")))
    return canon_value(build_inner(spec, False)(x))


def _steps_only(spec):
    from . import c14_apps as A

    app = None
    for i, st in enumerate(spec["steps"], 1):
        cls = getattr(A, f"c14_step{i}{st['flavour']}")
        s = cls(plan={str(k): v for k, v in st["rules"].items()}, default=st["default"])
        app = s if app is None else app + s
    return app


def as_completed_case(ctx, w):
    """one direct as_completed call; returns a failure dict or None.  `w` is JSON-able (it is the replay)."""
    from cogent3.app.data_store import DataStoreDirectory
    from cogent3.app.io import write_json

    from . import c14_apps as A
    from .c14 import build_inner, canon_value

    ctx._c14wt = getattr(ctx, "_c14wt", 0) + 1
    base = ctx.scratch / f"c14_asc_{ctx._c14wt}"
    base.mkdir(exist_ok=True)
    spec = _spec_from_json(w["spec"], w["members"])
    members, comp, form = w["members"], w["comp"], w["form"]
    if comp == "steps":
        inputs = [A.RecA(m, source=f"{A.member_name(m)}.txt") for m in members]
        if form == "tuple":
            inputs = tuple(inputs)
        alone_on = list(members)
        app = _steps_only(spec)
    else:
        inputs, alone_on = _mk_inputs(ctx, base, members, form, 0)
        app = build_inner(spec, with_sleep=bool(w.get("parallel")))
        if comp == "writer":
            ds = DataStoreDirectory(str(base / "out"), mode="w", suffix="json")
            app = app + write_json(data_store=ds)
    kw = dict(show_progress=bool(w.get("show_progress")))
    if w.get("parallel"):
        kw.update(parallel=True, par_kw=dict(max_workers=w.get("max_workers", 2)))
    exc, got, src_types = None, [], []
    try:
        for r in app.as_completed(inputs, **kw):
            src = getattr(r, "source", None)
            got.append([_src_member(src), canon_value(getattr(r, "obj", r)), _qualified(src)])
            src_types.append(type(src).__name__)
    except Exception as e:  # noqa
        exc = f"{type(e).__name__}: {e}"[:200]
    # identifiers by base name AND by directory + name: a caller-supplied id_from_source may use any part of the input
    exp = [[(x if comp == "steps" else _src_member(x)), _fresh_on(spec, comp, x), (_qualified(f"{A.member_name(x)}.txt") if comp == "steps" else _qualified(os.path.basename(x) if form == "dstore" else x))]
           for x in alone_on]
    key = lambda p: (p[0] is None, p[0] if p[0] is not None else 0, repr(p[1]))  # noqa: E731
    if exc or sorted(got, key=key) != sorted(exp, key=key):
        out = new_outcome()
        ids_g, ids_e = sorted(str(p[0]) for p in got), sorted(str(p[0]) for p in exp)
        cls = "raises" if exc else ("inputs-not-once" if ids_g != ids_e else
                                    ("source-not-the-input" if sorted(p[2] for p in got) != sorted(p[2] for p in exp) else "value-differs"))
        add_failure(out, "spec", f"list(app.as_completed(inputs)) [{comp} composition, input form {form}, "
                    f"{'parallel' if w.get('parallel') else 'serial'}, show_progress={bool(w.get('show_progress'))}]: the results are not "
                    "'every input exactly once, under its own source, with the value the app returns on that input alone'",
                    dict(w), exp, dict(exc=exc, results=got), sig=f"as_completed:{comp}:{form}:{cls}")
        return out["failures"][0]
    want_type = {"steps": "RecA", "inner": "str", "writer": "str"}[comp] if form != "dstore" else "DataMember"
    if any(t != want_type for t in src_types):
        out = new_outcome()
        add_failure(out, "corr", "as_completed: the source travelling with a result is not the input object itself (model: the proxy keeps its source)",
                    dict(w), want_type, sorted(set(src_types)), confirmed=False)
        return out["failures"][0]
    if not w.get("parallel") and [p[0] for p in got] != [p[0] for p in exp] and form != "dstore":
        out = new_outcome()
        add_failure(out, "corr", "serial as_completed does not return results in input order (Lean serialResults / serial_in_order)",
                    dict(w), [p[0] for p in exp], [p[0] for p in got], confirmed=False)
        return out["failures"][0]
    return None


def apply_form_case(ctx, w):
    """apply_to with the input given in another form (tuple / one str / one Path / an input data store) and show_progress"""
    from .c14 import _compare_run, _spec_brief, canon_value, build_inner, _ident

    ctx._c14wt = getattr(ctx, "_c14wt", 0) + 1
    base = ctx.scratch / f"c14_apf_{ctx._c14wt}"
    base.mkdir(exist_ok=True)
    spec = _spec_from_json(w["spec"], w["members"])
    inputs, alone_on = _mk_inputs(ctx, base, w["members"], w["form"], 0)
    res = _run_apply_obj(ctx, base, spec, inputs, w["store"], bool(w.get("parallel")), w.get("max_workers", 2), bool(w.get("show_progress")))
    expected = {}
    for x in alone_on:
        expected[_src_member(x)] = canon_value(build_inner(spec, False)(x))
    out = new_outcome()
    ok = _compare_run(out, "spec", spec, w["members"], res, expected, f"apply_to(input form {w['form']}, show_progress={bool(w.get('show_progress'))}): store vs app(x) alone",
                      dict(w), f"apply-form:{w['form']}:")
    return None if ok and not out["failures"] else out["failures"][0]


def qualified_case(ctx, w):
    """apply_to(inputs, id_from_source=<directory + file name>) where the same file names occur in several directories; serial or
    parallel, both store classes: every input has exactly one record under ITS identifier, equal to the fresh app on that input alone"""
    from . import c14_apps as A
    from .c14 import build_inner, canon_value

    ctx._c14wt = getattr(ctx, "_c14wt", 0) + 1
    base = ctx.scratch / f"c14_qid_{ctx._c14wt}"
    base.mkdir(exist_ok=True)
    spec = _spec_from_json(w["spec"], [m for _, m in w["inputs"]])
    paths = [str(base / d / f"{A.member_name(m)}.txt") for d, m in w["inputs"]]
    res = _run_apply_obj(ctx, base, spec, paths, w["store"], bool(w.get("parallel")), w.get("max_workers", 2), False, id_from_source=A.dir_qualified_id,
                         raw_ids=True)
    expected = {A.dir_qualified_id(p): canon_value(build_inner(spec, False)(p)) for p in paths}
    got = res["recs"]
    problem = None
    if res["exc"]:
        problem = ("apply_to-raises", "no exception", res["exc"])
    elif res["dup"]:
        problem = ("record-duplicated", [], res["dup"])
    elif sorted(got) != sorted(expected):
        problem = ("record-missing" if set(expected) - set(got) else "record-extra", sorted(expected), sorted(got))
    else:
        bad = sorted(k for k in expected if expected[k] != got[k])
        if bad:
            problem = ("record-content-differs", {k: expected[k] for k in bad}, {k: got[k] for k in bad})
    if problem:
        out = new_outcome()
        add_failure(out, "spec", f"apply_to with id_from_source = directory + file name over inputs sharing base names across directories "
                    f"({'parallel' if w.get('parallel') else 'serial'}, {w['store']} store): the records are not one per input under the input's own identifier",
                    dict(w), problem[1], problem[2], sig=f"qualified-id:{problem[0]}")
        return out["failures"][0]
    return None


def _run_apply_obj(ctx, base, spec, inputs, store_kind, parallel, max_workers, show_progress, id_from_source=None, raw_ids=False):
    from cogent3.app.data_store import DataStoreDirectory
    from cogent3.app.io import write_db, write_json
    from cogent3.app.sqlite_data_store import DataStoreSqlite

    from .c14 import build_inner, observe_store

    outdir = str(base / ("out" if store_kind == "dir" else "out.sqlitedb"))
    if store_kind == "dir":
        ds = DataStoreDirectory(outdir, mode="w", suffix="json")
        writer = write_json(data_store=ds)
    else:
        ds = DataStoreSqlite(outdir, mode="w")
        writer = write_db(data_store=ds)
    app = build_inner(spec, with_sleep=parallel) + writer
    exc = None
    try:
        kw = dict(parallel=True, par_kw=dict(max_workers=max_workers)) if parallel else {}
        if id_from_source is not None:
            kw["id_from_source"] = id_from_source
        app.apply_to(inputs, logger=False, show_progress=show_progress, **kw)
    except Exception as e:  # noqa
        exc = f"{type(e).__name__}: {e}"[:200]
    if hasattr(ds, "close"):
        ds.close()
    fresh = DataStoreDirectory(outdir, mode="r", suffix="json") if store_kind == "dir" else DataStoreSqlite(outdir, mode="r")
    recs, dup = observe_store(fresh, store_kind)
    if hasattr(fresh, "close"):
        fresh.close()
    return dict(exc=exc, order=[], recs=recs, dup=dup, session_dup=[], took=0, outdir=outdir)


def _spec_to_json(spec):
    from .c14 import _spec_brief

    return _spec_brief(spec)


def _spec_from_json(s, members):
    return dict(loader=dict(rules={int(k): v for k, v in s["loader"]["rules"].items()}, default=s["loader"]["default"]),
                steps=[dict(flavour=x["flavour"], rules={int(k): v for k, v in x["rules"].items()}, default=x["default"]) for x in s["steps"]],
                sleeps={int(k): v for k, v in (s.get("sleeps") or {}).items()}, members=list(members), outcome={}, fn_step=bool(s.get("fn_step")))


def forms_stream(ctx, out, budget):
    """called from spec_check; cached per budget class like the other real-run streams"""
    from .c14 import gen_pipeline

    cache = ctx.__dict__.setdefault("_c14forms", {})
    key = 1 if budget in (1, 10) else budget
    if key not in cache:
        rng = ctx.subrng(f"forms{key}")
        cases = []
        n_asc = ctx.budget(20, 240) * (1 if key == 1 else 2)
        n_par = ctx.budget(2, 16) * (1 if key == 1 else 2)
        combos = [(c, f) for c in ("inner", "writer") for f in ("list", "tuple", "str", "dstore")] + [("steps", "list"), ("steps", "tuple")]
        for i in range(n_asc + n_par):
            parallel = i >= n_asc
            comp, form = combos[i % len(combos)] if not parallel else rng.choice([("inner", "list"), ("writer", "dstore"), ("inner", "dstore"), ("writer", "list")])
            n_rec = rng.randint(1, 7) if not parallel else rng.randint(4, 8)
            spec = gen_pipeline(rng, n_rec, allow_sleep=parallel, family=rng.random() < 0.3)
            if comp == "steps":
                if not spec["steps"]:
                    spec["steps"] = [dict(flavour="a", rules={}, default=["ret", 2, 1])]
                spec["fn_step"] = False
            w = dict(kind="as_completed", comp=comp, form=form, members=list(spec["members"]), spec=_spec_to_json(spec), parallel=parallel,
                     max_workers=rng.randint(1, 5), show_progress=rng.random() < 0.5)
            cases.append((w, as_completed_case(ctx, w)))
        n_apf = ctx.budget(9, 120) * (1 if key == 1 else 2)
        forms = ["tuple", "str", "path", "dstore", "dstore", "list"]
        for i in range(n_apf):
            form = forms[i % len(forms)]
            spec = gen_pipeline(rng, rng.randint(1, 7), allow_sleep=False, family=rng.random() < 0.3)
            w = dict(kind="apply_form", form=form, members=list(spec["members"]), spec=_spec_to_json(spec), store=rng.choice(["dir", "dir", "sqlite"]),
                     parallel=False, show_progress=(True if form == "list" else rng.random() < 0.5))
            cases.append((w, apply_form_case(ctx, w)))
        # directory-qualified identifiers, shared base names across directories, serial and parallel, both store classes
        for i in range(ctx.budget(6, 80) * (1 if key == 1 else 2)):
            par = (i % 3 == 1) if not ctx.thorough and key == 1 else (i % 2 == 1)  # a parallel run costs a pool start-up: two per quick run
            spec = gen_pipeline(rng, rng.randint(2, 5), allow_sleep=par, family=rng.random() < 0.3)
            inputs = []
            for j, m in enumerate(spec["members"]):
                dirs = rng.sample(["batchA", "batchB", "batchC"], 2 if (j == 0 or rng.random() < 0.5) else 1)
                inputs += [[d, m] for d in dirs]
            rng.shuffle(inputs)
            w = dict(kind="qualified_id", form="list", inputs=inputs, members=[m for _, m in inputs], spec=_spec_to_json(spec), store=rng.choice(["dir", "sqlite"]),
                     parallel=par, max_workers=rng.choice([2, 3]), show_progress=False)
            cases.append((w, qualified_case(ctx, w)))
        cache[key] = cases
    for w, f in cache[key]:
        out["evaluations"] += 1
        bump(out, "forms", f"{w['kind']}:{w.get('comp', 'apply')}:{w['form']}" + (":parallel" if w.get("parallel") else ""))
        bump(out, "show_progress", str(bool(w.get("show_progress"))))
        if f:
            out["failures"].append(f)
        elif len(w["members"]) > 1 or w["form"] in ("str", "path"):
            out["nontrivial"].add(("forms", w["kind"], w.get("comp"), w["form"], tuple(w["members"])))


def replay_case(ctx, inp):
    if inp.get("kind") == "as_completed":
        return as_completed_case(ctx, inp)
    if inp.get("kind") == "apply_form":
        return apply_form_case(ctx, inp)
    if inp.get("kind") == "qualified_id":
        return qualified_case(ctx, inp)
    return None
