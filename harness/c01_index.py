"""C01 — spec-level stream `index`: integer indexing (and every other chain op) on views of EVERY kind, with
arguments chosen relative to the CURRENT displayed length.

The chains of `c01.spec_check` draw slice / index arguments relative to the PARENT length, so after one or two
slices the view is short and almost every later integer index is out of range: `view[i]` with `i` in range was
reached almost only on the unsliced (stride 1) sequence.  This stream closes that class:

* shaping ops (slices with strides 1..7 of both signs, rc) whose arguments are drawn relative to the current
  length, so strided forward / strided reversed / rc'd / empty / 1-long views of every residue class
  (span mod stride) are built on purpose;
* then integer indices covering [-L-1, L] exhaustively (small box) or drawn in range negative / non-negative /
  at the boundary / far out of range (random part), optionally followed by further ops on the 1-long result;
* for six implementations: old / new / collection-held `Sequence` objects and the three bare view classes
  (sequence.SeqView, new_sequence.SeqView, new_alignment.SeqDataView);
* the oracle is the plain string AND the list of parent positions it displays (the same python slice / index
  applied to `list(range(n))`), so after EVERY op the check is position exact: str / len, IndexError exactly
  when the plain string raises, and `parent_coordinates()` (or parent_start / parent_stop of a bare view) must
  name exactly the displayed parent positions -- for a 1-long result exactly `[p, p+1)` of the position `p`
  the plain string shows (a wrong position is seen even when the character there happens to be the same);
* CARRIER ops anywhere in a chain (Sequence kinds): `copy()`, `copy(exclude_annotations=True)`, `copy(sliced=False)`,
  `deserialise_object(seq.to_rich_dict())`, `deserialise_object(seq.to_json())` -- read-only methods that hand back
  "the same sequence" through the view's rich dict / a truncated parent.  The oracle leaves string, positions and
  orientation unchanged, so the carried object must display the same string and report the same parent segment of the
  ORIGINAL parent (annotation offsets 0 and 7, forward and reversed, strided, 1-long), and every later slice / index /
  rc on it must keep agreeing.
"""
from __future__ import annotations

import itertools

from .common import add_failure, bump

SEQ_KINDS = ("old", "new", "newcoll")
CARRIERS = ("copy", "copy_ex", "copy_unsliced", "rd", "json")


def carriers_for(kind):
    """collection-held sequences: only copy(sliced=False).  copy() / rich-dict round trips of a sliced collection member are
    listed findings (C01-seqdataview-copy-mutates-view, C01-seqdataview-rich-dict-double-slice), pinned by their witnesses
    on fresh objects every run; copy() there even MUTATES the shared view, so it must not be interleaved with other checks"""
    return ("copy_unsliced",) if kind == "newcoll" else CARRIERS
VIEW_KINDS = ("vold", "vnew", "vsdv")
_COMP = {
    "dna": str.maketrans("ACGTUacgtuNRYSWKMBDHV-?", "TGCAAtgcaaNYRSWMKVHDB-?"),
    "rna": str.maketrans("ACGUTacgutNRYSWKMBDHV-?", "UGCAAugcaaNYRSWMKVHDB-?"),
}


_IMPLS = None


class _State:
    __slots__ = ("kind", "mt", "text", "offset", "obj", "cur", "pos", "rev", "done")


def _comp(mt, s):
    t = _COMP.get(mt)
    return s.translate(t) if t else s


def start_state(kind, mt, text, offset):
    from . import c01

    st = _State()
    st.kind, st.mt, st.text, st.offset = kind, mt, text, offset
    if kind in VIEW_KINDS:
        name = {"vold": "old", "vnew": "new", "vsdv": "sdv"}[kind]
        global _IMPLS
        if _IMPLS is None:
            _IMPLS = c01._impls()
        _, mk, _ = _IMPLS[name]
        st.obj = mk(text, None, None, None, offset)
    else:
        st.obj = c01._mk_seq(kind, mt, text, offset)
    st.cur, st.pos, st.rev, st.done = text, list(range(len(text))), False, []
    return st


def _oracle(st, op):
    """plain-string oracle: (string, parent positions, orientation) after op; raises IndexError as python does.
    A bare view does not complement (the Sequence wrapper does, on a nucleic acid)."""
    k = op[0]
    comp = (lambda s: _comp(st.mt, s)) if st.kind in SEQ_KINDS else (lambda s: s)
    if k == "s":
        sl = slice(op[1], op[2], op[3])
        neg = (op[3] or 1) < 0
        cur = st.cur[sl]
        return (comp(cur) if neg else cur), st.pos[sl], (st.rev != neg)
    if k == "i":
        return st.cur[op[1]], [st.pos[op[1]]], st.rev
    if k == "rc":
        return comp(st.cur[::-1]), st.pos[::-1], (not st.rev)
    if k in CARRIERS:
        return st.cur, st.pos, st.rev
    raise ValueError(k)


def _apply(obj, op):
    k = op[0]
    if k == "s":
        return obj[slice(op[1], op[2], op[3])]
    if k == "i":
        return obj[op[1]]
    if k == "rc":
        return obj.rc()
    if k == "copy":
        return obj.copy()
    if k == "copy_ex":
        return obj.copy(exclude_annotations=True)
    if k == "copy_unsliced":
        return obj.copy(sliced=False)
    from cogent3.util.deserialise import deserialise_object

    if k == "rd":
        return deserialise_object(obj.to_rich_dict())
    if k == "json":
        return deserialise_object(obj.to_json())
    raise ValueError(k)


def _value(st, obj):
    if st.kind == "vold":
        return obj.value
    if st.kind in ("vnew", "vsdv"):
        return obj.str_value
    return str(obj)


def _coords(st, obj):
    """(seqid, start, stop, strand) -- of a bare view: from parent_start / parent_stop / sign of step"""
    if st.kind in VIEW_KINDS:
        return (obj.seqid if st.kind == "vsdv" else "s"), obj.parent_start, obj.parent_stop, (-1 if obj.step < 0 else 1)
    return tuple(obj.parent_coordinates())


def _coords_problem(st, obj, cur, pos):
    """the reported parent coordinates must name exactly the displayed parent positions `pos`"""
    try:
        sid, ps, pe, strand = _coords(st, obj)
    except Exception as e:  # noqa: BLE001
        return "parent coordinates raised", "coordinates", repr(e)
    if not pos:
        # an empty view displays no parent segment: nothing is claimed about the coordinates it reports
        # (the zero slice of the code forgets seqid and offset), only that asking does not raise
        return None
    want_sid = "a" if st.kind == "vsdv" else "s"
    off, n = st.offset, len(st.text)
    got = dict(coords=[sid, ps, pe, strand])
    if sid != want_sid or strand not in (1, -1):
        return "parent coordinates: seqid/strand", dict(seqid=want_sid, strand="1 or -1"), got
    if not (0 <= ps - off <= pe - off <= n):
        return "parent coordinates outside the parent", dict(bounds=[off, off + n]), got
    # the reported segment is read with the view's own stride (parent_coordinates() has no stride field; theorem
    # parent_coords_exact: displayed = range(start, stop)[::±1][::|step|]); with two or more displayed positions a
    # wrong stride cannot produce `pos`, with one position the segment [ps, pe) must be shorter than the stride
    try:
        stride = abs(obj.step if st.kind in VIEW_KINDS else obj._seq.step)
    except Exception:  # noqa: BLE001
        stride = abs(pos[1] - pos[0]) if len(pos) > 1 else 1
    seg = list(range(ps - off, pe - off))
    named = (seg if strand == 1 else seg[::-1])[::stride]
    if named != pos:
        return "parent coordinates do not name the displayed parent positions", dict(positions=pos, string=cur), dict(got, names=named)
    # orientation: the displayed characters are the parent's at those positions, complemented iff strand == -1
    shown = "".join(st.text[p] for p in pos)
    if strand == -1 and st.kind in SEQ_KINDS:
        shown = _comp(st.mt, shown)
    if shown != cur:
        return "parent coordinates name the wrong strand", dict(string=cur), dict(got, names=shown)
    return None


def step(st, op):
    """apply op to the real object and to the oracle; returns (new_state | None, problem | None);
    problem = (what, expected, got, sigtail)"""
    shape = ("rev" if st.rev else "fwd") + (":strided" if len(st.pos) > 1 and abs(st.pos[1] - st.pos[0]) > 1 else "") + (":empty" if not st.pos else "")
    done = st.done + [op]
    try:
        cur, pos, rev = _oracle(st, op)
        want_exc = None
    except IndexError:
        want_exc = "IndexError"
    try:
        obj = _apply(st.obj, op)
        got_exc = None
    except Exception as e:  # noqa: BLE001
        got_exc = "IndexError" if isinstance(e, IndexError) else type(e).__name__
    if want_exc or got_exc:
        if want_exc != got_exc:
            return None, ("exception differs from str semantics", want_exc, got_exc, f"exc:{op[0]}:{shape}", done)
        return None, None
    try:
        got = _value(st, obj)
        glen = len(obj)
    except Exception as e:  # noqa: BLE001
        return None, ("reading the view raised", cur, repr(e), f"read-raise:{op[0]}:{shape}", done)
    if got != cur or glen != len(cur):
        return None, (f"str/len differ from the plain string after {op[0]}", cur, got if got != cur else dict(len=glen), f"str:{op[0]}:{shape}", done)
    p = _coords_problem(st, obj, cur, pos)
    if p:
        return None, (p[0], p[1], p[2], f"coords:{op[0]}:{shape}", done)
    new = _State()
    new.kind, new.mt, new.text, new.offset = st.kind, st.mt, st.text, st.offset
    new.obj, new.cur, new.pos, new.rev, new.done = obj, cur, pos, rev, done
    return new, None


def run_chain(kind, mt, text, offset, ops):
    """-> problem tuple or None (used by the random part, by replay and by check_witness)"""
    st = start_state(kind, mt, text, offset)
    for op in ops:
        st, prob = step(st, op)
        if prob or st is None:
            return prob
    return None


# --------------------------------------------------------------------------
# generators (arguments relative to the CURRENT length L)
# --------------------------------------------------------------------------
def shape_op(rng, L):
    def arg():
        r = rng.random()
        if r < 0.3:
            return None
        if r < 0.9:
            return rng.randint(-L - 2, L + 2)
        return rng.choice([0, -1, L, -L, L - 1, -L - 1, L + 1, 10**12, -(10**12)])

    c = rng.choice([None, 1, 2, 2, 3, 3, 4, 5, 7, -1, -2, -2, -3, -3, -4, -5, -7])
    if rng.random() < 0.5:
        # long views on purpose: at most one bound given
        a, b = (arg(), None) if rng.random() < 0.5 else (None, arg())
        return ["s", a, b, c]
    return ["s", arg(), arg(), c]


def index_op(rng, L):
    r = rng.random()
    if L > 0 and r < 0.45:
        return ["i", rng.randint(-L, -1)]
    if L > 0 and r < 0.8:
        return ["i", rng.randint(0, L - 1)]
    if r < 0.92:
        return ["i", rng.choice([L, -L - 1, -L, L - 1, 0, -1])]
    return ["i", rng.choice([L + rng.randint(1, 5), -L - rng.randint(2, 6), 10**12, -(10**12)])]


FOLLOW = [["i", 0], ["i", -1], ["i", 1], ["i", -2], ["s", None, None, -1], ["s", 0, 1, None], ["s", 1, None, None],
          ["s", None, None, 2], ["s", -1, None, None], ["rc"]]

_ALPH = {"dna": "ACGT", "rna": "ACGU", "protein": "ACDEFGHIKLMNPQRSTVWY", "text": "ABCXYZ"}


def _fail(out, kind, mt, text, offset, prob):
    what, exp, got, sigtail, done = prob
    add_failure(out, "spec", f"[index stream] {what}", dict(impl=kind, moltype=mt, parent=text, offset=offset, chain=done, stream="index"),
                exp, got, sig=f"index:{kind}:{sigtail}")


def index_stream(ctx, out, budget):
    rng = ctx.subrng(f"index{budget}")
    out["rule"] += (
        "; plus stream `index`: length-aware shaping ops then integer indices covering [-L-1, L] (exhaustive box on 10-mers: 1 or 2 "
        "shaping ops x every index) and seeded random chains with in-range negative / non-negative / boundary / far indices and "
        "follow-up ops on the 1-long result, carrier ops (copy / copy(sliced=False) / rich-dict and json round trip) anywhere in the "
        "chain, on old/new/collection-held sequences and the three bare view classes, position-exact "
        "oracle (string + parent positions) after every op; non-trivial = an in-range index on a view of length >= 2"
    )
    # ---- exhaustive box --------------------------------------------------------------------------------------
    pre_all = [[], [["rc"]], [["s", None, None, 2]], [["s", None, None, -3]], [["s", 1, 9, 3]], [["s", 8, None, -2]], [["s", 4, 4, None]]]
    A = [None, 1, 2]
    B = [None, 7, 8, 9, -1]
    C = [1, 2, 3, 4, -1, -2, -3, -4]
    ncar = ctx.seed
    for kind in SEQ_KINDS + VIEW_KINDS:
        mt = "dna"
        text = "ACGGTCATTG"
        offset = 0 if kind in ("newcoll", "vsdv") else rng.choice([0, 7])
        pres = [p for p in pre_all if kind in SEQ_KINDS or ["rc"] not in p]
        # every run: the plain and two of the other prefixes (rotating with the seed) at budget 1, all of them when searching
        chosen = pres if budget > 1 else [pres[0]] + rng.sample(pres[1:], 2)
        for pre in chosen:
            base = start_state(kind, mt, text, offset)
            bad = False
            for op in pre:
                base, prob = step(base, op)
                out["evaluations"] += 1
                if prob:
                    _fail(out, kind, mt, text, offset, prob)
                    bad = True
                    break
            if bad or base is None:
                continue
            for a, b, c in itertools.product(A, B, C):
                if c < 0:
                    a, b = b, a
                v, prob = step(base, ["s", a, b, c])
                out["evaluations"] += 1
                if prob:
                    _fail(out, kind, mt, text, offset, prob)
                    continue
                if v is None:
                    continue
                L = len(v.cur)
                if kind in SEQ_KINDS:
                    # one carrier per view (rotating), then the view's last and first element through the carried object
                    ncar += 1
                    car = carriers_for(kind)[ncar % len(carriers_for(kind))]
                    cv, prob = step(v, [car])
                    out["evaluations"] += 1
                    bump(out, "index_carrier", car)
                    if prob:
                        _fail(out, kind, mt, text, offset, prob)
                    elif cv is not None:
                        for i in (-1, 0):
                            _, prob = step(cv, ["i", i])
                            out["evaluations"] += 1
                            if prob:
                                _fail(out, kind, mt, text, offset, prob)
                for i in range(-L - 1, L + 1):
                    r, prob = step(v, ["i", i])
                    out["evaluations"] += 1
                    if prob:
                        _fail(out, kind, mt, text, offset, prob)
                    elif r is not None and L >= 2:
                        out["nontrivial"].add(("index", kind, str(v.done), i))
                    bump(out, "index_box", ("neg" if i < 0 else "nonneg") + (":inrange" if -L <= i < L else ":IndexError"))
    # ---- seeded random ---------------------------------------------------------------------------------------
    for _ in range(1200 * budget):
        mt = rng.choice(["dna", "dna", "rna", "protein", "text"])
        n = rng.choice([1, 2, 3, 7, 10, 12, 30]) if rng.random() < 0.6 else rng.randint(0, 40)
        text = "".join(rng.choice(_ALPH[mt]) for _ in range(n))
        kind = rng.choice(SEQ_KINDS + VIEW_KINDS)
        if kind == "newcoll" and (not text or mt == "text"):
            kind = "new"
        offset = 0 if kind in ("newcoll", "vsdv") else rng.choice([0, 0, 7])
        try:
            st = start_state(kind, mt, text, offset)
        except Exception as e:  # noqa: BLE001
            add_failure(out, "spec", "make_seq raised", dict(impl=kind, moltype=mt, parent=text, offset=offset, chain=[], stream="index"), "sequence", repr(e), sig="make_seq-raised")
            continue
        nucleic = mt in ("dna", "rna") and kind in SEQ_KINDS
        plan = ["shape"] * rng.choice([0, 1, 1, 1, 2, 2, 3]) + ["index"] + rng.choice([[], [], ["follow"], ["follow", "index"], ["shape", "index"]])
        if kind in SEQ_KINDS and rng.random() < 0.35:
            # a carrier somewhere before the (last) index: the carried object is then sliced / indexed further
            plan.insert(rng.randint(0, len(plan) - 1), "carrier")
        hit = False
        for what in plan:
            L = len(st.cur)
            if what == "shape":
                op = ["rc"] if nucleic and rng.random() < 0.2 else shape_op(rng, L)
            elif what == "index":
                op = index_op(rng, L)
            elif what == "carrier":
                op = [rng.choice(carriers_for(kind))]
                bump(out, "index_carrier", op[0])
            else:
                op = rng.choice([f for f in FOLLOW if nucleic or f != ["rc"]])
            view_len, strided = L, len(st.pos) > 1 and abs(st.pos[1] - st.pos[0]) > 1
            was_rev = st.rev
            nxt, prob = step(st, op)
            out["evaluations"] += 1
            if prob:
                _fail(out, kind, mt, text, offset, prob)
                break
            if op[0] == "i":
                inr = -view_len <= op[1] < view_len
                bump(out, "index_on", ("rev" if was_rev else "fwd") + (":strided" if strided else "") + (":empty" if not view_len else "")
                     + (":neg" if op[1] < 0 else ":nonneg") + ("" if inr else ":IndexError"))
                if inr and view_len >= 2:
                    hit = True
            if nxt is None:
                break
            st = nxt
        if hit:
            out["nontrivial"].add(("index", kind, mt, text, offset, str(st.done)))
        bump(out, "index_impl", kind)
    return out


def replay_input(inp):
    """True if the recorded chain still fails"""
    prob = run_chain(inp["impl"], inp["moltype"], inp["parent"], inp.get("offset", 0), inp["chain"])
    if prob:
        print("index stream:", prob[0], "expected", prob[1], "got", prob[2])
    return prob is not None
