"""Importable (hence picklable) apps for the C14 / C19 ties.

Generated pipelines: a loader, up to four generic steps and a real cogent3 writer.  What a step
does with a record is given by a *plan* (payload -> rule, same rule encoding as the Lean codec
`Driver/C14Codec.lean`):
    ["ret", ty, delta]      return a record of class ty (2 = RecA, 3 = RecB), payload + delta, source kept
    ["retnosrc", ty, delta] same but without a source
    ["raise", tag]          raise RuntimeError(f"boom{tag}")
    ["none"]                return None
    ["nc", tag]             return NotCompleted("FAIL", self, f"user{tag}", source=record)
The loader additionally sleeps `sleeps[m]` seconds, which forces the completion order under
parallel execution.
"""

import re
import time
from typing import Union

from cogent3.app.composable import LOADER, NotCompleted, define_app
from cogent3.app.typing import IdentifierType, SerialisableType, UnalignedSeqsType


class RecA:
    ty = 2

    def __init__(self, val, source=None):
        self.val = val
        self.source = source

    def to_rich_dict(self):
        return {"ty": self.ty, "val": self.val, "source": self.source}


class RecB(RecA):
    ty = 3


_CLS = {2: RecA, 3: RecB}


# identifiers in suffix / prefix / substring relation to each other (members 900..)
FAMILY = ["a1", "ba1", "cba1", "a1b", "1a", "a", "x1y", "1", "ba", "b"]


def member_name(m):
    return FAMILY[m - 900] if m >= 900 else f"r{m:03d}"


def member_index(name):
    """'…/r007.txt' -> 7 ; '…/ba1.txt' -> 901"""
    base = str(name).split("/")[-1]
    for ext in (".txt", ".json"):
        if base.endswith(ext):
            base = base[: -len(ext)]
    if base in FAMILY:
        return 900 + FAMILY.index(base)
    m = re.fullmatch(r"r(\d+)", base)
    return int(m.group(1)) if m else None


def _apply(app, rule, val, source, rec):
    k = rule[0]
    if k == "ret":
        return _CLS[rule[1]](val + rule[2], source=source)
    if k == "retnosrc":
        return _CLS[rule[1]](val + rule[2], source=None)
    if k == "raise":
        raise RuntimeError(f"boom{rule[1]}")
    if k == "none":
        return None
    if k == "nc":
        return NotCompleted("FAIL", app, f"user{rule[1]}", source=rec)
    if k == "seqs":  # a real sequence collection (for pipelines ending in write_seqs)
        import cogent3

        return cogent3.make_unaligned_seqs({"a": "ACGT" + "A" * (val % 7), "b": "GGT"}, moltype="dna", info={"source": source})
    raise ValueError(rule)


def _container_source(rec):
    """source of a container handed to a step: the proxy's source, else the first element's"""
    inner = getattr(rec, "obj", rec)
    if inner is not rec:
        return rec.source
    for x in inner:
        return getattr(x, "source", None)
    return None


def _plan_get(plan, key, default):
    return plan.get(str(key), plan.get(key, default))


@define_app(app_type=LOADER)
class c14_load:
    def __init__(self, plan=None, default=("ret", 2, 0), sleeps=None):
        self.plan = plan or {}
        self.default = list(default)
        self.sleeps = sleeps or {}

    def main(self, path: IdentifierType) -> Union[RecA, RecB, SerialisableType]:
        m = member_index(path)
        s = _plan_get(self.sleeps, m, 0)
        if s:
            time.sleep(s)
        return _apply(self, _plan_get(self.plan, m, self.default), m, str(path), path)


def _mk_step(i, flavour):
    """flavours: 'a' accepts RecA, 'ab' accepts RecA/RecB (both skip not-completed input, the define_app default);
    'na' accepts RecA and 'ns' accepts anything (SerialisableType), both with skip_not_completed=False: their main
    is handed NotCompleted values and treats them with the step's default rule on payload 0 (same as the Lean
    codec `applyRule … (.nc n)`), keeping the not-completed value's source"""
    name = f"c14_step{i}{flavour}"
    hint = {"a": "RecA", "ab": "Union[RecA, RecB]", "na": "RecA", "ns": "SerialisableType"}[flavour]
    src = f"""
class {name}:
    def __init__(self, plan=None, default=("ret", 2, 0)):
        self.plan = plan or {{}}
        self.default = list(default)

    def main(self, rec: {hint}) -> Union[RecA, RecB, SerialisableType]:
        if isinstance(rec, NotCompleted):
            return _apply(self, self.default, 0, rec.source, rec)
        if isinstance(getattr(rec, "obj", rec), (list, tuple, set)):
            # container data (bare or inside a source proxy): a record counting the elements (Lean codec C14Rich.parseStep)
            return RecA(len(rec), source=_container_source(rec))
        return _apply(self, _plan_get(self.plan, rec.val, self.default), rec.val, rec.source, rec)
"""
    ns = {}
    exec(src, globals(), ns)
    cls = ns[name]
    cls.__module__ = __name__
    cls.__qualname__ = name
    if flavour in ("na", "ns"):
        return define_app(skip_not_completed=False)(cls)
    return define_app(cls)


for _i in range(1, 5):
    for _f in ("a", "ab", "na", "ns"):
        globals()[f"c14_step{_i}{_f}"] = _mk_step(_i, _f)


def origin_index(name):
    """class name recorded as NotCompleted.origin -> model step name"""
    if name == "c14_load":
        return 0
    m = re.match(r"c14_step(\d)", name or "")
    if m:
        return int(m.group(1))
    if name == "c14_fn_step":
        return 5
    return {"write_json": 9, "write_db": 9, "write_seqs": 9}.get(name, -1)


# ---------------------------------------------------------------------------
# C19 resume tie: a loader that logs every input it processes, and a step that fails short inputs
# ---------------------------------------------------------------------------
@define_app(app_type=LOADER)
class c19_load:
    def __init__(self, log=None):
        self.log = log

    def main(self, path: IdentifierType) -> UnalignedSeqsType:
        import cogent3

        if self.log:
            with open(self.log, "a") as f:
                f.write(str(path).split("/")[-1] + "\n")
        return cogent3.load_unaligned_seqs(str(path), moltype="dna")


@define_app
class c19_check:
    def __init__(self, min_len=4):
        self.min_len = min_len

    def main(self, seqs: UnalignedSeqsType) -> UnalignedSeqsType:
        if min(len(str(s)) for s in seqs.seqs) < self.min_len:
            raise ValueError("sequence too short")
        return seqs


# ---------------------------------------------------------------------------
# a FUNCTION-style app (define_app on a def) with a mutable positional and a mutable keyword constructor
# argument, both mutated by the function: define_app must hand every call its own copy
# ---------------------------------------------------------------------------
@define_app
def c14_fn_step(rec: Union[RecA, RecB], seen, limit=1, log=None) -> Union[RecA, RecB, SerialisableType]:
    seen.append(rec.val)
    log = {} if log is None else log
    log["n"] = log.get("n", 0) + 1
    if len(seen) > limit or log["n"] > limit:
        # state leaked from an earlier record (or an earlier call)
        raise RuntimeError(f"boom{9000 + len(seen) * 10 + log['n']}")
    return RecA(rec.val, source=rec.source)


def make_fn_step():
    return c14_fn_step([], limit=1, log={})


# ---------------------------------------------------------------------------
# custom identifiers: same file names in different directories
# ---------------------------------------------------------------------------
def dir_qualified_id(src):
    """'…/batch1/geneB.txt' -> 'batch1-geneB' (not derivable from the basename alone)"""
    from pathlib import Path

    s = getattr(src, "source", src)
    s = getattr(s, "source", s)
    p = Path(str(s))
    return f"{p.parent.name}-{p.stem}"


@define_app(app_type=LOADER)
class c14_load_named:
    """what to do is keyed by 'dir/stem'; kinds: rec / seqs / table / raise"""

    def __init__(self, plan=None):
        self.plan = plan or {}

    def main(self, path: IdentifierType) -> SerialisableType:
        from pathlib import Path

        import cogent3

        p = Path(str(path))
        kind = self.plan.get(f"{p.parent.name}/{p.stem}", "rec")
        if kind == "raise":
            raise RuntimeError(f"boom {p.parent.name}/{p.stem}")
        if kind == "seqs":
            return cogent3.make_unaligned_seqs({"a": "ACGT" + "A" * len(p.parent.name), "b": "GGT"}, moltype="dna", info={"source": str(path)})
        if kind == "table":
            t = cogent3.make_table(header=["x", "y"], data=[[1, len(p.stem)], [2, 3]])
            t.source = str(path)
            return t
        return RecA(len(p.stem), source=str(path))


# ---------------------------------------------------------------------------
# apps with plain (non-serialisable) type hints, a writer and a non-composable app: operands for the `_add` tie
# ---------------------------------------------------------------------------
from cogent3.app.composable import NON_COMPOSABLE, WRITER  # noqa: E402


@define_app
class c14_t_a2a:
    def main(self, rec: RecA) -> RecA:
        return rec


@define_app
class c14_t_a2b:
    def main(self, rec: RecA) -> RecB:
        return RecB(rec.val, source=rec.source)


@define_app
class c14_t_b2ab:
    def main(self, rec: RecB) -> Union[RecA, RecB]:
        return rec


@define_app
class c14_t_ab2s:
    def main(self, rec: Union[RecA, RecB]) -> SerialisableType:
        return rec


@define_app
class c14_t_s2a:
    def main(self, rec: SerialisableType) -> RecA:
        return rec


@define_app(app_type=LOADER)
class c14_t_load_a:
    def main(self, path: IdentifierType) -> RecA:
        return RecA(0, source=str(path))


@define_app(app_type=WRITER)
class c14_t_write_a:
    def main(self, data: RecA, identifier=None) -> IdentifierType:
        return identifier


@define_app(app_type=WRITER)
class c14_t_write_s:
    def main(self, data: SerialisableType, identifier=None) -> IdentifierType:
        return identifier


@define_app(app_type=NON_COMPOSABLE)
class c14_t_noncomp:
    def main(self, rec: RecA) -> RecA:
        return rec


ADD_POOL = ["c14_t_a2a", "c14_t_a2b", "c14_t_b2ab", "c14_t_ab2s", "c14_t_s2a", "c14_t_load_a", "c14_t_write_a", "c14_t_write_s",
            "c14_t_noncomp", "c14_load", "c14_step1a", "c14_step2ab", "c14_step3ns"]
