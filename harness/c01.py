"""C01 — Sequence views obey the slice / reverse-complement algebra."""
from __future__ import annotations

import ast
import itertools

from .common import SRC, add_failure, bump, new_outcome
from .c01_gen import GEN_PROOFS, gen_corr, generate  # noqa: F401  (translator tie: generate() runs first on every check)

PROP = "C01"
PROPS_FILES = ["CogentModel/Props/C01.lean", GEN_PROOFS]  # the per-function equivalence theorems are obligations too
LEAN_TARGETS = ["CogentModel.Props.C01"]
DRIVER = "drv_c01"
TRUSTED = [
    "hand-written model lean/CogentModel/Model/View.lean of SliceRecordABC/SeqView arithmetic "
    "(tied by exhaustive-box + random correspondence against sequence.SeqView, new_sequence.SeqView, new_alignment.SeqDataView)",
    "Spec/PySlice.lean (slice.indices + range, index), validated against CPython str slicing/indexing each run; "
    "the plain-string side of the chain theorem (SeqWrap.specRun) is validated against CPython str operations (specchain stream)",
]
ASSUMPTIONS = [
    "Sequence wrapper: __str__/__len__/__getitem__/rc are modelled in lean/CogentModel/Model/SeqWrap.lean (tied by the seqchain correspondence stream "
    "against old- and new-style DNA/RNA/protein sequences with the moltypes' own complement tables); to_rna/to_dna and the ~read-only methods "
    "are exercised by the spec-level differential only",
    "cogent3 moltype complement tables are those checked by C12",
]

DNA_COMP = str.maketrans("ACGTUacgtuNRYSWKMBDHV-?", "TGCAAtgcaaNYRSWMKVHDB-?")
RNA_COMP = str.maketrans("ACGUTacgutNRYSWKMBDHV-?", "UGCAAugcaaNYRSWMKVHDB-?")


# --------------------------------------------------------------------------
# real implementations
# --------------------------------------------------------------------------
def _impls():
    from cogent3.core import new_alignment, new_moltype, new_sequence, sequence

    alpha = new_moltype.get_moltype("text").most_degen_alphabet() if hasattr(
        new_moltype.get_moltype("text"), "most_degen_alphabet"
    ) else None
    dna_alpha = new_moltype.get_moltype("dna").most_degen_alphabet()

    def mk_old(parent, start, stop, step, offset):
        return sequence.SeqView(seq=parent, start=start, stop=stop, step=step, offset=offset)

    def mk_new(parent, start, stop, step, offset):
        return new_sequence.SeqView(seq=parent, alphabet=dna_alpha, start=start, stop=stop, step=step, offset=offset)

    def mk_sdv(parent, start, stop, step, offset):
        sd = new_alignment.SeqsData(data={"a": parent}, alphabet=dna_alpha)
        return new_alignment.SeqDataView(
            seq=sd, seqid="a", seq_len=len(parent), start=start, stop=stop, step=step, offset=offset
        )

    return {
        "old": ("seqview", mk_old, lambda v: v.value),
        "new": ("seqview", mk_new, lambda v: v.str_value),
        "sdv": ("seqdataview", mk_sdv, lambda v: v.str_value),
    }


def _state(v):
    d = dict(start=v.start, stop=v.stop, step=v.step, offset=v.offset, seq_len=v.seq_len, len=len(v))
    for k in ("parent_start", "parent_stop"):
        try:
            d[k] = getattr(v, k)
        except AssertionError:
            d[k] = {"err": "AssertionError"}
    return d


def _errname(e):
    for k in ("ValueError", "IndexError", "AssertionError"):
        if isinstance(e, getattr(__builtins__, k, None) or eval(k)):
            return k
    return type(e).__name__


def _run_real(mk, parent, init, ops):
    """returns list of states (dict) — stops at first error"""
    out = []
    try:
        v = mk(parent, *init)
    except (ValueError, IndexError, AssertionError) as e:
        return [{"err": _errname(e)}], []
    out.append(_state(v))
    views = [v]
    for op in ops:
        try:
            if op[0] == "s":
                v = v[slice(op[1], op[2], op[3])]
            else:
                v = v[op[1]]
        except (ValueError, IndexError, AssertionError) as e:
            out.append({"err": _errname(e)})
            break
        out.append(_state(v))
        views.append(v)
    return out, views


def _strip(st):
    return {k: v for k, v in st.items() if k != "rd"}


ARGS_SMALL = [None, -9, -5, -3, -2, -1, 0, 1, 2, 3, 5, 9]
STEPS = [None, 1, 2, 3, -1, -2, -3]


def _rand_arg(rng, n):
    r = rng.random()
    if r < 0.15:
        return None
    if r < 0.8:
        return rng.randint(-n - 2, n + 2)
    if r < 0.9:
        return rng.choice([0, -1, n, -n, n - 1, -n - 1, n + 1])
    return rng.randint(-(10**12), 10**12)


def _rand_step(rng, allow_zero=False):
    r = rng.random()
    if allow_zero and r < 0.02:
        return 0
    if r < 0.15:
        return None
    return rng.choice([1, 1, 2, 3, 4, 7, -1, -1, -2, -3, -4, -7])


def _rand_op(rng, n):
    if rng.random() < 0.15:
        return ["i", rng.randint(-n - 2, n + 2)]
    return ["s", _rand_arg(rng, n), _rand_arg(rng, n), _rand_step(rng, allow_zero=True)]


def _ast_same():
    """the two python modules carry the same SliceRecordABC code (informational)"""

    def funcs(path, cls):
        t = ast.parse(path.read_text())
        out = {}
        for n in t.body:
            if isinstance(n, ast.ClassDef) and n.name == cls:
                for f in n.body:
                    if isinstance(f, ast.FunctionDef):
                        b = f.body
                        if b and isinstance(b[0], ast.Expr) and isinstance(getattr(b[0], "value", None), ast.Constant):
                            b = b[1:]
                        out[f.name] = ast.dump(ast.Module(body=b, type_ignores=[]))
            if isinstance(n, ast.FunctionDef) and n.name.startswith("_input_vals"):
                out[n.name] = ast.dump(ast.Module(body=n.body, type_ignores=[]))
        return out

    a = funcs(SRC / "core" / "sequence.py", "SliceRecordABC")
    b = funcs(SRC / "core" / "new_sequence.py", "SliceRecordABC")
    return sorted(k for k in set(a) & set(b) if a[k] != b[k])


# --------------------------------------------------------------------------
# correspondence: Lean model vs the three real view classes; PySlice vs CPython
# --------------------------------------------------------------------------
def correspondence(ctx):
    out = new_outcome(
        "view chains: exhaustive constructor box (n<=5, args in small set, all steps) and depth-1 ops on n<=4, "
        "then seeded random chains depth 1-6 on n<=40 with huge/None/out-of-range args; non-trivial = distinct "
        "(flavour, n, init, ops) whose final view is non-empty or raises"
    )
    impls = _impls()
    rng = ctx.subrng("corr")
    cases = []  # (n, init(start,stop,step,offset), ops)
    # exhaustive constructor box
    for n in range(0, 6):
        for a, b, c in itertools.product(ARGS_SMALL, ARGS_SMALL, STEPS + [0]):
            cases.append((n, (a, b, c, 0), []))
    # depth-1 ops exhaustively on small views
    small_args = [None, -6, -4, -2, -1, 0, 1, 2, 4, 6]
    for n in range(0, 5):
        for init in [(None, None, None), (1, None, None), (None, -1, 2), (None, None, -1), (-2, None, -1), (None, None, -2), (1, 4, 1), (3, 0, -1)]:
            for a, b, c in itertools.product(small_args, small_args, [None, 1, 2, -1, -2, 3, -3]):
                cases.append((n, (*init, 0), [["s", a, b, c]]))
            for i in range(-6, 7):
                cases.append((n, (*init, 0), [["i", i]]))
    nrand = ctx.budget(25000, 400000)
    for _ in range(nrand):
        n = rng.choice([0, 1, 2, 3, 5, 8, 13, 21, 40]) if rng.random() < 0.7 else rng.randint(0, 40)
        init = (_rand_arg(rng, n), _rand_arg(rng, n), _rand_step(rng, True), rng.choice([0, 0, 3, 17]))
        ops = [_rand_op(rng, n) for _ in range(rng.randint(1, 6))]
        cases.append((n, init, ops))

    parent_of = lambda n: ("ACGTTGCAAG" * 5)[:n]
    flav = {"old": "seqview", "new": "seqview", "sdv": "seqdataview"}
    # one model run per flavour
    reqs = {}
    for fl in ("seqview", "seqdataview"):
        reqs[fl] = ctx.driver.batch(
            [
                ("chain", dict(fl=fl, n=n, start=i[0], stop=i[1], step=i[2], offset=i[3], ops=ops))
                for n, i, ops in cases
            ]
        )
    for name, (fl, mk, val) in impls.items():
        model = reqs[fl]
        for idx, (n, init, ops) in enumerate(cases):
            parent = parent_of(n)
            real, views = _run_real(mk, parent, init, ops)
            out["evaluations"] += 1
            exp = [_strip(s) for s in model[idx]]
            if real != exp:
                add_failure(
                    out, "corr", f"view-state mismatch ({name})",
                    dict(impl=name, n=n, init=init, ops=ops), exp, real, confirmed=False,
                )
                continue
            last = real[-1]
            if "err" in last:
                bump(out, "final", "raises:" + last["err"])
                out["nontrivial"].add((name, n, init, str(ops)))
            elif last["len"] > 0:
                bump(out, "final", "nonempty")
                out["nontrivial"].add((name, n, init, str(ops)))
            else:
                bump(out, "final", "empty")
            bump(out, "depth", len(ops))
            # rich-dict truncation bounds (SeqView classes only)
            if fl == "seqview" and views:
                v = views[-1]
                rd = model[idx][len(views) - 1]["rd"]
                try:
                    got = v.to_rich_dict()["init_args"]["seq"]
                    want = v.seq[rd[0] : rd[1]]
                    if got != want:
                        add_failure(out, "corr", f"to_rich_dict bounds mismatch ({name})", dict(impl=name, n=n, init=init, ops=ops), want, got, confirmed=False)
                except Exception as e:  # pragma: no cover
                    add_failure(out, "corr", f"to_rich_dict raised ({name})", dict(impl=name, n=n, init=init, ops=ops), "no exception", repr(e), confirmed=False)
            if len(out["samples"]) < 6 and ops and "err" not in last and last["len"] > 1 and len(ops) > 1:
                out["samples"].append(dict(impl=name, n=n, init=init, ops=ops, final=last))

    # absolute/relative position + get_index on explicit reachable views
    pos_reqs, pos_real = [], []
    mk_old = impls["old"][1]
    mk_new = impls["new"][1]
    for _ in range(ctx.budget(4000, 60000)):
        n = rng.randint(0, 25)
        init = (_rand_arg(rng, n), _rand_arg(rng, n), _rand_step(rng), rng.choice([0, 0, 5]))
        mkr = rng.choice([mk_old, mk_new])
        try:
            v = mkr(parent_of(n), *init)
            for op in [_rand_op(rng, n) for _ in range(rng.randint(0, 2))]:
                v = v[slice(*op[1:])] if op[0] == "s" else v[op[1]]
        except (ValueError, IndexError):
            continue
        which = rng.choice(["abs", "rel", "idx"])
        x = rng.randint(-3, len(v) + 3) if which != "rel" else rng.randint(-2, n + v.offset + 3)
        flag = rng.random() < 0.5
        try:
            if which == "abs":
                r = v.absolute_position(x, include_boundary=flag)
            elif which == "rel":
                r = v.relative_position(x, stop=flag)
            else:
                r = list(v._get_index(x, include_boundary=flag))
        except (IndexError, AssertionError) as e:
            r = {"err": _errname(e)}
        pos_reqs.append(("pos", dict(start=v.start, stop=v.stop, step=v.step, offset=v.offset, seq_len=v.seq_len, x=x, flag=flag, which=which)))
        pos_real.append(r)
    for (cmd, rq), real, mod in zip(pos_reqs, pos_real, ctx.driver.batch(pos_reqs)):
        out["evaluations"] += 1
        bump(out, "pos", rq["which"])
        if real != mod:
            add_failure(out, "corr", "position mismatch", rq, mod, real, confirmed=False)
        elif not isinstance(real, dict):
            out["nontrivial"].add(("pos", tuple(sorted(rq.items()))))

    # the spec itself against CPython
    sp = []
    for n in range(0, 7):
        for a, b, c in itertools.product([None] + list(range(-8, 9)), [None] + list(range(-8, 9)), [1, 2, 3, -1, -2, -3]):
            sp.append((n, a, b, c))
    for (n, a, b, c), mod in zip(sp, ctx.driver.batch([("pyslice", dict(n=n, a=a, b=b, c=c)) for n, a, b, c in sp])):
        out["evaluations"] += 1
        want = list(range(n))[a:b:c]
        if want != mod:
            add_failure(out, "corr", "Spec.PySlice differs from CPython", dict(n=n, a=a, b=b, c=c), want, mod, confirmed=False)
    bump(out, "pyslice_vs_cpython", len(sp))
    # the spec's `xs[i]` (PySlice.index) against CPython str indexing, exhaustive small box
    ix = [(t, i) for t in ("", "a", "ab", "abcde", "ACGGTAAC") for i in range(-10, 11)]
    for (t, i), mod in zip(ix, ctx.driver.batch([("pyindex", dict(s=t, i=i)) for t, i in ix])):
        out["evaluations"] += 1
        try:
            want = t[i]
        except IndexError:
            want = {"err": "IndexError"}
        if want != mod:
            add_failure(out, "corr", "Spec.PySlice.index differs from CPython", dict(s=t, i=i), want, mod, confirmed=False)
    bump(out, "pyindex_vs_cpython", len(ix))
    # the plain-string side of seq_chain_spec (SeqWrap.specRun) against CPython str operations
    _spec_chain_corr(ctx, out)
    # the Sequence wrapper model (string level) against real old-/new-style sequences
    _seq_chain_corr(ctx, out)
    diff = _ast_same()
    if diff:
        ctx.notes.append(f"old/new SliceRecordABC functions whose AST differs: {diff}")
    return out


# --------------------------------------------------------------------------
# correspondence stream 2: Lean wrapper model (Model/SeqWrap.lean) vs real Sequence objects
# --------------------------------------------------------------------------
_SEQ_LETTERS = {"dna": "ACGT", "rna": "ACGU", "protein": "ACDEFGHIKLMNPQRSTVWY"}
_DEGEN = "NRYSWKMBDHV-?"


def _real_comp_table(kind, moltype):
    """the moltype's own complement table, read off `moltype.complement` one character at a time"""
    if moltype == "protein":
        return {}
    if kind == "old":
        import cogent3

        mt = cogent3.get_moltype(moltype)
    else:
        from cogent3.core import new_moltype

        mt = new_moltype.get_moltype(moltype)
    tbl = {}
    for ch in _SEQ_LETTERS[moltype] + _DEGEN:
        try:
            r = mt.complement(ch)
        except Exception:
            continue
        if isinstance(r, bytes):
            r = r.decode()
        r = str(r)
        if len(r) == 1 and r != ch:
            tbl[ch] = r
    return tbl


def _seq_state(seq):
    v = seq._seq
    return dict(str=str(seq), len=len(seq), start=v.start, stop=v.stop, step=v.step, seq_len=v.seq_len, parent=v.seq)


def _spec_chain_corr(ctx, out):
    """SeqWrap.specRun (the spec side of theorem seq_chain_spec) vs the same chain of CPython str operations"""
    rng = ctx.subrng("specchain")
    comp = {"A": "T", "T": "A", "C": "G", "G": "C", "R": "Y", "Y": "R", "K": "M", "M": "K"}
    tr = str.maketrans(comp)
    cases = []
    small = [None, -7, -3, -1, 0, 1, 3, 7]
    for a, b, c in itertools.product(small, small, [None, 1, 2, -1, -2]):
        cases.append((True, "ACGTRA", [["s", a, b, c]]))
        cases.append((False, "ACGTRA", [["s", a, b, c]]))
    for i in range(-8, 9):
        cases.append((True, "ACGTRA", [["rc"], ["i", i]]))
    for _ in range(ctx.budget(2000, 20000)):
        nucleic = rng.random() < 0.7
        n = rng.choice([0, 1, 2, 3, 7, 12, 30]) if rng.random() < 0.6 else rng.randint(0, 40)
        text = "".join(rng.choice("ACGTRYKMN-") for _ in range(n))
        ops = []
        for _ in range(rng.randint(1, 7)):
            if nucleic and rng.random() < 0.2:
                ops.append(["rc"])
            else:
                op = _rand_op(rng, n)
                if op[0] == "s" and op[3] == 0:
                    op[3] = None
                ops.append(op)
        cases.append((nucleic, text, ops))
    model = ctx.driver.batch([("specchain", dict(parent=t, nucleic=nuc, comp=comp, ops=ops)) for nuc, t, ops in cases])
    for (nuc, t, ops), mod in zip(cases, model):
        out["evaluations"] += 1
        cur = t
        try:
            for op in ops:
                if op[0] == "s":
                    cur = cur[slice(op[1], op[2], op[3])]
                    if nuc and (op[3] or 1) < 0:
                        cur = cur.translate(tr)
                elif op[0] == "i":
                    cur = cur[op[1]]
                else:
                    cur = cur[::-1].translate(tr)
            want = cur
        except IndexError:
            want = {"err": "IndexError"}
        if want != mod:
            add_failure(out, "corr", "SeqWrap.specRun differs from CPython str operations", dict(nucleic=nuc, parent=t, ops=ops, stream="specchain"), want, mod, confirmed=False)
        else:
            bump(out, "specchain_final", "raises" if isinstance(want, dict) else ("nonempty" if want else "empty"))
            if isinstance(want, dict) or want:
                out["nontrivial"].add(("specchain", nuc, t, str(ops)))


def _seq_chain_corr(ctx, out):
    rng = ctx.subrng("seqchain")
    tables = {(k, m): _real_comp_table(k, m) for k in ("old", "new") for m in ("dna", "rna", "protein")}
    for (k, m), t in tables.items():
        if m != "protein" and (len(t) < 4 or any(t.get(t[a]) != a for a in t)):
            add_failure(out, "corr", "real complement table is not an involution", dict(impl=k, moltype=m), "involution", t, confirmed=False)
    cases = []
    # exhaustive depth-1 on a short parent, then [op, rc] / [rc, op]
    small = [None, -7, -3, -1, 0, 1, 3, 7]
    for a, b, c in itertools.product(small, small, [None, 1, 2, -1, -2]):
        cases.append(("dna", "ACGTRA", [["s", a, b, c]]))
        if rng.random() < 0.25:
            cases.append(("dna", "ACGTRA", [["rc"], ["s", a, b, c], ["rc"]]))
    for i in range(-8, 9):
        cases.append(("rna", "ACGUYA", [["i", i]]))
        cases.append(("rna", "ACGUYA", [["rc"], ["i", i]]))
        cases.append(("protein", "ACDEFG", [["s", None, None, -1], ["i", i]]))
    for _ in range(ctx.budget(3000, 40000)):
        mt = rng.choice(["dna", "dna", "rna", "protein"])
        n = rng.choice([0, 1, 2, 3, 7, 12, 30]) if rng.random() < 0.6 else rng.randint(0, 40)
        letters = _SEQ_LETTERS[mt] + (_DEGEN if mt != "protein" and rng.random() < 0.3 else "")
        text = "".join(rng.choice(letters) for _ in range(n))
        ops = []
        for _ in range(rng.randint(1, 7)):
            if mt != "protein" and rng.random() < 0.2:
                ops.append(["rc"])
            else:
                ops.append(_rand_op(rng, n))
        cases.append((mt, text, ops))
    for kind in ("old", "new"):
        model = ctx.driver.batch(
            [("seqchain", dict(parent=text, nucleic=(mt != "protein"), comp=tables[(kind, mt)], ops=ops)) for mt, text, ops in cases]
        )
        for (mt, text, ops), mod in zip(cases, model):
            out["evaluations"] += 1
            inp = dict(impl=kind, moltype=mt, parent=text, ops=ops, stream="seqchain")
            try:
                seq = _mk_seq(kind, mt, text, 0)
            except Exception as e:
                add_failure(out, "corr", "make_seq raised (seqchain)", inp, "sequence", repr(e), confirmed=False)
                continue
            real = [_seq_state(seq)]
            for op in ops:
                try:
                    seq = _apply_real(seq, op)
                except (ValueError, IndexError, AssertionError) as e:
                    real.append({"err": _errname(e)})
                    break
                real.append(_seq_state(seq))
            if real != mod:
                k = next((i for i, (a, b) in enumerate(zip(real, mod)) if a != b), min(len(real), len(mod)))
                add_failure(
                    out, "corr", f"Sequence wrapper state differs from Model/SeqWrap ({kind})",
                    dict(inp, first_difference_after_ops=k), mod[k] if k < len(mod) else None, real[k] if k < len(real) else None,
                    confirmed=False,
                )
                continue
            last = real[-1]
            bump(out, "seqchain_final", "raises:" + last["err"] if "err" in last else ("nonempty" if last["len"] else "empty"))
            bump(out, "seqchain_moltype", mt)
            if "err" in last or last["len"] > 0:
                out["nontrivial"].add(("seqchain", kind, mt, text, str(ops)))
            if sum(1 for x in out["samples"] if x.get("stream") == "seqchain") < 3 and len(ops) > 2 and "err" not in last and last["len"] > 1:
                out["samples"].append(dict(inp, final=last))


# --------------------------------------------------------------------------
# spec-level differential: real Sequence objects vs plain strings
# --------------------------------------------------------------------------
def _mk_seq(kind, moltype, text, offset):
    if kind == "old":
        import cogent3

        return cogent3.make_seq(text, name="s", moltype=moltype, annotation_offset=offset)
    from cogent3.core import new_moltype

    if kind == "newcoll_off":
        # a new-style Sequence built over a collection-held sequence (SeqDataView) WITH an annotation offset
        from cogent3.core import new_alignment, new_sequence

        coll = new_alignment.make_unaligned_seqs({"s": text, "other": "ACGT" if moltype != "rna" else "ACGU"}, moltype=moltype)
        mt_obj = new_moltype.get_moltype(moltype)
        cls = type(coll.get_seq("s"))
        return cls(moltype=mt_obj, seq=coll.get_seq("s"), name="s", annotation_offset=offset)
    if kind == "newcoll":
        # a sequence handed out by a new-style collection: its view is a SeqDataView
        from cogent3.core import new_alignment

        return new_alignment.make_unaligned_seqs({"s": text, "other": "ACGT" if moltype != "rna" else "ACGU"}, moltype=moltype).get_seq("s")
    return new_moltype.get_moltype(moltype).make_seq(seq=text, name="s", annotation_offset=offset)


def _comp(moltype, s):
    if moltype == "dna":
        return s.translate(DNA_COMP)
    if moltype == "rna":
        return s.translate(RNA_COMP)
    return s


def _apply_spec(moltype, text, op):
    """returns (moltype, text) after op on the plain string"""
    k = op[0]
    if k == "s":
        sl = slice(op[1], op[2], op[3])
        r = text[sl]
        if (op[3] or 1) < 0:
            r = _comp(moltype, r)
        return moltype, r
    if k == "i":
        return moltype, text[op[1]]
    if k == "rc":
        return moltype, _comp(moltype, text[::-1])
    if k == "to_rna":
        return "rna", text.replace("T", "U").replace("t", "u")
    if k == "to_dna":
        return "dna", text.replace("U", "T").replace("u", "t")
    raise ValueError(k)


def _apply_real(seq, op):
    k = op[0]
    if k == "s":
        return seq[slice(op[1], op[2], op[3])]
    if k == "i":
        return seq[op[1]]
    if k == "rc":
        return seq.rc()
    if k == "to_rna":
        return seq.to_rna()
    if k == "to_dna":
        return seq.to_dna()


READ_ONLY = [
    ("count", lambda s, t: s.count(t[:1] or "A")),
    ("counts", lambda s, t: sorted(dict(s.counts()).items())),
    ("is_valid", lambda s, t: s.is_valid()),
    ("is_gapped", lambda s, t: s.is_gapped()),
    ("is_degenerate", lambda s, t: s.is_degenerate()),
    ("degap", lambda s, t: str(s.degap())),
    ("count_gaps", lambda s, t: s.count_gaps()),
    ("count_degenerate", lambda s, t: s.count_degenerate()),
    ("to_fasta", lambda s, t: s.to_fasta()),
    ("get_kmers", lambda s, t: list(s.get_kmers(2))),
    ("iter_kmers", lambda s, t: list(s.iter_kmers(3))),
    ("strip_degenerate", lambda s, t: str(s.strip_degenerate())),
    ("frac_same", lambda s, t: s.frac_same(s)),
    ("gap_indices", lambda s, t: [int(i) for i in s.gap_indices()]),
    ("first_gap", lambda s, t: s.first_gap()),
    ("disambiguate_strip", lambda s, t: str(s.disambiguate("strip"))),
    ("eq_str", lambda s, t: str(s) == t),
    ("array", lambda s, t: [int(i) for i in __import__("numpy").array(s)]),
    ("can_match", lambda s, t: s.can_match(s)),
    ("to_moltype_same", lambda s, t: str(s.to_moltype(s.moltype.label if hasattr(s.moltype, "label") else s.moltype.name))),
    ("resolved_ambiguities", lambda s, t: [tuple(sorted(x)) for x in s.resolved_ambiguities()]),
    ("replace", lambda s, t: str(s.replace("A", "C"))),
    ("mw", lambda s, t: round(s.mw(), 6)),
    ("get_in_motif_size", lambda s, t: list(s.get_in_motif_size(3))),
]


# reflection sweep over the public API (DESIGN §6/C01): every public callable not in the skip-list is
# called with generated arguments on the view and on a fresh sequence built from the view's string
SKIP_METHODS = {
    # mutators / annotation & coordinate plumbing (C04, C10) / random / drawing / IO
    "add_feature", "annotate_from_gff", "annotate_matches_to", "copy_annotations", "replace_annotation_db",
    "make_feature", "get_features", "get_drawable", "get_drawables", "shuffle", "to_json", "to_rich_dict",
    "from_rich_dict", "parent_coordinates", "is_annotated", "with_masked_annotations", "to_html", "copy",
    "gapped_by_map", "gapped_by_map_motif_iter", "gapped_by_map_segment_iter", "get_translation",
    "trim_stop_codon", "has_terminal_stop",  # C12's entry points (need complete codons)
}
_OTHER_ARGS = {
    "count": lambda t: (t[:1] or "A",),
    "get_kmers": lambda t: (2,),
    "iter_kmers": lambda t: (2,),
    "sliding_windows": lambda t: (3, 2),
    "replace": lambda t: (t[:1] or "A", "C"),
    "frac_similar": lambda t: ("SELF", {("A", "G"): 1, ("G", "A"): 1}),
    "matrix_distance": lambda t: ("SELF", {(a, b): (0 if a == b else 1) for a in "ACGTUN-RYKMSWBDHV" for b in "ACGTUN-RYKMSWBDHV"}),
}
_SELF_ARG = {"can_match", "can_mismatch", "can_mispair", "can_pair", "diff", "distance", "frac_diff", "frac_diff_gaps",
             "frac_diff_non_gaps", "frac_same", "frac_same_gaps", "frac_same_non_gaps", "must_match", "must_pair"}


def _canon(x, depth=0):
    import re

    import numpy

    if hasattr(x, "moltype") and hasattr(x, "_seq"):
        # the python class name is not compared: new-style to_rna()/to_dna() keep the class and swap the moltype
        mt = x.moltype
        return ("seq", getattr(mt, "label", None) or getattr(mt, "name", None), str(x))
    if isinstance(x, (str, int, bool)) or x is None:
        return x
    if isinstance(x, float):
        return round(x, 9)
    if isinstance(x, numpy.generic):
        return _canon(x.item())
    if isinstance(x, numpy.ndarray):
        return _canon(x.tolist())
    if isinstance(x, dict):
        return sorted((repr(_canon(k)), _canon(v)) for k, v in x.items())
    if isinstance(x, (set, frozenset)):
        return sorted(repr(_canon(v)) for v in x)
    if isinstance(x, (list, tuple)) or hasattr(x, "__next__"):
        return [_canon(v) for v in x]
    if hasattr(x, "to_dict") and depth < 2:
        try:
            return _canon(x.to_dict(), depth + 1)
        except Exception:
            pass
    return re.sub(r" at 0x[0-9a-f]+", "", repr(x))


def _reflect_methods(seq):
    import inspect

    res = []
    for n in dir(seq):
        if n.startswith("_") or n in SKIP_METHODS:
            continue
        try:
            a = getattr(seq, n)
        except Exception:
            continue
        if not callable(a):
            continue
        try:
            sig = inspect.signature(a)
        except (TypeError, ValueError):
            continue
        req = [q.name for q in sig.parameters.values() if q.default is q.empty and q.kind in (q.POSITIONAL_ONLY, q.POSITIONAL_OR_KEYWORD)]
        if not req:
            res.append((n, lambda t: ()))
        elif n in _SELF_ARG and len(req) == 1:
            res.append((n, lambda t: ("SELF",)))
        elif n in _OTHER_ARGS:
            res.append((n, _OTHER_ARGS[n]))
    return res


def _call_method(seq, name, args):
    args = tuple(seq if a == "SELF" else a for a in args)
    try:
        return ("ok", _canon(getattr(seq, name)(*args)))
    except Exception as e:
        return ("exc", type(e).__name__)


def _call(f, s, t):
    try:
        return ("ok", f(s, t))
    except Exception as e:
        return ("exc", type(e).__name__)


def spec_check(ctx, budget):
    out = new_outcome(
        "Sequence chains (old/new make_seq; dna/rna/protein/text; annotation offsets 0/7) of slice/int/rc/to_rna/to_dna "
        "vs the same chain on the plain str; exhaustive depth-1/2 on short parents then seeded random depth<=6; "
        "non-trivial = distinct (impl, moltype, parent, chain) with non-empty result"
    )
    from .c01_index import index_op, shape_op

    rng = ctx.subrng(f"spec{budget}")
    n_rand = 2500 * budget
    cases = []
    # small exhaustive: depth-2 chains of slices on a 5-mer
    parent = "ACGTA"
    small = [None, -6, -3, -1, 0, 1, 3, 6]
    sl = [["s", a, b, c] for a, b, c in itertools.product(small, small, [None, 2, -1, -2])]
    for op in sl:
        cases.append(("dna", parent, 0, [op]))
    for o1 in rng.sample(sl, min(len(sl), 40 * budget)):
        for o2 in rng.sample(sl, 12):
            cases.append(("dna", parent, 0, [o1, o2]))
    alph = {"dna": "ACGT", "rna": "ACGU", "protein": "ACDEFGHIKLMNPQRSTVWY", "text": "ABCXYZ"}
    for _ in range(n_rand):
        mt = rng.choice(["dna", "dna", "rna", "protein", "text"])
        n = rng.choice([0, 1, 2, 3, 7, 12, 30]) if rng.random() < 0.6 else rng.randint(0, 40)
        letters = alph[mt] + ("NRY-" if mt in ("dna", "rna") and rng.random() < 0.3 else "")
        text = "".join(rng.choice(letters) for _ in range(n))
        ops = []
        cur = mt
        # half of the chains draw slice / index arguments relative to the CURRENT displayed length (tracked on the
        # plain string), so deep ops still act on non-trivial views and integer indices are mostly in range
        aware = rng.random() < 0.5
        shown = text
        for _ in range(rng.randint(1, 6)):
            r = rng.random()
            if cur in ("dna", "rna") and r < 0.2:
                ops.append(["rc"])
            elif cur == "dna" and r < 0.28:
                ops.append(["to_rna"])
                cur = "rna"
            elif cur == "rna" and r < 0.28:
                ops.append(["to_dna"])
                cur = "dna"
            elif aware:
                op = index_op(rng, len(shown)) if rng.random() < 0.2 else shape_op(rng, len(shown))
                ops.append(op)
                try:
                    shown = shown[op[1]] if op[0] == "i" else shown[slice(op[1], op[2], op[3])]
                except IndexError:
                    break
            else:
                op = _rand_op(rng, n)
                if op[0] == "s" and op[3] == 0:
                    op[3] = None
                ops.append(op)
        cases.append((mt, text, rng.choice([0, 0, 7]), ops))

    for mt, text, offset, ops in cases:
        kinds = ("old", "new", "newcoll") if (offset == 0 and text and mt in ("dna", "rna", "protein")) else ("old", "new")
        if offset != 0 and text and mt in ("dna", "rna") and rng.random() < 0.15:
            kinds = kinds + ("newcoll_off",)
        for kind in kinds:
            out["evaluations"] += 1
            inp = dict(impl=kind, moltype=mt, parent=text, offset=offset, chain=ops)
            try:
                seq = _mk_seq(kind, mt, text, offset)
            except Exception as e:
                add_failure(out, "spec", "make_seq raised", inp, "sequence", repr(e), sig="make_seq-raised")
                continue
            cur_mt, cur = mt, text
            ok = True
            done = []
            for op in ops:
                done.append(op)
                try:
                    want = _apply_spec(cur_mt, cur, op)
                    want_exc = None
                except IndexError:
                    want, want_exc = None, "IndexError"
                try:
                    seq = _apply_real(seq, op)
                    got_exc = None
                except IndexError:
                    got_exc = "IndexError"
                except Exception as e:
                    got_exc = type(e).__name__
                if want_exc or got_exc:
                    if want_exc != got_exc:
                        add_failure(out, "spec", "exception differs from str semantics", dict(inp, chain=done), want_exc, got_exc, sig=f"exc:{op[0]}")
                        ok = False
                    break
                cur_mt, cur = want
                got = str(seq)
                if got != cur or len(seq) != len(cur) or "".join(seq) != cur:
                    add_failure(
                        out, "spec", f"str/len/iter differ from plain-string chain after {op[0]}",
                        dict(inp, chain=done), cur, got, sig=f"str:{kind}:{op[0]}:{'rev' if _was_reversed(done[:-1]) else 'fwd'}",
                    )
                    ok = False
                    break
            if not ok or want_exc or got_exc:
                continue
            # parent coordinates name the displayed segment (only meaningful if no moltype conversion happened)
            try:
                sid, ps, pe, strand = seq.parent_coordinates()
                if not (isinstance(seq, str)):
                    base_mt = mt
                    seg = text[max(ps - offset, 0) : pe - offset]
                    stride = abs(seq._seq.step)
                    if strand == -1:
                        seg = _comp(base_mt, seg[::-1])
                    seg = seg[::stride]
                    if cur_mt != base_mt:
                        seg = seg.replace("T", "U") if cur_mt == "rna" else seg.replace("U", "T")
                    converted = any(o[0] in ("to_rna", "to_dna") for o in ops)
                    # a moltype conversion builds a new parent from the displayed string, so the
                    # coordinates of the original parent are only claimed for conversion-free chains
                    if len(cur) and not converted and (seg != cur or sid != "s" or ps - offset < 0 or pe - offset > len(text)):
                        add_failure(out, "spec", "parent_coordinates do not name the displayed segment", inp, dict(want=cur), dict(coords=[sid, ps, pe, strand], seg=seg), sig=f"coords:{kind}")
            except Exception as e:
                add_failure(out, "spec", "parent_coordinates raised", inp, "coords", repr(e), sig=f"coords-raise:{kind}")
            # read-only methods answer as on a fresh sequence built from the string
            if (len(cur) or kind in ("newcoll", "new", "old")) and rng.random() < (0.35 if len(cur) else 0.6):
                # empty views are swept too: a method must not see the whole parent through an empty view
                try:
                    fresh = _mk_seq(kind if len(cur) or kind != "newcoll" else "new", cur_mt, cur, 0)
                except Exception:
                    fresh = _mk_seq("new" if kind != "old" else "old", cur_mt, cur, 0)
                for name, f in rng.sample(READ_ONLY, 6):
                    a = _call(f, seq, cur)
                    b = _call(f, fresh, cur)
                    if a != b and not (a[0] == "exc" and b[0] == "exc"):
                        if a[0] == "exc" and a[1] in ("AttributeError", "TypeError", "NotImplementedError") and b[0] == "exc":
                            continue
                        add_failure(out, "spec", f"read-only method {name} differs from fresh sequence", dict(inp, method=name, view_reversed=_is_rev(seq)), b, a, sig=f"method:{kind}:{name}")
                    bump(out, "methods", name)
                # reflection sweep
                meths = _reflect_methods(seq)
                for name, mkargs in rng.sample(meths, min(8, len(meths))):
                    args = mkargs(cur)
                    a = _call_method(seq, name, args)
                    b = _call_method(fresh, name, args)
                    bump(out, "reflected_methods", name)
                    if a != b and not (a[0] == "exc" and b[0] == "exc"):
                        add_failure(out, "spec", f"public method {name} differs from fresh sequence", dict(inp, method=name, reflected=True, view_reversed=_is_rev(seq)), b, a, sig=f"method:{kind}:{name}")
            if len(cur):
                out["nontrivial"].add((kind, mt, text, str(ops)))
            bump(out, "chain_depth", len(ops))
            bump(out, "moltype", mt)
            if len(out["samples"]) < 5 and len(ops) > 2 and len(cur) > 2:
                out["samples"].append(dict(inp, result=cur))
    # integer indexing (and every other op) on views of every kind, arguments relative to the CURRENT length
    from .c01_index import index_stream

    index_stream(ctx, out, budget)
    return out


def _is_rev(seq):
    try:
        return bool(seq._seq.is_reversed)
    except Exception:
        return None


def _was_reversed(ops):
    rev = False
    for op in ops:
        if op[0] == "rc" or (op[0] == "s" and (op[3] or 1) < 0):
            rev = not rev
    return rev


def match_finding(f, k):
    if k.get("sig_prefixes"):
        if not any(str(f.get("sig", "")).split(":")[1:2] == [p] or f":{p}:" in str(f.get("sig", "")) or str(f.get("sig", "")).endswith(":" + p) for p in k["sig_prefixes"]):
            return False
    elif f.get("sig") not in k.get("sigs", []):
        return False
    r = k.get("restrict") or {}
    inp = f.get("input") or {}
    if r.get("impl") and inp.get("impl") != r["impl"]:
        return False
    if r.get("moltypes") and inp.get("moltype") not in r["moltypes"]:
        return False
    if r.get("needs_reversed"):
        rev = inp.get("view_reversed")
        if rev is None:
            rev = _was_reversed(inp.get("chain", []))
        if not rev:
            return False
    if r.get("got") and list(f.get("got") or []) != list(r["got"]):
        return False
    if r.get("stream") and inp.get("stream") != r["stream"]:
        return False
    if r.get("chain_has_any") and not any(op and op[0] in r["chain_has_any"] for op in inp.get("chain", [])):
        return False
    return True


def replay(ctx, data):
    f = data.get("failing_input") or {}
    inp = f.get("input")
    if not inp:
        return False
    if inp.get("stream") == "index":
        from .c01_index import replay_input

        return replay_input(inp)
    seq = _mk_seq(inp["impl"], inp["moltype"], inp["parent"], inp.get("offset", 0))
    mt, cur = inp["moltype"], inp["parent"]
    for op in inp["chain"]:
        seq = _apply_real(seq, op)
        mt, cur = _apply_spec(mt, cur, op)
    if "method" in inp:
        fn = dict(READ_ONLY)[inp["method"]]
        return _call(fn, seq, cur) != _call(fn, _mk_seq(inp["impl"], mt, cur, 0), cur)
    print("expected", cur, "got", str(seq))
    return str(seq) != cur


def check_witness(ctx, w):
    """replay a known finding's witness on the real code; return a failure dict if it still fails"""
    out = new_outcome()
    if w.get("stream") == "index":
        from .c01_index import run_chain

        prob = run_chain(w["impl"], w["moltype"], w["parent"], w.get("offset", 0), w["chain"])
        if prob:
            add_failure(out, "spec", f"[index stream] {prob[0]}", dict(w, chain=prob[4]), prob[1], prob[2], sig=f"index:{w['impl']}:{prob[3]}")
            return out["failures"][0]
        return None
    seq = _mk_seq(w["impl"], w["moltype"], w["parent"], w.get("offset", 0))
    mt, cur = w["moltype"], w["parent"]
    for op in w["chain"]:
        seq = _apply_real(seq, op)
        mt, cur = _apply_spec(mt, cur, op)
    if "method" not in w:
        got = str(seq)
        if got != cur:
            add_failure(out, "spec", "str differs from plain-string chain", w, cur, got, sig=f"str:{w['impl']}:witness")
            return out["failures"][0]
        return None
    fresh = _mk_seq(w["impl"], mt, cur, 0)
    if w.get("reflected"):
        margs = dict(_reflect_methods(seq))[w["method"]](cur)
        a, b = _call_method(seq, w["method"], margs), _call_method(fresh, w["method"], margs)
    else:
        fn = dict(READ_ONLY)[w["method"]]
        a, b = _call(fn, seq, cur), _call(fn, fresh, cur)
    if a != b:
        add_failure(out, "spec", f"read-only method {w['method']} differs from fresh sequence", w, b, a, sig=f"method:{w['impl']}:{w['method']}")
        return out["failures"][0]
    return None


# ==========================================================================
# appended: string-level models part 2 (Model/SeqConv.lean, Model/SeqCoords.lean; Props/C01Seq.lean)
# ==========================================================================
PROPS_FILES = PROPS_FILES + ["CogentModel/Props/C01Seq.lean"]
LEAN_TARGETS = LEAN_TARGETS + ["CogentModel.Props.C01Seq"]
TRUSTED = TRUSTED + [
    "hand-written models lean/CogentModel/Model/SeqConv.lean (to_rna/to_dna) and Model/SeqCoords.lean "
    "(parent_coordinates / annotation_offset / SeqDataView.str_value), tied by the convchain / coordchain / sdvstr streams",
]


def _real_conv_table(kind, target):
    """per-character conversion performed by to_moltype(target) on a dna/rna string, read off the real code"""
    src = "dna" if target == "rna" else "rna"
    tbl = {}
    if kind == "old":
        import cogent3

        mt = cogent3.get_moltype(target)
        for ch in _SEQ_LETTERS[src] + _DEGEN + "tucagn":
            r = mt.coerce_str(ch)
            if r != ch:
                tbl[ch] = r
    else:
        from cogent3.core import new_moltype

        a = new_moltype.get_moltype(src).most_degen_alphabet()
        b = new_moltype.get_moltype(target).most_degen_alphabet()
        for ch in _SEQ_LETTERS[src] + _DEGEN:
            try:
                r = b.array_to_bytes(a.to_indices(ch)).decode("utf8")
            except Exception:
                continue
            if r != ch:
                tbl[ch] = r
    return tbl


def _label(seq):
    mt = seq.moltype
    return getattr(mt, "label", None) or getattr(mt, "name", None)


def _conv_state(seq):
    v = seq._seq
    return dict(str=str(seq), len=len(seq), moltype=_label(seq), start=v.start, stop=v.stop, step=v.step,
                seq_len=v.seq_len, parent=v.seq)


def _first_diff(real, mod):
    return next((i for i, (a, b) in enumerate(zip(real, mod)) if a != b), min(len(real), len(mod)))


def _conv_chain_corr(ctx, out):
    rng = ctx.subrng("convchain")
    cases = []
    for _ in range(ctx.budget(2500, 30000)):
        mt = rng.choice(["dna", "rna"])
        n = rng.choice([0, 1, 2, 3, 7, 12, 30]) if rng.random() < 0.5 else rng.randint(0, 40)
        letters = _SEQ_LETTERS[mt] + (_DEGEN if rng.random() < 0.3 else "")
        text = "".join(rng.choice(letters) for _ in range(n))
        ops = []
        for _ in range(rng.randint(1, 7)):
            r = rng.random()
            if r < 0.2:
                ops.append(["rc"])
            elif r < 0.32:
                ops.append(["to_rna"])
            elif r < 0.44:
                ops.append(["to_dna"])
            else:
                op = _rand_op(rng, max(n, 3))
                if op[0] == "s" and rng.random() < 0.5:
                    op[1] = rng.choice([None, op[1]])
                    op[2] = rng.choice([None, op[2]])
                ops.append(op)
        cases.append((mt, text, ops))
    for kind in ("old", "new"):
        tabs = dict(
            comp_dna=_real_comp_table(kind, "dna"), comp_rna=_real_comp_table(kind, "rna"),
            to_rna=_real_conv_table(kind, "rna"), to_dna=_real_conv_table(kind, "dna"),
        )
        if tabs["to_rna"].get("T") != "U" or tabs["to_dna"].get("U") != "T" or any(k.upper() not in "TU" for k in list(tabs["to_rna"]) + list(tabs["to_dna"])):
            add_failure(out, "corr", "real to_rna/to_dna conversion is not the T<->U exchange", dict(impl=kind), "T<->U", tabs, confirmed=False)
        model = ctx.driver.batch([("convchain", dict(parent=text, rna=(mt == "rna"), ops=ops, **tabs)) for mt, text, ops in cases])
        for (mt, text, ops), mod in zip(cases, model):
            out["evaluations"] += 1
            inp = dict(impl=kind, moltype=mt, parent=text, ops=ops, stream="convchain")
            try:
                seq = _mk_seq(kind, mt, text, 0)
            except Exception as e:
                add_failure(out, "corr", "make_seq raised (convchain)", inp, "sequence", repr(e), confirmed=False)
                continue
            real = [_conv_state(seq)]
            for op in ops:
                try:
                    seq = _apply_real(seq, op)
                except (ValueError, IndexError, AssertionError) as e:
                    real.append({"err": _errname(e)})
                    break
                real.append(_conv_state(seq))
            if real != mod:
                k = _first_diff(real, mod)
                add_failure(out, "corr", f"Sequence state differs from Model/SeqConv ({kind})", dict(inp, first_difference_after_ops=k),
                            mod[k] if k < len(mod) else None, real[k] if k < len(real) else None, confirmed=False)
                continue
            last = real[-1]
            nconv = sum(1 for o in ops if o[0] in ("to_rna", "to_dna"))
            bump(out, "convchain_final", "raises:" + last["err"] if "err" in last else ("nonempty" if last["len"] else "empty"))
            bump(out, "convchain_conversions", min(nconv, 3))
            if ("err" in last or last["len"] > 0) and nconv:
                out["nontrivial"].add(("convchain", kind, mt, text, str(ops)))
            if sum(1 for x in out["samples"] if x.get("stream") == "convchain") < 2 and nconv and len(ops) > 2 and "err" not in last and last["len"] > 1:
                out["samples"].append(dict(inp, final=last))


def _coord_state(seq):
    try:
        c = list(seq.parent_coordinates())
    except AssertionError:
        c = {"err": "AssertionError"}
    try:
        ao = int(seq.annotation_offset)
    except AssertionError:
        ao = {"err": "AssertionError"}
    return dict(str=str(seq), coords=c, annotation_offset=ao)


def _coord_chain_corr(ctx, out):
    rng = ctx.subrng("coordchain")
    cases = []
    for _ in range(ctx.budget(2000, 25000)):
        mt = rng.choice(["dna", "dna", "rna", "protein"])
        n = rng.choice([1, 2, 3, 7, 12, 30]) if rng.random() < 0.5 else rng.randint(0, 40)
        text = "".join(rng.choice(_SEQ_LETTERS[mt]) for _ in range(n))
        ops = []
        for _ in range(rng.randint(1, 5)):
            if mt != "protein" and rng.random() < 0.2:
                ops.append(["rc"])
            else:
                op = _rand_op(rng, max(n, 3))
                if op[0] == "s":
                    if op[3] == 0:
                        op[3] = None
                    if rng.random() < 0.6:
                        op[1] = rng.choice([None, op[1]])
                        op[2] = rng.choice([None, op[2]])
                ops.append(op)
        cases.append((mt, text, rng.choice([0, 7, 100]), ops))
    for kind in ("old", "new"):
        model = ctx.driver.batch([
            ("coordchain", dict(parent=text, nucleic=(mt != "protein"), comp=_real_comp_table(kind, mt), offset=o, seqid="s", ops=ops))
            for mt, text, o, ops in cases
        ])
        for (mt, text, o, ops), mod in zip(cases, model):
            out["evaluations"] += 1
            inp = dict(impl=kind, moltype=mt, parent=text, offset=o, ops=ops, stream="coordchain")
            try:
                seq = _mk_seq(kind, mt, text, o)
            except Exception as e:
                add_failure(out, "corr", "make_seq raised (coordchain)", inp, "sequence", repr(e), confirmed=False)
                continue
            real = [_coord_state(seq)]
            for op in ops:
                try:
                    seq = _apply_real(seq, op)
                except (ValueError, IndexError, AssertionError) as e:
                    real.append({"err": _errname(e)})
                    break
                real.append(_coord_state(seq))
            if real != mod:
                k = _first_diff(real, mod)
                add_failure(out, "corr", f"parent_coordinates/annotation_offset differ from Model/SeqCoords ({kind})",
                            dict(inp, first_difference_after_ops=k), mod[k] if k < len(mod) else None, real[k] if k < len(real) else None, confirmed=False)
                continue
            last = real[-1]
            bump(out, "coordchain_final", "raises:" + last["err"] if "err" in last else ("nonempty" if last["str"] else "empty"))
            if "err" not in last and last["str"] and o:
                out["nontrivial"].add(("coordchain", kind, mt, text, o, str(ops)))


def _sdv_str_corr(ctx, out):
    """SeqDataView.str_value (any offset: the model mirrors the code) and, for offset 0, equality with data[start:stop:step]"""
    from cogent3.core import new_alignment, new_moltype

    rng = ctx.subrng("sdvstr")
    alpha = new_moltype.get_moltype("dna").most_degen_alphabet()
    reqs, reals, inps = [], [], []
    for _ in range(ctx.budget(2500, 30000)):
        n = rng.randint(0, 25)
        data = "".join(rng.choice("ACGT") for _ in range(n))
        off = rng.choice([0, 0, 0, 3, 11])
        sd = new_alignment.SeqsData(data={"a": data}, alphabet=alpha)
        try:
            v = new_alignment.SeqDataView(seq=sd, seqid="a", seq_len=n, start=_rand_arg(rng, n), stop=_rand_arg(rng, n), step=_rand_step(rng), offset=off)
            for op in [_rand_op(rng, n) for _ in range(rng.randint(0, 3))]:
                v = v[slice(*op[1:])] if op[0] == "s" else v[op[1]]
        except (ValueError, IndexError):
            continue
        try:
            r = v.str_value
        except AssertionError:
            r = {"err": "AssertionError"}
        reqs.append(("sdvstr", dict(data=data, start=v.start, stop=v.stop, step=v.step, offset=v.offset, seq_len=v.seq_len)))
        reals.append(r)
        inps.append(dict(data=data, start=v.start, stop=v.stop, step=v.step, offset=v.offset, seq_len=v.seq_len, stream="sdvstr"))
    for inp, real, mod in zip(inps, reals, ctx.driver.batch(reqs)):
        out["evaluations"] += 1
        bump(out, "sdvstr_offset", "zero" if inp["offset"] == 0 else "nonzero")
        if real != mod:
            add_failure(out, "corr", "SeqDataView.str_value differs from Model/SeqCoords.sdvStrValue", inp, mod, real, confirmed=False)
        elif inp["offset"] == 0:
            want = inp["data"][inp["start"] : inp["stop"] : inp["step"]]
            if real != want:
                add_failure(out, "corr", "SeqDataView.str_value (offset 0) differs from data[start:stop:step]", inp, want, real, confirmed=False)
            elif real:
                out["nontrivial"].add(("sdvstr", tuple(sorted(inp.items()))))


_correspondence_part1 = correspondence


def correspondence(ctx):  # noqa: F811  (extends the function defined above)
    out = _correspondence_part1(ctx)
    out["rule"] += (
        "; plus wrapper-model streams: convchain (dna/rna chains with to_rna/to_dna, non-trivial = contains a conversion and is "
        "non-empty or raises), coordchain (parent_coordinates with annotation offsets 0/7/100), sdvstr (SeqDataView.str_value)"
    )
    _conv_chain_corr(ctx, out)
    _coord_chain_corr(ctx, out)
    _sdv_str_corr(ctx, out)
    return out


_correspondence_part2 = correspondence


def correspondence(ctx):  # noqa: F811  (adds the translator self-test stream)
    out = _correspondence_part2(ctx)
    gen_corr(ctx, out)
    return out


TRUSTED += [
    "translator/py2lean_view.py (python ast -> Lean for the slice-record arithmetic): its output Gen/C01View.lean is proved equal to the hand "
    "model for all arguments (Proofs/C01GenEq.lean, re-checked against freshly generated text every run) and is itself tied to the python "
    "originals by the `gen` self-test stream (generated definitions vs python functions on the same arguments)",
]
ASSUMPTIONS += [
    "translator conventions: A1 len(self.seq) == self.seq_len for an existing view (constructor check); A2 `if step > 0 .. elif step < 0 ..` "
    "without else is exhaustive (step != 0 is part of the proved invariant); A3 x // 0, x % 0 follow Int.fdiv/Int.fmod (python raises; step != 0)",
]
