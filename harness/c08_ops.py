"""C08 — span predicates and the remaining FeatureMap operations (`+`, `*`, `/`, without_gaps, get_covering_span,
Span[...] / Span * k / Span / k / reversed_relative_to / in / overlaps / starts_* / ends_*).

Two parts, both called from harness/c08.py:
  ops_correspondence : the hand model Model/FMapOps.lean (through the driver commands `spanops` / `fmops`) against the real
                       classes of cogent3.core.location, same inputs -> same outputs (exhaustive small box + random);
  check_span_ops / check_fm_ops : the REAL classes against plain python sets / lists of positions (independent oracle).
"""
from __future__ import annotations

import itertools

CATCH = (ValueError, IndexError, NotImplementedError, AssertionError, RuntimeError, TypeError, ZeroDivisionError, AttributeError)

PRED_NAMES = ["contains", "overlaps", "starts_before", "starts_after", "starts_at", "starts_inside",
              "ends_before", "ends_after", "ends_at", "ends_inside"]


def _err(e):
    return {"err": type(e).__name__}


def _try(f, conv=lambda x: x):
    try:
        return conv(f())
    except CATCH as e:
        return _err(e)


def _fspd(s):
    return [int(s.length)] if s.lost else [int(s.start), int(s.end), bool(s.reverse)]


def _fmd(m):
    return {"spans": [_fspd(s) for s in m.spans], "pl": int(m.parent_length)}


def _preds(sp, other, is_span):
    """overlaps(number) is left out: python raises TypeError (`start in 3`) before the AttributeError handler is reached"""
    r = [bool(other in sp)] + ([bool(sp.overlaps(other))] if is_span else [])
    return r + [bool(sp.starts_before(other)), bool(sp.starts_after(other)),
                bool(sp.starts_at(other)), bool(sp.starts_inside(other)), bool(sp.ends_before(other)),
                bool(sp.ends_after(other)), bool(sp.ends_at(other)), bool(sp.ends_inside(other))]


def _span_record(rq):
    from cogent3.core.location import LostSpan, Span

    sp = Span(rq["s"], rq["e"], reverse=rq["r"])
    o = Span(rq["os"], rq["oe"])
    lo = LostSpan(rq["e"] - rq["s"])
    return dict(
        int_preds=[_preds(sp, x, False) for x in rq["xs"]],
        span_preds=_preds(sp, o, True),
        slice=[_try(lambda: sp[slice(a, b)], _fspd) for a, b in rq["ivs"]],
        lost_slice=[_try(lambda: lo[slice(a, b)], _fspd) for a, b in rq["ivs"]],
        at=[_try(lambda: sp[i], _fspd) for i in rq["xs"]],
        lost_at=[_try(lambda: lo[i], _fspd) for i in rq["xs"]],
        mul=[_try(lambda: sp * k, _fspd) for k in rq["ks"]],
        div=[_try(lambda: sp / k, _fspd) for k in rq["ks"]],
        lost_mul=[_try(lambda: lo * k, _fspd) for k in rq["ks"]],
        lost_div=[_try(lambda: lo / k, _fspd) for k in rq["ks"]],
        rrt=[_try(lambda: sp.reversed_relative_to(L), _fspd) for L in rq["ls"]],
        reversed=_fspd(sp.reversed()),
    )


def _fm_record(m, o, ks, ps=()):
    return dict(
        offsets=[int(x) for x in m.offsets], len=len(m), useful=bool(m.useful), complete=bool(m.complete),
        abs=[_try(lambda: int(m.absolute_position(p))) for p in ps],
        rel=[_try(lambda: int(m.relative_position(p))) for p in ps],
        zeroed=_try(lambda: m.zeroed(), _fmd),
        mul=[_try(lambda: m * k, _fmd) for k in ks],
        div=[_try(lambda: m / k, _fmd) for k in ks],
        add=_try(lambda: m + o, _fmd),
        without_gaps=_try(lambda: m.without_gaps(), _fmd),
        coords=[[int(a), int(b)] for a, b in m.get_coordinates()],
        start=int(m.start), end=int(m.end),
        covering=_try(lambda: m.get_covering_span(), _fmd),
    )


def ops_correspondence(ctx, out, rng):
    from .c08 import FM_KINDS, _fm_real, _rand_fm, add_failure
    from .common import bump

    reqs, reals = [], []
    # ---- one span: every (s, e) in a small box x both strands, probes around the ends
    box = list(itertools.product(range(0, 5), repeat=2))
    spans = [(s, e, r) for s, e in box if s <= e for r in (False, True)]
    for _ in range(ctx.budget(150, 1500)):
        s = rng.randint(0, 40)
        spans.append((s, s + rng.choice([0, 1, 2, 3, 6, 9, 12, 30]), rng.random() < 0.5))
    for s, e, r in spans:
        n = e - s
        os_ = rng.randint(max(s - 2, 0), e + 1)
        oe = os_ + rng.choice([0, 1, 2, n, n + 1])
        vals = [None] + list(range(-n - 2, n + 3))
        ivs = [[a, b] for a in vals for b in vals] if n <= 3 else [[rng.choice(vals), rng.choice(vals)] for _ in range(12)]
        xs = sorted({s - 1, s, s + 1, e - 1, e, e + 1, -1, -n, -n - 1, n - 1, n, 0, (s + e) // 2})
        rq = dict(s=s, e=e, r=r, os=os_, oe=oe, xs=xs, ivs=ivs, ks=[1, 2, 3, 6, -1, -2], ls=[e - 1, e, e + 1, e + 7, 0])
        reqs.append(("spanops", rq))
        reals.append(_span_record(rq))
    # ---- maps
    for _ in range(ctx.budget(600, 6000)):
        spans_, pl = _rand_fm(rng, rng.choice(FM_KINDS))
        other, _ = _rand_fm(rng, rng.choice(FM_KINDS))
        opl = pl if rng.random() < 0.8 else pl + 1
        other = [x for x in other if len(x) == 1 or x[1] <= opl]
        try:
            m, o = _fm_real(spans_, pl), _fm_real(other, opl)
        except AssertionError:
            continue
        ks = [1, 2, 3, rng.choice([4, 5, 6, 9, -1, -3])]
        ps = sorted({-1, 0, 1, rng.randint(0, pl + 2), pl})
        reqs.append(("fmops", dict(m=dict(spans=spans_, pl=pl), o=dict(spans=other, pl=opl), ks=ks, ps=ps)))
        reals.append(_fm_record(m, o, ks, ps))
    for (cmd, rq), real, model in zip(reqs, reals, ctx.driver.batch(reqs)):
        out["evaluations"] += 1
        bump(out, "ops_cmd", cmd)
        if "error" in model:
            add_failure(out, "corr", "driver error", rq, model, None, confirmed=False)
            continue
        for k in real:
            if model.get(k) != real[k]:
                add_failure(out, "corr", f"{cmd}.{k} differs", dict(rq, field=k), model.get(k), real[k], confirmed=False)
            else:
                bump(out, "ops_field", f"{cmd}.{k}")
        if cmd == "fmops" and isinstance(real["add"], dict) and real["add"].get("spans"):
            out["nontrivial"].add(("fmops", str(rq)))
        if cmd == "spanops" and rq["e"] > rq["s"]:
            out["nontrivial"].add(("spanops", rq["s"], rq["e"], rq["r"]))


# --------------------------------------------------------------------------
# spec level: the real classes against plain python position lists / sets
# --------------------------------------------------------------------------
def check_span_ops(out, s, e, r, os_, oe, probes):
    """one Span(s, e, reverse=r) against list(range(...)): membership, inclusion, overlap, slicing, indexing, scaling,
    mirroring.  `list(span)` (Span.__iter__) is the positions in map order."""
    from cogent3.core.location import Span

    from .c08 import add_failure

    sp = Span(s, e, reverse=r)
    pos = list(range(s, e))[::-1] if r else list(range(s, e))
    inp = dict(span=[s, e, r], other=[os_, oe])
    n = e - s
    strand = "rev" if r else "fwd"
    out["evaluations"] += 1

    def fail(what, sig, expected, got, **extra):
        add_failure(out, "spec", what, dict(inp, **extra), expected, got, sig=sig)

    if list(sp) != pos or len(sp) != n:
        fail("list(span) / len(span) is not the run of positions start..end-1 in map order", "span-iter:" + strand, pos, list(sp))
        return
    for x in probes:
        if (x in sp) != (x in pos):
            fail("`x in span` is not membership in the positions of the span", "span-contains-int", x in pos, x in sp, x=x)
        for name, want in (("starts_before", s < x), ("starts_after", s > x), ("starts_at", s == x), ("ends_before", e < x),
                           ("ends_after", e > x), ("ends_at", e == x)):
            got = getattr(sp, name)(x)
            if bool(got) != want:
                fail(f"span.{name}(number) differs from comparing the end points", f"span-{name}-int", want, got, x=x)
    o = Span(os_, oe)
    opos = set(range(os_, oe))
    if opos:
        if (o in sp) != opos.issubset(pos):
            fail("`other in span` is not inclusion of the position sets", "span-contains-span", opos.issubset(pos), o in sp)
        if pos and sp.overlaps(o) != bool(opos & set(pos)):
            fail("span.overlaps(other) is not `the position sets intersect`", "span-overlaps-span", bool(opos & set(pos)), sp.overlaps(o))
        if pos and o.overlaps(sp) != bool(opos & set(pos)):
            fail("overlaps is not symmetric / not intersection", "span-overlaps-span", bool(opos & set(pos)), o.overlaps(sp), swapped=True)
    for name, want in (("starts_before", s < os_), ("starts_after", s > os_), ("starts_at", s == os_), ("ends_before", e < oe),
                       ("ends_after", e > oe), ("ends_at", e == oe), ("starts_inside", os_ <= s < oe), ("ends_inside", os_ <= e < oe)):
        got = getattr(sp, name)(o)
        if bool(got) != want:
            fail(f"span.{name}(other) differs from comparing the end points", f"span-{name}-span", want, got)
    # slicing: positions of span[a:b] are the python slice of the positions (a reverse slice may be refused)
    vals = [None] + list(range(-n - 1, n + 2))
    for a in vals:
        for b in vals:
            want = pos[a:b]
            out["evaluations"] += 1
            try:
                got = list(sp[a:b])
            except AssertionError:
                if want:
                    fail("span[a:b] refused a slice that is not empty", "span-slice-raise:" + strand, want, "AssertionError", a=a, b=b)
                continue
            except CATCH as ex:
                fail("span[a:b] raised", "span-slice-raise:" + strand, want, type(ex).__name__, a=a, b=b)
                continue
            if got != want:
                fail("list(span[a:b]) != list(span)[a:b]", "span-slice:" + strand, want, got, a=a, b=b)
            elif want:
                out["nontrivial"].add(("span-slice", s, e, r, a, b))
    for i in range(-n, n + 1):
        out["evaluations"] += 1
        if -n <= i < n:
            got = _try(lambda: list(sp[i]))
            if got != [pos[i]]:
                fail("list(span[i]) != [list(span)[i]]", "span-index:" + strand, [pos[i]], got, i=i)
        else:
            got = _try(lambda: list(sp[i]))
            if got != {"err": "IndexError"}:
                fail("span[len] does not raise IndexError", "span-index-oob", "IndexError", got, i=i)
    # scaling: every position becomes the block of k positions, in map order
    for k in (1, 2, 3):
        want = [p * k + (k - 1 - j if r else j) for p in pos for j in range(k)]
        got = _try(lambda: list(sp * k))
        if got != want:
            fail("list(span * k) is not every position stretched to a block of k", "span-mul:" + strand, want, got, k=k)
        back = _try(lambda: _fspd((sp * k) / k))
        if back != [s, e, r]:
            fail("(span * k) / k is not the span", "span-div-mul", [s, e, r], back, k=k)
    # scaling down (nucleotide -> codon coordinates): when the span starts on a unit boundary, span / k covers exactly the
    # units whose whole block [q*k, q*k+k) lies inside the span (the largest t with t * k inside the span)
    for k in (2, 3):
        if s % k == 0:
            units = [q for q in range(s // k, e // k + 1) if all(p in pos for p in range(q * k, q * k + k))]
            want = units[::-1] if r else units
            got = _try(lambda: list(sp / k))
            if got != want:
                fail("list(span / k) is not the run of whole k-blocks inside the span", "span-div:" + strand, want, got, k=k)
    # mirroring inside a parent of length L: p -> L-1-p, same map order
    for L in (e, e + 1, e + 5):
        want = [L - 1 - p for p in pos]
        got = _try(lambda: list(sp.reversed_relative_to(L)))
        if got != want:
            fail("span.reversed_relative_to(L) is not the mirrored span (p -> L-1-p in map order)", "span-rrt:" + strand, want, got, L=L)
    if e > 0:
        got = _try(lambda: list(sp.reversed_relative_to(e - 1)))
        if got != {"err": "AssertionError"}:
            fail("reversed_relative_to(L) with L < end does not refuse", "span-rrt-oob", "AssertionError", got, L=e - 1)
    got = _try(lambda: list(sp.reversed()))
    if got != pos[::-1]:
        fail("span.reversed() does not read the same positions backwards", "span-reversed", pos[::-1], got)


def check_fm_ops(out, spans, pl, other, cover_of):
    """`+`, `*`, `/`, without_gaps, get_covering_span, get_coordinates of one real FeatureMap against position lists"""
    from .c08 import _fm_real, add_failure

    m = _fm_real(spans, pl)
    cov = cover_of(m)
    inp = dict(spans=spans, pl=pl)
    has_rev = any(len(s) > 1 and s[2] for s in spans)
    rv = "rev-spans" if has_rev else "fwd-spans"
    out["evaluations"] += 1

    def fail(what, sig, expected, got, **extra):
        add_failure(out, "spec", what, dict(inp, **extra), expected, got, sig=sig)

    # + : concatenation of the positions, same parent
    if other is not None:
        o = _fm_real(other, pl)
        want = cov + cover_of(o)
        try:
            r = m + o
            got = cover_of(r)
            if got != want or r.parent_length != pl or len(r) != len(m) + len(o):
                fail("a + b does not cover the positions of a followed by those of b", "fmap-add", want, got, other=other)
            elif any(x is not None for x in want):
                out["nontrivial"].add(("fmap-add", str(spans), str(other)))
        except CATCH as ex:
            fail("a + b raised for maps on the same parent", "fmap-add-raise", want, type(ex).__name__, other=other)
        try:
            m + _fm_real(other, pl + 1)
            fail("a + b accepted maps with different parent lengths", "fmap-add-mismatch", "ValueError", "no error", other=other)
        except ValueError:
            pass
        except CATCH as ex:
            fail("a + b raised something other than ValueError for different parents", "fmap-add-mismatch", "ValueError", type(ex).__name__, other=other)
    # * k : every position (lost or not) becomes a block of k, in map order; parent scaled
    for k in (2, 3):
        want = []
        for sp in m.spans:
            if sp.lost:
                want += [None] * (sp.length * k)
            else:
                ps = list(range(sp.start, sp.end))
                ps = ps[::-1] if sp.reverse else ps
                want += [p * k + (k - 1 - j if sp.reverse else j) for p in ps for j in range(k)]
        try:
            r = m * k
            got = cover_of(r)
            if got != want or r.parent_length != pl * k:
                fail("m * k is not the map with every position stretched to a block of k", "fmap-mul:" + rv, dict(cover=want, pl=pl * k),
                     dict(cover=got, pl=int(r.parent_length)), k=k)
            if k == 3:
                # lost spans of m * 3 have lengths divisible by 3: the division is defined and gives m back
                back = r / 3
                if _fmd(back) != _fmd(m):
                    fail("(m * 3) / 3 is not m", "fmap-div-mul:" + rv, _fmd(m), _fmd(back))
        except CATCH as ex:
            fail("m * k (or (m * 3) / 3) raised", "fmap-mul-raise", want, type(ex).__name__, k=k)
    # without_gaps
    try:
        r = m.without_gaps()
        want = [p for p in cov if p is not None]
        if cover_of(r) != want or r.parent_length != pl:
            fail("without_gaps() does not keep exactly the positions that are not lost", "fmap-without-gaps", want, cover_of(r))
    except CATCH as ex:
        fail("without_gaps() raised", "fmap-without-gaps-raise", None, type(ex).__name__)
    # coordinates / covering span
    real = [(s[0], s[1]) for s in spans if len(s) > 1]
    got = [(int(a), int(b)) for a, b in m.get_coordinates()]
    if got != real:
        fail("get_coordinates() is not the (start, end) of the real spans", "fmap-get-coordinates", real, got)
    if real and all(0 <= a <= b <= pl for a, b in real):
        lo, hi = min(a for a, _ in real), max(b for _, b in real)
        if (int(m.start), int(m.end)) != (lo, hi):
            fail("start / end are not the extreme coordinates of the real spans", "fmap-start-end", [lo, hi], [int(m.start), int(m.end)])
        try:
            c = m.get_covering_span()
            if cover_of(c) != list(range(lo, hi)) or c.parent_length != pl:
                fail("get_covering_span() is not the single span from the smallest start to the largest end", "fmap-covering-span",
                     list(range(lo, hi)), cover_of(c))
        except CATCH as ex:
            fail("get_covering_span() raised", "fmap-covering-span-raise", [lo, hi], type(ex).__name__)
        # bookkeeping of __post_init__, zeroed, absolute / relative position (wave 2)
        lens = [s[0] if len(s) == 1 else s[1] - s[0] for s in spans]
        offs = [sum(lens[:i]) for i in range(len(lens))]
        book = [[int(x) for x in m.offsets], len(m), bool(m.useful), bool(m.complete)]
        want = [offs, sum(lens), True, all(len(s) > 1 for s in spans)]
        if book != want:
            fail("offsets / len / useful / complete are not the running lengths / whether real (only real) spans exist",
                 "fmap-post-init", want, book)
        try:
            z = m.zeroed()
            want = [None if p is None else p - lo for p in cov]
            got = [cover_of(z), int(z.parent_length), int(z.start), int(z.end)]
            if got != [want, hi - lo, 0, hi - lo]:
                fail("zeroed() is not the same map with every parent coordinate moved down by its start (parent = covering span)",
                     "fmap-zeroed", [want, hi - lo, 0, hi - lo], got)
            if cover_of(m) != cov:
                fail("zeroed() modified the map it was called on", "fmap-zeroed-mutates", cov, cover_of(m))
        except CATCH as ex:
            fail("zeroed() raised", "fmap-zeroed-raise", None, type(ex).__name__)
        for p in (0, 1, pl):
            try:
                r_, a_ = int(m.relative_position(p)), int(m.absolute_position(p))
            except CATCH as ex:
                fail("relative_position / absolute_position raised for a position >= 0", "fmap-position-raise", None, type(ex).__name__, p=p)
                continue
            want_a = p if sum(lens) == pl else lo + p
            if r_ != p - lo or a_ != want_a:
                fail("relative_position(p) is not p - start / absolute_position(p) is not start + p (p on a map as long as its parent)",
                     "fmap-position", [p - lo, want_a], [r_, a_], p=p)
        for f_ in (m.relative_position, m.absolute_position):
            try:
                f_(-1)
                fail("a negative position is not refused", "fmap-position-negative", "ValueError", "returned")
            except ValueError:
                pass


# --------------------------------------------------------------------------
# spec level: conversions and alternative constructors / argument forms of the same operations
# --------------------------------------------------------------------------
def check_indel_extras(out, s, m, useq, deep):
    """the same gapped string reached through the other constructors / converters of IndelMap: from_spans(spans),
    to_feature_map(), with_termini_unknown(), rich dict / json round trip, get_gap_lengths / num_gaps,
    make_seq_feature_map; every one must describe the string s"""
    import json

    from cogent3.core.location import FeatureMap, IndelMap, deserialise_indelmap

    from .c08 import _canon, _cover_real, _gapped_of, _mapd, add_failure

    inp = dict(s=s)
    want = _canon(s)
    pat = "".join("1" if c == "-" else "0" for c in s)
    out["evaluations"] += 1

    def fail(what, sig, expected, got, **extra):
        add_failure(out, "spec", what, dict(inp, **extra), expected, got, sig=sig)

    def same(name, f):
        got = _try(f, _mapd)
        if got != want:
            fail(f"{name} does not describe the gapped string", "indel-convert:" + name, want, got)

    same("from_spans(spans)", lambda: IndelMap.from_spans(list(m.spans), m.parent_length))
    same("from_rich_dict(to_rich_dict())", lambda: IndelMap.from_rich_dict(m.to_rich_dict()))
    same("deserialise(json)", lambda: deserialise_indelmap(json.loads(m.to_json())))
    same("with_termini_unknown()", lambda: m.with_termini_unknown())
    # the spans of the termini-unknown map have the same kinds and lengths (only the class of the terminal gaps differs)
    got = _try(lambda: [(bool(x.lost), int(x.length)) for x in m.with_termini_unknown().spans])
    ref = [(bool(x.lost), int(x.length)) for x in m.spans]
    if got != ref:
        fail("with_termini_unknown() changes the spans", "indel-convert:termini-spans", ref, got)
    # feature-map view: position by position the gapped string
    cov = _gapped_of(pat)
    fm = _try(lambda: m.to_feature_map())
    if isinstance(fm, dict) or _cover_real(fm) != cov or int(fm.parent_length) != len(useq) or len(fm) != len(s):
        fail("to_feature_map() does not cover the gapped string position by position", "indel-convert:to_feature_map", cov,
             fm if isinstance(fm, dict) else _cover_real(fm))
    else:
        # and back: the gaps of the feature map are the gap runs of the string (sequence position, length)
        runs = [[pat[:a].count("0"), b - a] for a, b in _runs(pat)]
        got = _try(lambda: [[int(a), int(b)] for a, b in fm.get_gap_coordinates()])
        if got != runs:
            fail("to_feature_map().get_gap_coordinates() differs from the gap runs of the string", "indel-convert:fmap-gap-coords", runs, got)
    runs_len = [b - a for a, b in _runs(pat)]
    got = _try(lambda: [int(x) for x in m.get_gap_lengths()])
    if got != runs_len or int(m.num_gaps) != len(runs_len):
        fail("get_gap_lengths() / num_gaps differ from the gap runs of the string", "indel-gap-lengths", runs_len, got)
    # alignment intervals -> sequence intervals
    n = len(s)
    ivs = [(a, b) for a in range(0, n + 1) for b in range(a, n + 1)] if (deep and n <= 6) else []
    if not ivs and n:
        ivs = [(0, n), (n // 3, n - n // 4), (min(1, n), n)]
    for a, b in ivs:
        out["evaluations"] += 1
        afm = FeatureMap.from_locations(locations=[(a, b)], parent_length=n)
        wantc = [(s[:a].replace("-", "").__len__(), s[:b].replace("-", "").__len__())]
        got = _try(lambda: [(int(x), int(y)) for x, y in m.make_seq_feature_map(afm).get_coordinates()])
        if got != wantc:
            fail("make_seq_feature_map(alignment interval) is not the interval of the residues in those columns",
                 "indel-make-seq-feature-map", wantc, got, a=a, b=b)


def _runs(pat):
    runs, i, n = [], 0, len(pat)
    while i < n:
        if pat[i] == "1":
            j = i
            while j < n and pat[j] == "1":
                j += 1
            runs.append((i, j))
            i = j
        else:
            i += 1
    return runs


def check_binary_array_forms(out, s, t, ma, mb):
    """shared_gaps / minus_gaps called with the other map's gap coordinates (the numpy array form) agree with the map form"""
    from .c08 import _mapd, add_failure

    arr = mb.get_gap_align_coordinates()
    out["evaluations"] += 1
    conv = lambda r: [[int(x), int(y)] for x, y in (r.tolist() if hasattr(r, "tolist") else r)]
    a, b = _try(lambda: ma.shared_gaps(mb), conv), _try(lambda: ma.shared_gaps(arr), conv)
    if a != b:
        add_failure(out, "spec", "shared_gaps(array of the other map's gaps) differs from shared_gaps(other map)", dict(s=s, t=t), a, b,
                    sig="shared_gaps:array-form")
    a = _try(lambda: ma.minus_gaps(mb), _mapd)
    b = _try(lambda: ma.minus_gaps(arr), _mapd)
    if a != b:
        add_failure(out, "spec", "minus_gaps(array of the other map's gaps) differs from minus_gaps(other map)", dict(s=s, t=t), a, b,
                    sig="minus_gaps:array-form")


def check_fmap_subscripts(out, spans, pl, cover_of, rng, ints=None, pieces=None):
    """FeatureMap subscripts other than a map / one slice: an int, a list of slices, a tuple mixing both; and the rich
    dict / json round trip"""
    import json

    from cogent3.core.location import FeatureMap, deserialise_featuremap

    from .c08 import _fm_real, add_failure

    m = _fm_real(spans, pl)
    cov = cover_of(m)
    L = len(cov)
    inp = dict(spans=spans, pl=pl)
    out["evaluations"] += 1

    def fail(what, sig, expected, got, **extra):
        add_failure(out, "spec", what, dict(inp, **extra), expected, got, sig=sig)

    for name, f in (("from_rich_dict(to_rich_dict())", lambda: FeatureMap.from_rich_dict(m.to_rich_dict())),
                    ("deserialise(json)", lambda: deserialise_featuremap(json.loads(m.to_json())))):
        got = _try(f, _fmd)
        if got != _fmd(m):
            fail(f"{name} is not the map", "fmap-roundtrip:" + name, _fmd(m), got)
    if not L or not spans:
        return
    for i in (ints if ints is not None else sorted({0, L - 1, -1, -L, rng.randint(-L, L - 1)})):
        if not -L <= i < L:
            continue
        got = _try(lambda: cover_of(m[i]))
        # a position that is lost, or that from_locations cannot express, may be refused loudly; a wrong position may not
        if got != [cov[i]] and not (isinstance(got, dict) and got["err"] in ("ValueError", "RuntimeError")):
            fail("m[i] is not the single position i of the map", "fmap-getitem-int", [cov[i]], got, i=i)
    got = _try(lambda: cover_of(m[L]))
    if got != {"err": "IndexError"}:
        fail("m[len(m)] does not raise IndexError", "fmap-getitem-int-oob", "IndexError", got, i=L)
    if pieces is None:
        cuts = sorted(rng.randint(0, L) for _ in range(4))
        pieces = [(cuts[0], cuts[1]), (cuts[2], cuts[3])]
        if rng.random() < 0.5:
            pieces.reverse()
    pieces = [tuple(x) for x in pieces]
    want = [p for a, b in pieces for p in cov[a:b]]
    for form, sub in (("list", [slice(a, b) for a, b in pieces]), ("tuple", tuple(slice(a, b) for a, b in pieces))):
        got = _try(lambda: cover_of(m[sub]))
        if got != want:
            fail("m[[slice, slice]] is not the concatenation of the slices of the map", "fmap-getitem-" + form, want, got, pieces=pieces)
