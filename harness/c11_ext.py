"""C11, extensions: (1) the SHAPE tie of the executable tree operations of Model/PruneInvariance.lean (`rootedAt`, `unrootedM`)
against cogent3's own rooted_at / rooted_with_tip / unrooted; (2) further relations run on the real likelihood function:
states renamed by a permutation (alignment letters incl. ambiguity codes, motif probabilities and rate parameters moved
together), an internal edge of length 0 contracted, polytomies resolved with cogent3's own bifurcating()."""
from __future__ import annotations

import copy
import itertools
import math

from . import c02_util as U
from .common import add_failure, bump

# --------------------------------------------------------------------------
# (1) shapes
# --------------------------------------------------------------------------

def _ids(tree):
    """name -> id for every non-root node (pre-order), id -> length"""
    ids, lens = {}, {}

    def walk(n):
        for c in n["children"]:
            ids[c["name"]] = len(ids)
            lens[c["name"]] = c["len"]
            walk(c)

    walk(tree)
    return ids, lens


def _to_shape(n, ids, top=True):
    e = -1 if top else ids[n["name"]]
    if not n["children"] and not top:
        return {"e": e, "l": e}
    return {"e": e, "c": [_to_shape(c, ids, False) for c in n["children"]]}


def _model_shape(j, top=True):
    """(edge id or None for the root, childless?, children); a former unary root that ends up below its only child is a
    childless node in both (cogent3 then shows it as a tip carrying the name of the edge it hangs below)"""
    return (None if top else j["e"], not j.get("c"), tuple(_model_shape(c, False) for c in j.get("c", [])))


def _real_shape(node, ids, top=True):
    return (None if top else ids.get(node.name, ("unknown", node.name)), not node.children,
            tuple(_real_shape(c, ids, False) for c in node.children))


def _canon(t):
    e, leaf, cs = t
    return (e, leaf, tuple(sorted((_canon(c) for c in cs), key=repr)))


def _paths(tree):
    """[(name, path, is_tip, path of the parent)] for every node incl. the root"""
    out = [("root", [], False, None)]

    def walk(n, path):
        for i, c in enumerate(n["children"]):
            out.append((c["name"], path + [i], not c["children"], path))
            walk(c, path + [i])

    walk(tree, [])
    return out


def _real_lengths(node, acc, top=True):
    if not top:
        acc[node.name] = node.length
    for c in node.children:
        _real_lengths(c, acc, False)
    return acc


def shape_tie(ctx, rng, out, ntrees):
    """model `rootedAt` / `unrootedM` vs cogent3 on random trees (3-9 tips, polytomies, unary nodes, names from the
    prefix/suffix families): every internal node and the root through rooted_at, every tip through rooted_with_tip AND
    through rooted_at (must be refused by both), unrooted() of every tree; compared: children in order, which edge (name)
    every node hangs below, every edge's length (for unrooted(): sister length == sister + collapsed)"""
    import cogent3
    from cogent3.core.tree import TreeError

    for _ in range(ntrees):
        ntips = rng.randint(3, 9)
        tree = U.rand_tree(rng, ntips, unary=rng.random() < 0.3, root_deg=rng.choice([None, None, 2, 2, 3]))
        if rng.random() < 0.15:
            # a root with a single child (unrooted() expands it too)
            tree = dict(name="root", len=None, children=[dict(name="only", len=U.rand_length(rng), children=tree["children"])])
        ids, lens = _ids(tree)
        nwk = U.newick(tree)
        shape = _to_shape(tree, ids)
        real = cogent3.make_tree(nwk)
        reqs, meta = [], []
        for name, path, is_tip, ppath in _paths(tree):
            reqs.append(("reroot", dict(tree=shape, path=path)))
            meta.append(("rooted_at", name, is_tip))
            if is_tip:
                reqs.append(("reroot", dict(tree=shape, path=ppath)))
                meta.append(("rooted_with_tip", name, False))
        # a path that leaves the tree
        reqs.append(("reroot", dict(tree=shape, path=[len(tree["children"]) + rng.randint(0, 2)])))
        meta.append(("bad_path", None, None))
        reqs.append(("unroot", dict(tree=shape)))
        meta.append(("unrooted", None, None))
        replies = ctx.driver.batch(reqs)
        for (how, name, is_tip), r in zip(meta, replies):
            out["evaluations"] += 1
            inp = dict(op=how, newick=nwk, node=name)
            if "error" in r:
                add_failure(out, "corr", f"driver error ({how})", inp, "reply", r["error"], confirmed=False)
                continue
            if how == "bad_path":
                if not r.get("none"):
                    add_failure(out, "corr", "model rootedAt accepted a path outside the tree", inp, "none", r, confirmed=False)
                continue
            bump(out, "shape_op", how + (":tip" if is_tip else ""))
            try:
                if how == "rooted_at":
                    got = real.rooted_at(name)
                elif how == "rooted_with_tip":
                    got = real.rooted_with_tip(name)
                else:
                    got = real.unrooted()
                err = None
            except TreeError as e:
                got, err = None, "TreeError"
            except Exception as e:  # noqa: BLE001
                got, err = None, type(e).__name__
            if r.get("none") or err:
                if bool(r.get("none")) != (err == "TreeError"):
                    add_failure(out, "corr", f"{how}: refusal differs between model and implementation", inp,
                                "none" if r.get("none") else "a tree", err or "a tree", confirmed=False)
                else:
                    bump(out, "shape_refused", how)
                continue
            want = _model_shape(r["tree"])
            if how == "unrooted":
                # decode merged edges: (c + 1) * 100000 + s  ->  s, and remember the expected length
                merged = {}

                def dec(t):
                    e, leaf, cs = t
                    if e is not None and e >= 100000:
                        c, s = e // 100000 - 1, e % 100000
                        merged[s] = c
                        e = s
                    return (e, leaf, tuple(dec(x) for x in cs))

                want = dec(want)
            have = _real_shape(got, ids)
            # sibling order is not part of this property (lh_child_reorder); it is recorded, not required
            bump(out, "shape_children_order_identical", want == have)
            want, have = _canon(want), _canon(have)
            if want != have:
                add_failure(out, "corr", f"{how}: tree shape differs between model and implementation", inp, repr(want), repr(have), confirmed=False)
                continue
            # lengths travel with the edge names
            rl = _real_lengths(got, {})
            byid = {v: k for k, v in ids.items()}
            bad = None
            for nm, ln in rl.items():
                exp = lens[nm]
                if how == "unrooted" and ids[nm] in merged:
                    cl = lens[byid[merged[ids[nm]]]]
                    exp = exp + cl if (exp is not None and cl is not None) else exp
                if (ln is None) != (exp is None) or (ln is not None and float(ln) != float(exp)):
                    bad = (nm, exp, ln)
                    break
            if bad:
                add_failure(out, "corr", f"{how}: an edge length differs from the modelled one", dict(inp, edge=bad[0]), bad[1], bad[2], confirmed=False)
                continue
            if got.name != "root":
                add_failure(out, "corr", f"{how}: the new root is not named 'root'", inp, "root", got.name, confirmed=False)
                continue
            if how == "unrooted":
                bump(out, "unrooted_root_children", f"{len(tree['children'])}->{len(got.children)}")
            out["nontrivial"].add(("shape", nwk, how, name))


# --------------------------------------------------------------------------
# (2) relations
# --------------------------------------------------------------------------
NUC = "TCAG"


def _masks(sm):
    """{parameter: set of (from, to) nucleotide pairs it multiplies}"""
    pm = getattr(sm, "predicate_masks", None) or {}
    motifs = [str(m) for m in sm.get_alphabet()]
    return {p: {(motifs[i], motifs[j]) for i in range(len(motifs)) for j in range(len(motifs)) if i != j and m[i][j]}
            for p, m in pm.items()}


def _solve_params(masks, order, old, rho):
    """values v' with  prod_{q: (rho x, rho y) in mask_q} v'_q == c * prod_{p: (x, y) in mask_p} old_p  for all x != y and one
    constant c (the generator is normalised, so c is immaterial); None if the renamed model is not the same model"""
    import numpy

    pairs = [(x, y) for x in NUC for y in NUC if x != y]
    A = numpy.zeros((len(pairs), len(order) + 1))
    b = numpy.zeros(len(pairs))
    for r, (x, y) in enumerate(pairs):
        for k, q in enumerate(order):
            if (rho[x], rho[y]) in masks[q]:
                A[r, k] = 1.0
        A[r, len(order)] = -1.0
        b[r] = sum(math.log(old[p]) for p in order if (x, y) in masks[p])
    sol, *_ = numpy.linalg.lstsq(A, b, rcond=None)
    if numpy.abs(A @ sol - b).max() > 1e-9:
        return None
    return {q: float(math.exp(sol[k])) for k, q in enumerate(order)}


def t_state_perm(spec, rng):
    """rename the nucleotides by a permutation rho: alignment letters (ambiguity codes through their sets), motif
    probabilities and the rate parameters (per parameter scope) move together"""
    if spec["kind"] != "nucleotide" or spec["model"] in U.DISCRETE or not spec.get("mprobs"):
        return None
    sm = U.get_sm(spec["model"], **spec.get("model_kw", {}))
    masks = _masks(sm)
    order = list(masks)
    special = {"mprobs", "length", "bprobs", "rate", "psubs", "dpsubs"}
    rate_rules = [r for r in spec["rules"] if r["par_name"] in order]
    other_rules = [r for r in spec["rules"] if r["par_name"] not in order]
    if any(r["par_name"] not in special and not r["par_name"].endswith("_shape") for r in other_rules):
        return None
    glob = {p: 1.0 for p in order}
    for r in rate_rules:
        if "edge" not in r:
            glob[r["par_name"]] = r["init"]
    edges = U.tree_edges(spec["tree"])
    scoped_edges = sorted({r["edge"] for r in rate_rules if "edge" in r})
    per_edge = {}
    for e in scoped_edges:
        v = dict(glob)
        for r in rate_rules:
            if r.get("edge") == e:
                v[r["par_name"]] = r["init"]
        per_edge[e] = v
    perms = [p for p in itertools.permutations(NUC) if "".join(p) != NUC]
    rng.shuffle(perms)
    for p in perms:
        rho = dict(zip(NUC, p))
        newg = _solve_params(masks, order, glob, rho) if order else {}
        if newg is None:
            continue
        newe = {e: _solve_params(masks, order, v, rho) for e, v in per_edge.items()}
        if any(v is None for v in newe.values()):
            continue
        if any(not (2e-6 < x < 5e5) for v in [newg, *newe.values()] for x in v.values()):
            continue
        inv = {frozenset(v): k for k, v in U.IUPAC_DNA.items() if k not in "-?"}

        def letter(ch):
            if ch in "-?":
                return ch
            return inv[frozenset(rho[x] for x in U.IUPAC_DNA[ch])]

        s = copy.deepcopy(spec)
        s["seqs"] = {t: "".join(letter(ch) for ch in v) for t, v in spec["seqs"].items()}
        s["mprobs"] = {rho[x]: v for x, v in spec["mprobs"].items()}
        rules = [dict(par_name=q, init=newg[q]) for q in order]
        for e in scoped_edges:
            rules += [dict(par_name=q, edge=e, init=newe[e][q]) for q in order]
        s["rules"] = rules + other_rules
        s["how"] = "".join(p)
        s["state_perm"] = "".join(p)
        assert edges is not None
        return s, 1
    return None


def _find(tree, name):
    for p, c in _edges(tree):
        if c["name"] == name:
            return p, c
    raise KeyError(name)


def _edges(tree):
    pairs = []

    def walk(n):
        for c in n["children"]:
            pairs.append((n, c))
            walk(c)

    walk(tree)
    return pairs


def t_contract(spec, rng):
    """internal edges get length 0.0 (by parameter rules, so the tree's own 0.0 -> default_length path is not involved);
    the transformed problem has those nodes dissolved, their children in their place among the grandparent's children.
    One edge (70 %), or EVERY internal edge (30 %: the transformed tree is the star tree, a root of degree = number of tips)"""
    inner = [c["name"] for _, c in _edges(spec["tree"]) if c["children"]]
    if not inner:
        return None
    every = len(inner) > 1 and rng.random() < 0.3
    chosen = inner if every else [rng.choice(inner)]
    keep = [r for r in spec["rules"] if r.get("edge") not in chosen]
    orig = copy.deepcopy(spec)
    orig["rules"] = keep + [dict(par_name="length", edge=n, init=0.0) for n in chosen]
    tree = copy.deepcopy(spec["tree"])
    at_root = False
    for n in chosen:
        p, x = _find(tree, n)
        i = p["children"].index(x)
        p["children"][i:i + 1] = x["children"]
        at_root = at_root or p["name"] == "root"
    s = copy.deepcopy(spec)
    s["tree"] = tree
    s["newick"] = U.newick(tree)
    s["rules"] = keep
    s["contracted"] = chosen
    s["contracted_at_root"] = at_root
    s["contracted_all"] = every
    return s, 1, orig


def t_bifurcating(spec, rng):
    """cogent3's own TreeNode.bifurcating(): every polytomy (the root's too) resolved with new zero-length edges; the new
    edges get length 0.0 by explicit rules"""
    import cogent3

    def has_poly(n, top=True):
        return len(n["children"]) > 2 or any(has_poly(c, False) for c in n["children"])

    if not has_poly(spec["tree"]):
        return None
    new = cogent3.make_tree(spec["newick"]).bifurcating(name_unnamed=True)
    old_names = set(U.tree_edges(spec["tree"])) | {"root"}
    k = [0]

    def conv(node, top=True):
        name = "root" if top else node.name
        if not top and name not in old_names:
            name = f"zz{k[0]}"
            k[0] += 1
        return dict(name=name, len=None if top else (float(node.length) if node.length is not None else None),
                    children=[conv(c, False) for c in node.children])

    tree = conv(new)
    added = [n for n in U.tree_edges(tree) if n not in old_names]
    if not added:
        return None
    s = copy.deepcopy(spec)
    s["tree"] = tree
    s["newick"] = U.newick(tree)
    s["rules"] = list(spec["rules"]) + [dict(par_name="length", edge=n, init=0.0) for n in added]
    s["added_edges"] = added
    bad = [n for p, c in _edges(tree) for n in [c["name"]] if n in added and c["len"] not in (0.0, None)]
    if bad:
        raise AssertionError(f"bifurcating() gave a new edge a non-zero length: {bad}")
    return s, 1


# --------------------------------------------------------------------------
# (3) StationaryQ.calcQ: model vs the real method, and the hypotheses of calcQ_reversible_by_construction on real models
# --------------------------------------------------------------------------
class _Stub:
    def __init__(self, R):
        self.R = R

    def calc_exchangeability_matrix(self, word_probs, *params):
        return self.R.copy()


def _ratmat(A):
    from .common import rat

    return [[rat(float(x)) for x in row] for row in A]


def calcq_tie(ctx, rng, out, n):
    """the model's `calcQ` (exact) vs the real StationaryQ.calcQ on the same float64 inputs: (a) the method itself with
    arbitrary exchangeabilities (symmetric / asymmetric, zero or non-zero diagonal), arbitrary mprobs matrices and word
    probabilities, 2-7 states; (b) every nucleotide model and a rotating protein model with their own exchangeability
    matrix at random parameter values, where the hypotheses of calcQ_reversible_by_construction (symmetric exchangeabilities,
    every row of mprobs_matrix == pi) are MEASURED: reversible models must meet them exactly, GN/ssGN are the control"""
    import numpy
    from cogent3.evolve import substitution_model as S

    from .common import rat, unrat

    cases = []
    for _ in range(n):
        m = rng.randint(2, 7)
        R = numpy.array([[rng.choice([0.0, 1.0, 1.0, rng.uniform(0.05, 8.0)]) for _ in range(m)] for _ in range(m)])
        layout = rng.choice(["symmetric", "symmetric", "asymmetric"])
        if layout == "symmetric":
            R = numpy.triu(R, 1) + numpy.triu(R, 1).T + numpy.diag(numpy.diag(R))
        if rng.random() < 0.8:
            numpy.fill_diagonal(R, 0.0)
        pi = numpy.array([rng.uniform(0.05, 1.0) for _ in range(m)])
        pi /= pi.sum()
        rows = rng.random() < 0.6
        M = numpy.array([pi] * m) if rows else numpy.array([[rng.uniform(0.05, 1.0) for _ in range(m)] for _ in range(m)])
        w = pi if rng.random() < 0.7 else numpy.array([rng.uniform(0.05, 1.0) for _ in range(m)])
        if not (R * M).sum(axis=1).dot(w) > 1e-6:
            continue
        cases.append(dict(src="method", layout=layout + (":rows=pi" if rows else ":general-M"), R=R, M=M, w=w, real=_Stub(R), params=(), rev=None))
    kinds = U.model_kinds()
    names = canned([k for k, v in kinds.items() if v == "nucleotide" and k not in U.DISCRETE])
    prot = [k for k, v in kinds.items() if v == "protein"]
    names.append(prot[ctx.seed % len(prot)])
    names += [nm for _, nm in user_models(rng, out)]
    for name in names:
        sm = U.get_sm(name)
        if not hasattr(sm, "calcQ"):
            continue
        motifs = [str(x) for x in sm.get_alphabet()]
        pi = numpy.array([rng.uniform(0.2, 1.0) ** 2 for _ in motifs])
        pi /= pi.sum()
        order = list(getattr(sm, "parameter_order", []))
        params = tuple(round(math.exp(rng.uniform(math.log(0.08), math.log(8.0))), 6) for _ in order)
        try:
            R = numpy.array(sm.calc_exchangeability_matrix(pi, *params), dtype=float)
        except Exception as e:  # noqa: BLE001
            add_failure(out, "corr", "calc_exchangeability_matrix raised", dict(model=name), "a matrix", f"{type(e).__name__}: {e}", confirmed=False)
            continue
        M = numpy.array([pi] * len(motifs))
        cases.append(dict(src="model:" + name, layout=name, R=R, M=M, w=pi, real=sm, params=params, rev=name not in ("GN", "ssGN", "GNC"),
                          stationary=isinstance(sm, S.StationaryQ)))
    reqs = [("calcq", dict(m=len(c["w"]), R=_ratmat(c["R"]), M=_ratmat(c["M"]), w=[rat(float(x)) for x in c["w"]])) for c in cases]
    for c, r in zip(cases, ctx.driver.batch(reqs)):
        out["evaluations"] += 1
        inp = dict(src=c["src"], R=c["R"].tolist(), M=c["M"].tolist(), w=c["w"].tolist(), params=list(c["params"]))
        if "error" in r:
            add_failure(out, "corr", "driver error (calcq)", inp, "reply", r["error"], confirmed=False)
            continue
        try:
            if c["src"] == "method":
                real = S.StationaryQ.calcQ(c["real"], c["w"].copy(), c["M"].copy())
            else:
                real = c["real"].calcQ(c["w"].copy(), c["M"].copy(), *c["params"])
            real = numpy.array(real, dtype=float)
        except Exception as e:  # noqa: BLE001
            add_failure(out, "corr", "StationaryQ.calcQ raised", inp, "a rate matrix", f"{type(e).__name__}: {e}", confirmed=False)
            continue
        model = numpy.array([[float(unrat(x)) for x in row] for row in r["Q"]])
        bump(out, "calcQ_case", c["layout"] if c["src"] == "method" else "real-model")
        tol = 1e-12 * max(1.0, float(numpy.abs(model).max()))
        if not c.get("stationary", True):
            pass  # GN / ssGN use the general calcQ (no multiplication by the motif probabilities): only the symmetry control below
        elif real.shape != model.shape or not numpy.all(numpy.abs(real - model) <= tol):
            add_failure(out, "corr", "StationaryQ.calcQ differs from the modelled calcQ", inp, model.tolist(), real.tolist(), confirmed=False)
            continue
        if c["rev"] is not None:
            sym = float(unrat(r["sym"]))
            bump(out, "exchangeabilities_symmetric:" + ("reversible" if c["rev"] else "nonreversible-control"), sym == 0.0)
            if c["rev"] and sym != 0.0:
                add_failure(out, "corr", "theorem hypothesis (symmetric exchangeabilities) not met by a model declared time-reversible",
                            inp, 0.0, sym, confirmed=False)
                continue
        out["nontrivial"].add(("calcq", c["src"], len(c["w"]), c["layout"]))


# --------------------------------------------------------------------------
# (4) parameter scopes given by a clade specification (tip_names + outgroup_name [+ clade / stem]) or an edge list
# --------------------------------------------------------------------------
_SPECIAL = {"mprobs", "length", "bprobs", "rate", "psubs", "dpsubs"}


def is_scope_rule(r):
    return "tip_names" in r or "edges" in r


def scope_edges(tree, r):
    """the edge names a rule applies to, computed on the UNDIRECTED tree (independent of cogent3 and of the rooting): with the
    outgroup tip z as the point of view, the join node is where the paths z->tip1 and z->tip2 part; `stem` is the edge from the
    join node towards z, `clade` is every edge beyond the join node as seen from z"""
    if "edges" in r:
        return list(r["edges"])
    t1, t2 = r["tip_names"]
    z = r["outgroup_name"]
    stem = bool(r.get("stem")) if r.get("stem") is not None else False
    clade = r.get("clade") if r.get("clade") is not None else (not stem)
    adj = {}
    for p, c in _edges(tree):
        adj.setdefault(p["name"], []).append((c["name"], c["name"]))
        adj.setdefault(c["name"], []).append((p["name"], c["name"]))
    up = {z: None}
    order = [z]
    for u in order:
        for v, e in adj[u]:
            if v not in up:
                up[v] = (u, e)
                order.append(v)

    def chain(u):
        out = [u]
        while up[out[-1]] is not None:
            out.append(up[out[-1]][0])
        return out

    c2 = set(chain(t2))
    join = next(u for u in chain(t1) if u in c2)
    names = []
    if stem:
        names.append(up[join][1])
    if clade:
        names += [up[u][1] for u in order if u != join and join in chain(u)]
    return names


def add_scope_rules(base, rng):
    """append 1-2 rules that scope a rate parameter by a clade specification relative to an outgroup tip (clade / stem / both,
    flags explicit or left to their defaults) or by an explicit list of edges; the tips are drawn so that all three lie anywhere
    in the tree (the outgroup inside or outside the clade as the tree happens to be rooted)"""
    tips = U.tree_tips(base["tree"])
    params = sorted({r["par_name"] for r in base["rules"] if r["par_name"] not in _SPECIAL and not r["par_name"].endswith("_shape")})
    if len(tips) < 4 or not params:
        return False
    edges = U.tree_edges(base["tree"])
    for _ in range(rng.choice([1, 1, 2])):
        p = rng.choice(params)
        v = round(math.exp(rng.uniform(math.log(0.08), math.log(8.0))), 6)
        if rng.random() < 0.2:
            base["rules"].append(dict(par_name=p, edges=rng.sample(edges, rng.randint(2, max(2, len(edges) - 1))), init=v))
            continue
        t1, t2, z = rng.sample(tips, 3)
        r = dict(par_name=p, tip_names=[t1, t2], outgroup_name=z, init=v)
        mode = rng.choice(["default", "clade", "stem", "both", "stem-only-explicit"])
        if mode == "clade":
            r["clade"] = True
        elif mode == "stem":
            r["stem"] = True
        elif mode == "both":
            r["clade"], r["stem"] = True, True
        elif mode == "stem-only-explicit":
            r["clade"], r["stem"] = False, True
        base["rules"].append(r)
    base["scope_rules"] = True
    return True


def resolved(spec):
    """the same problem with every clade / edge-list scoped rule replaced by per-edge rules for the independently computed edge set"""
    if not any(is_scope_rule(r) for r in spec["rules"]):
        return spec
    s = copy.deepcopy(spec)
    rules = []
    for r in spec["rules"]:
        if is_scope_rule(r):
            rest = {k: v for k, v in r.items() if k not in ("tip_names", "outgroup_name", "clade", "stem", "edges")}
            rules += [dict(rest, edge=e) for e in scope_edges(spec["tree"], r)]
        else:
            rules.append(r)
    s["rules"] = rules
    s["resolved_scopes"] = True
    return s


def rename_rules(rules, ren):
    out = []
    for r in rules:
        r = dict(r)
        if "edge" in r:
            r["edge"] = ren.get(r["edge"], r["edge"])
        if "edges" in r:
            r["edges"] = [ren.get(e, e) for e in r["edges"]]
        if "tip_names" in r:
            r["tip_names"] = [ren.get(e, e) for e in r["tip_names"]]
        if r.get("outgroup_name") is not None:
            r["outgroup_name"] = ren.get(r["outgroup_name"], r["outgroup_name"])
        out.append(r)
    return out


def scope_kind(spec):
    ks = set()
    for r in spec["rules"]:
        if "edges" in r:
            ks.add("edge-list")
        elif "tip_names" in r:
            stem = bool(r.get("stem"))
            clade = r.get("clade") if r.get("clade") is not None else (not stem)
            ks.add("+".join(x for x, on in (("clade", clade), ("stem", stem)) if on))
    return ",".join(sorted(ks))


def outgroup_layout(tree, r):
    """where the outgroup lies relative to LCA(tip1, tip2) in the tree AS ROOTED: 'lca-is-root', 'outside-lca-subtree' or
    'inside-lca-subtree' (the clade then 'traverses the root' of the stored tree)"""
    par = {c["name"]: p["name"] for p, c in _edges(tree)}

    def anc(u):
        out = [u]
        while out[-1] in par:
            out.append(par[out[-1]])
        return out

    a2 = set(anc(r["tip_names"][1]))
    lca = next(u for u in anc(r["tip_names"][0]) if u in a2)
    if lca == "root":
        return "lca-is-root"
    return "inside-lca-subtree" if lca in anc(r["outgroup_name"]) else "outside-lca-subtree"


def t_scope_explicit(spec, rng):
    if not any(is_scope_rule(r) for r in spec["rules"]):
        return None
    s = resolved(spec)
    s["how"] = scope_kind(spec)
    return s, 1


# --------------------------------------------------------------------------
# (5) user-built models: whatever the library hands out as a TimeReversible model must behave like one
# --------------------------------------------------------------------------
USER_PREFIX = "UTR:"
_PAIRS6 = ["A/C", "A/G", "A/T", "C/G", "C/T", "G/T"]


def _user_predicates(name):
    from cogent3.evolve.predicate import MotifChange

    preds = {}
    for label in name[len(USER_PREFIX):].split(";"):
        p = None
        for term in label.split("|"):
            if ">" in term:
                x, y = term.split(">")
                q = MotifChange(x, y, forward_only=True)
            else:
                x, y = term.split("/")
                q = MotifChange(x, y)
            p = q if p is None else (p | q)
        preds[label] = p
    return preds


def ensure_model(name, **kw):
    """build (once) the user-defined TimeReversibleNucleotide model encoded in `name` = 'UTR:' + parameters separated by ';', each a
    union ('|') of terms 'X/Y' (both directions) or 'X>Y' (one direction); registers it where c02_util.get_sm / kind_of look"""
    key = (name, tuple(sorted(kw.items())))
    if key not in U._MODEL_CACHE:
        from cogent3.evolve.substitution_model import TimeReversibleNucleotide

        U._MODEL_CACHE[key] = TimeReversibleNucleotide(predicates=_user_predicates(name), recode_gaps=True, model_gaps=False, name=name, **kw)
    U.model_kinds()[name] = "nucleotide"
    return U._MODEL_CACHE[key]


_plain_get_sm = U.get_sm


def _get_sm(name, **kw):
    if isinstance(name, str) and name.startswith(USER_PREFIX):
        return ensure_model(name, **kw)
    return _plain_get_sm(name, **kw)


U.get_sm = _get_sm  # problem descriptions (and replays) may name a user-built model


def canned(names):
    return [n for n in names if not n.startswith(USER_PREFIX)]


def rand_user_models(rng):
    """one candidate per layout of the predicate set: (layout, name)"""
    def pairs(k):
        return rng.sample(_PAIRS6, k)

    def directed(pair, flip=False):
        x, y = pair.split("/")
        return f"{y}>{x}" if flip else f"{x}>{y}"

    out = []
    # symmetric terms only, disjoint parameters
    k = rng.randint(1, 4)
    chosen = pairs(rng.randint(k, 5))
    groups = [[] for _ in range(k)]
    for i, p in enumerate(chosen):
        groups[i % k].append(p)
    out.append(("symmetric-disjoint", [sorted(g) for g in groups]))
    # symmetric, one parameter's terms contained in another's
    a, b, c = pairs(3)
    out.append(("symmetric-nested", [[a], sorted([a, b])] + ([[c]] if rng.random() < 0.5 else [])))
    # both directions of a pair inside ONE parameter (balanced), next to a symmetric one
    a, b = pairs(2)
    out.append(("directional-balanced-within-parameter", [[directed(a), directed(a, True)], [b]]))
    # the two directions of a pair as two SEPARATE parameters (each unbalanced, their sum balanced)
    a, b = pairs(2)
    out.append(("directional-mirrored-parameters", [[directed(a)], [directed(a, True)]] + ([[b]] if rng.random() < 0.5 else [])))
    # two parameters, each a union of one-directional terms, mirror images of each other
    a, b = pairs(2)
    fa, fb = rng.random() < 0.5, rng.random() < 0.5
    out.append(("directional-mirrored-unions", [[directed(a, fa), directed(b, fb)], [directed(a, not fa), directed(b, not fb)]]))
    # a single one-directional term
    a, b = pairs(2)
    out.append(("directional-single", [[directed(a, rng.random() < 0.5)]] + ([[b]] if rng.random() < 0.5 else [])))
    # a directed 3-cycle in one parameter
    x, y, z = rng.sample("ACGT", 3)
    out.append(("directional-cycle", [[f"{x}>{y}", f"{y}>{z}", f"{z}>{x}"]]))
    return [(layout, USER_PREFIX + ";".join("|".join(terms) for terms in params)) for layout, params in out]


def user_models(rng, out):
    """the candidates the library ACCEPTS as TimeReversible models (a refusal - ValueError - is counted and is fine: what must not
    happen is a model handed out as time-reversible that is not)"""
    from cogent3.evolve.substitution_model import TimeReversible

    accepted = []
    for layout, name in rand_user_models(rng):
        try:
            sm = ensure_model(name)
        except ValueError as e:
            bump(out, "user_model:" + layout, "refused: " + str(e)[:60])
            continue
        except Exception as e:  # noqa: BLE001
            add_failure(out, "spec", "building a user-defined TimeReversibleNucleotide model raised something other than ValueError",
                        dict(model=name), "a model or ValueError", f"{type(e).__name__}: {e}", sig=f"user-model-raised:{layout}:{type(e).__name__}")
            continue
        bump(out, "user_model:" + layout, "accepted" if isinstance(sm, TimeReversible) else "accepted-not-TimeReversible")
        if isinstance(sm, TimeReversible):
            accepted.append((layout, name))
    return accepted
