"""C18 — progressive alignment: the column-merge step on an arbitrary guide tree.

At every internal node of the guide tree the POG pair-HMM returns `aligned_positions`; `indel_positions.pog_traceback`
completes them (every child column exactly once), `traceback.map_traceback` turns them into two maps and
`pairwise.AlignablePOG._calcAligneds` re-gaps every row of both children.  This module

* observes every such step of the REAL aligner (hook on `PairEmissionProbs.get_alignable`: children's rows, the DP's
  aligned positions, the completed positions, the resulting rows) while `progressive_align` / `tree_align` run,
* drives the same real code directly (`pog_traceback` + `AlignablePOG._calcAligneds` with a duck-typed `self`) on
  random guide trees with random DP outcomes, including jumped-over columns,
* compares each step with the Lean model `Model/Progressive.lean` (driver command `pognode`, whole trees `progtree`),
* and checks each step against an independent row-level oracle written here: the completed positions contain every
  child column once and in order and keep the DP's columns; the parent's rows restricted to a child's columns are
  the child's rows (`progressive_keeps_children_repaired` is the theorem for it).

Nothing of the source text of cogent3 is inspected; everything is behavioural.
"""
from __future__ import annotations

import contextlib
import types

from .common import add_failure, bump

DNA = "ACGT"
KNOWN_CLASS = "parent-gap-applied-at-sequence-position"
MAX_KNOWN_KEPT = 6  # failures of the known class kept per outcome (all are counted in the histogram)


# --------------------------------------------------------------------------
# independent oracle (rows and positions only)
# --------------------------------------------------------------------------
def _pos(p):
    return tuple(None if x is None else int(x) for x in p)


def positions_problem(n1, n2, ap, full):
    """spec of pog_traceback: None if `full` contains every column of both children exactly once and in order, keeps
    the DP's aligned columns `ap` as a sub-sequence and every added column is one-sided"""
    for dim, n in ((0, n1), (1, n2)):
        if [p[dim] for p in full if p[dim] is not None] != list(range(n)):
            return f"child {dim} columns are not 0..{n - 1} once and in order"
    it = iter(full)
    if not all(any(q == p for q in it) for p in ap):
        return "the DP's aligned positions are not a sub-sequence of the completed positions"
    extra = len(full) - len(ap)
    one_sided = sum(1 for p in full if (p[0] is None) != (p[1] is None))
    if one_sided < extra:
        return "an added column is not one-sided"
    if any(p[0] is None and p[1] is None for p in full):
        return "a column that belongs to neither child"
    return None


def spec_merge(row, full, dim):
    """the child's row read through the completed positions"""
    return "".join(row[p[dim]] if p[dim] is not None and p[dim] < len(row) else "-" for p in full)


def defect_merge(row, full, dim):
    """what the known defect produces: the parent's gap at child COLUMN c is put before RESIDUE number c of the row
    (at the end when there is no such residue)"""
    seq = row.replace("-", "")
    gaps = {}
    k = 0
    for c in row:
        if c == "-":
            gaps[k] = gaps.get(k, 0) + 1
        else:
            k += 1
    k = 0
    for p in full:
        if p[dim] is None:
            gaps[k] = gaps.get(k, 0) + 1
        else:
            k += 1
    out = []
    for i, c in enumerate(seq):
        out.append("-" * gaps.get(i, 0))
        out.append(c)
    out.append("-" * sum(l for q, l in gaps.items() if q >= len(seq)))
    return "".join(out)


def classify(row, full, dim, got):
    return KNOWN_CLASS if got == defect_merge(row, full, dim) and got != spec_merge(row, full, dim) else "other"


# --------------------------------------------------------------------------
# observing the real aligner
# --------------------------------------------------------------------------
@contextlib.contextmanager
def capture_nodes():
    """records every column-merge step performed while the block runs"""
    from cogent3.align import pairwise as pw

    rec = []
    orig = pw.PairEmissionProbs.get_alignable

    def hook(self, aligned_positions, ratio=None):
        res = orig(self, aligned_positions, ratio)
        try:
            ch = self.pair.children
            rec.append(
                dict(
                    ap=[_pos(p) for _, p in aligned_positions],
                    sizes=[len(c.get_pog()) for c in ch],
                    kids=[[(n, str(a)) for n, a in c.aligneds] for c in ch],
                    full=[_pos(p) for p in res.pog.get_full_aligned_positions()],
                    out=[(n, str(a)) for n, a in res.aligneds],
                )
            )
        except Exception as ex:  # noqa: BLE001
            rec.append(dict(error=type(ex).__name__ + ": " + str(ex)[:100]))
        return res

    pw.PairEmissionProbs.get_alignable = hook
    try:
        yield rec
    finally:
        pw.PairEmissionProbs.get_alignable = orig


class _Alpha:
    def __init__(self, w=1):
        self.w = w

    def get_motif_len(self):
        return self.w


def real_merge(kids, pogs, ap, calc=None):
    """the real completion + re-gapping code on given children; kids: [[(name, Aligned)], [(name, Aligned)]]"""
    from cogent3.align import pairwise as pw
    from cogent3.align.indel_positions import pog_traceback

    pog = pog_traceback(pogs, [list(p) for p in ap])
    me = types.SimpleNamespace(alphabet=_Alpha(), pog=pog)
    children = [types.SimpleNamespace(aligneds=k) for k in kids]
    out = (calc or pw.AlignablePOG._calcAligneds)(me, children)
    return pog, out


def real_leaf(name, s):
    from cogent3 import make_seq
    from cogent3.align.indel_positions import LeafPOG
    from cogent3.core.alignment import Aligned
    from cogent3.core.location import IndelMap

    seq = make_seq(s, name=name, moltype="dna")
    im = IndelMap.from_aligned_segments(locations=[(0, len(s))], aligned_length=len(s))
    return [(name, Aligned(im, seq))], LeafPOG(len(s))


def rand_ap(rng, n1, n2, style):
    """a DP outcome over two children of widths n1, n2: strictly increasing columns in each dimension, some columns
    jumped over (absent), one-sided and two-sided entries"""
    skip = {"plain": 0.0, "jumps": 0.2, "gappy": 0.1, "empty": 1.0}[style]
    one = {"plain": 0.15, "jumps": 0.2, "gappy": 0.5, "empty": 0.0}[style]
    ap = []
    i = j = 0
    while i < n1 or j < n2:
        r = rng.random()
        if r < skip:
            if i < n1 and (j >= n2 or rng.random() < 0.5):
                i += 1
            else:
                j += 1
            continue
        if rng.random() < one or i >= n1 or j >= n2:
            if i < n1 and (j >= n2 or rng.random() < 0.5):
                ap.append((i, None))
                i += 1
            else:
                ap.append((None, j))
                j += 1
        else:
            ap.append((i, j))
            i += 1
            j += 1
    return ap


class MergeRaised(Exception):
    """the real merge code raised at a node; `spec` is the (replayable) subtree ending in that node"""

    def __init__(self, spec, ex):
        super().__init__(type(ex).__name__ + ": " + str(ex)[:120])
        self.spec = spec
        self.ex = ex


def build_real_tree(rng, depth, counter, nodes, calc=None, maxlen=6):
    """random guide tree evaluated bottom-up with the real code; returns (kids, pog, rows, spec) and appends one record
    per internal node to `nodes`"""
    if depth == 0 or rng.random() < 0.3:
        counter[0] += 1
        name = f"s{counter[0]}"
        s = "".join(rng.choice(DNA) for _ in range(rng.randint(1, maxlen)))
        k, p = real_leaf(name, s)
        return k, p, [(name, s)], dict(k="leaf", name=name, seq=s)
    k1, p1, r1, t1 = build_real_tree(rng, depth - 1, counter, nodes, calc, maxlen)
    k2, p2, r2, t2 = build_real_tree(rng, depth - 1, counter, nodes, calc, maxlen)
    style = rng.choice(["plain", "jumps", "jumps", "gappy", "gappy", "empty"]) if rng.random() < 0.9 else "empty"
    ap = rand_ap(rng, len(p1), len(p2), style)
    try:
        pog, out = real_merge([k1, k2], [p1, p2], ap, calc)
        got = [(n, str(a)) for n, a in out]
    except Exception as ex:  # noqa: BLE001
        raise MergeRaised(dict(k="node", l=t1, r=t2, ap=[list(p) for p in ap]), ex) from ex
    nodes.append(dict(ap=ap, sizes=[len(p1), len(p2)], kids=[r1, r2], full=[_pos(p) for p in pog.get_full_aligned_positions()], out=got, style=style))
    return out, pog, got, dict(k="node", l=t1, r=t2, ap=[list(p) for p in ap])


def replay_tree(spec, nodes, calc=None):
    """evaluates a recorded tree spec with the real code"""
    if spec["k"] == "leaf":
        k, p = real_leaf(spec["name"], spec["seq"])
        return k, p, [(spec["name"], spec["seq"])]
    k1, p1, r1 = replay_tree(spec["l"], nodes, calc)
    k2, p2, r2 = replay_tree(spec["r"], nodes, calc)
    ap = [_pos(p) for p in spec["ap"]]
    pog, out = real_merge([k1, k2], [p1, p2], ap, calc)
    got = [(n, str(a)) for n, a in out]
    nodes.append(dict(ap=ap, sizes=[len(p1), len(p2)], kids=[r1, r2], full=[_pos(p) for p in pog.get_full_aligned_positions()], out=got, style="replay"))
    return out, pog, got


def merge_variant(ctx):
    """which column merge the tree under test has: as pinned (False) or the proposed repair
    fixes/C18-progressive-column-merge.patch (True); the Lean model carries both"""
    if not hasattr(ctx, "_c18_prog_fixed"):
        nodes = []
        try:
            replay_tree(WITNESS_TREE, nodes)
            third = nodes[-1]["out"][2][1]
        except Exception as ex:  # noqa: BLE001
            third = f"raised {type(ex).__name__}"
        ctx._c18_prog_fixed = third == "--A"
        ctx.notes.append(f"progressive column merge under test: {'repaired' if ctx._c18_prog_fixed else 'as pinned'} (probe row -> {third})")
    return ctx._c18_prog_fixed


WITNESS_TREE = dict(
    k="node",
    l=dict(k="leaf", name="g", seq="GA"),
    r=dict(k="node", l=dict(k="leaf", name="c", seq="CA"), r=dict(k="leaf", name="a", seq="A"), ap=[[0, None], [1, 0]]),
    ap=[[None, 0], [0, None], [1, 1]],
)


# --------------------------------------------------------------------------
# checking recorded steps
# --------------------------------------------------------------------------
def _keep_known(out):
    n = out["dist"].get("_prog_known_kept", 0)
    out["dist"]["_prog_known_kept"] = n + 1
    return n < MAX_KNOWN_KEPT


def check_nodes(ctx, out, nodes, inp, prefix, fixed=None, model=True):
    """every recorded column-merge step against the oracle (kind 'spec', signature prefix `prefix`) and against the
    Lean model (kind 'corr').  `inp` is the replayable input of the whole run.  Returns the number of spec failures."""
    nfail = 0
    drv = getattr(ctx, "driver", None) if model else None
    if fixed is None:
        fixed = merge_variant(ctx)
    reqs = []
    for nd in nodes:
        out["evaluations"] += 1
        if "error" in nd:
            add_failure(out, "corr", "could not observe a column-merge step", inp, "children, positions, rows", nd["error"], confirmed=False)
            continue
        n1, n2 = nd["sizes"]
        ap, full = nd["ap"], nd["full"]
        left, right = nd["kids"]
        rows = nd["out"]
        bump(out, "prog_node_rows", len(rows))
        bump(out, "prog_node_kind", ("leaf" if len(left) == 1 else "aln") + "+" + ("leaf" if len(right) == 1 else "aln"))
        bump(out, "prog_node_jumped_columns", min(len(full) - len(ap), 5))
        where = dict(inp, node=dict(left=left, right=right, aligned_positions=[list(p) for p in ap]))
        prob = positions_problem(n1, n2, ap, full)
        if prob:
            nfail += 1
            add_failure(out, "spec", "progressive alignment: the completed positions of a node lose/duplicate/reorder child columns: " + prob,
                        where, "every child column once, in order, DP columns kept", [list(p) for p in full], sig=f"{prefix}:positions-incomplete")
            continue
        if [n for n, _ in rows] != [n for n, _ in left + right]:
            nfail += 1
            add_failure(out, "spec", "progressive alignment: a node's rows are not the rows of its two children", where, [n for n, _ in left + right], rows, sig=f"{prefix}:names-differ")
            continue
        bad = None
        for k, (name, got) in enumerate(rows):
            child, dim = (left[k][1], 0) if k < len(left) else (right[k - len(left)][1], 1)
            if len(child) != (n1, n2)[dim]:
                bad = (name, child, got, "child-row-length-ne-width", f"row of length {(n1, n2)[dim]}")
                break
            if got.replace("-", "") != child.replace("-", ""):
                bad = (name, child, got, "degap", child.replace("-", ""))
                break
            if len(got) != len(full):
                bad = (name, child, got, "unequal-length", f"length {len(full)}")
                break
            want = spec_merge(child, full, dim)
            if got != want:
                bad = (name, child, got, "child-alignment-not-kept:" + classify(child, full, dim, got), want)
                break
        if bad:
            name, child, got, cls, want = bad
            nfail += 1
            bump(out, "prog_merge_failure", cls)
            if not cls.endswith(KNOWN_CLASS) or _keep_known(out):
                add_failure(out, "spec", "progressive alignment: a row of the merged alignment is not the child's row read through the node's aligned columns "
                            "(the sub-alignment / the columns the DP aligned are not kept)", dict(where, row=name, child_row=child), want, dict(row=got, rows=rows), sig=f"{prefix}:{cls}")
        else:
            bump(out, "prog_merge_kept", "with-new-gap" if any(len(g) > len(c) for (_, g), (_, c) in zip(rows, left + right)) else "no-new-gap")
            if len(left) + len(right) >= 3 and any("-" in c for _, c in left + right) and len(full) > max(n1, n2):
                out["nontrivial"].add(("prognode", str(left), str(right), str(ap)))
        if drv is not None:
            reqs.append((nd, ("pognode", dict(n1=n1, n2=n2, ap=[list(p) for p in ap], left=[r for _, r in left], right=[r for _, r in right], fixed=bool(fixed)))))
    if reqs:
        res = drv.batch([r for _, r in reqs])
        for (nd, _), m in zip(reqs, res):
            where = dict(inp, node=dict(left=nd["kids"][0], right=nd["kids"][1], aligned_positions=[list(p) for p in nd["ap"]]), variant="repaired" if fixed else "pinned")
            if not isinstance(m, dict) or "err" in m or "error" in m:
                add_failure(out, "corr", "progressive model raised", where, nd["out"], m, confirmed=False)
                continue
            mfull = [_pos(p) for p in m["full"]]
            if mfull != nd["full"]:
                add_failure(out, "corr", "pog_traceback: model's completed positions differ from the implementation's", where, mfull, nd["full"], confirmed=False)
            elif not m["valid"]:
                add_failure(out, "corr", "the DP returned aligned positions outside the model's validity condition (apValid)", where, True, False, confirmed=False)
            elif m["rows"] != [r for _, r in nd["out"]]:
                add_failure(out, "corr", "_calcAligneds: model rows differ from the implementation's", where, m["rows"], [r for _, r in nd["out"]], confirmed=False)
            else:
                bump(out, "prog_model_tie", "repaired" if fixed else "pinned")
    return nfail


def synthetic_checks(ctx, out, rng, n, model=True):
    """random guide trees with random DP outcomes through the real completion + re-gapping code"""
    for _ in range(n):
        nodes = []
        counter = [0]
        depth = rng.choice([1, 2, 2, 3, 3, 4])
        try:
            _, _, rows, spec = build_real_tree(rng, depth, counter, nodes, maxlen=rng.choice([2, 4, 6, 9]))
        except MergeRaised as ex:
            add_failure(out, "spec", "progressive column merge raised on a valid DP outcome", dict(tree=ex.spec), "rows", str(ex), sig=f"progmerge:raised:{type(ex.ex).__name__}")
            continue
        bump(out, "progmerge_tree_leaves", counter[0])
        check_nodes(ctx, out, nodes, dict(tree=spec), "progmerge", model=model)
        if model and getattr(ctx, "driver", None) is not None and spec["k"] == "node" and rng.random() < 0.3:
            m = ctx.driver.batch([("progtree", dict(tree=spec, fixed=bool(merge_variant(ctx))))])[0]
            if not isinstance(m, dict) or m.get("rows") != [r for _, r in rows] or not m.get("valid"):
                add_failure(out, "corr", "whole-tree model rows differ from the implementation's", dict(tree=spec), m, rows, confirmed=False)
            else:
                bump(out, "prog_model_tie", "whole-tree")


def malformed_positions_tie(ctx, out, rng, n):
    """pog_traceback on position lists no DP returns (non-monotone, out of range): the model mirrors the loop for any
    list, so the completed positions must still agree (and the model must say `valid = false` iff the oracle objects)"""
    from cogent3.align.indel_positions import LeafPOG, pog_traceback

    if getattr(ctx, "driver", None) is None:
        return
    cases = []
    for _ in range(n):
        n1, n2 = rng.randint(0, 5), rng.randint(0, 5)
        ap = []
        for _ in range(rng.randint(0, 5)):
            a = rng.choice([None] + list(range(n1 + 1))) if n1 else None
            b = rng.choice([None] + list(range(n2 + 1))) if n2 else None
            if a is None and b is None:
                continue
            ap.append((None if a is None or a >= n1 else a, None if b is None or b >= n2 else b))
        ap = [p for p in ap if p != (None, None)]
        cases.append((n1, n2, ap))
    res = ctx.driver.batch([("pognode", dict(n1=a, n2=b, ap=[list(p) for p in ap], left=[], right=[], fixed=False)) for a, b, ap in cases])
    for (n1, n2, ap), m in zip(cases, res):
        out["evaluations"] += 1
        try:
            full = [_pos(p) for p in pog_traceback([LeafPOG(n1), LeafPOG(n2)], [list(p) for p in ap]).get_full_aligned_positions()]
        except Exception as ex:  # noqa: BLE001
            bump(out, "prog_malformed", "raised:" + type(ex).__name__)
            continue
        ok = positions_problem(n1, n2, ap, full) is None
        bump(out, "prog_malformed", "complete" if ok else "incomplete")
        if not isinstance(m, dict) or [_pos(p) for p in m.get("full", [])] != full:
            add_failure(out, "corr", "pog_traceback (arbitrary position list): model differs from the implementation", dict(n1=n1, n2=n2, ap=ap), m, full, confirmed=False)
        elif m["valid"] and not ok:
            add_failure(out, "corr", "model accepts a position list whose completion is incomplete", dict(n1=n1, n2=n2, ap=ap), False, True, confirmed=False)


# --------------------------------------------------------------------------
# the proposed repair
# --------------------------------------------------------------------------
def repaired_calc_fn(ctx):
    """`AlignablePOG._calcAligneds` of a scratch copy of align/pairwise.py with the proposed repair applied (None if the
    patch does not apply, e.g. because the tree already contains it)"""
    if hasattr(ctx, "_c18_prog_repaired_fn"):
        return ctx._c18_prog_repaired_fn
    import ast
    import shutil
    import subprocess

    from cogent3.align import pairwise as pw

    from .common import SRC, VERIF

    fn = None
    try:
        d = ctx.scratch / "repair_prog"
        (d / "src" / "cogent3" / "align").mkdir(parents=True, exist_ok=True)
        shutil.copy(SRC / "align" / "pairwise.py", d / "src" / "cogent3" / "align" / "pairwise.py")
        pr = subprocess.run(["patch", "-p1", "-s", "-i", str(VERIF / "fixes" / "C18-progressive-column-merge.patch")], cwd=d, capture_output=True, text=True)
        if pr.returncode == 0:
            src = (d / "src" / "cogent3" / "align" / "pairwise.py").read_text()
            cls = next(n for n in ast.parse(src).body if isinstance(n, ast.ClassDef) and n.name == "AlignablePOG")
            node = next(n for n in cls.body if isinstance(n, ast.FunctionDef) and n.name == "_calcAligneds")
            ns = dict(pw.__dict__)
            exec(compile(ast.Module(body=[node], type_ignores=[]), "repaired_pairwise.py", "exec"), ns)
            fn = ns["_calcAligneds"]
        else:
            ctx.notes.append("proposed repair C18-progressive-column-merge.patch does not apply to this tree (already applied?): repaired-variant tie skipped")
    except Exception as ex:  # noqa: BLE001
        ctx.notes.append(f"repaired progressive variant tie skipped: {type(ex).__name__}: {ex}")
    ctx._c18_prog_repaired_fn = fn
    return fn


def repaired_checks(ctx, out, rng, n):
    """the PROPOSED REPAIR (not the code under test) must agree with the model's `fixed = true` variant — the one
    `progressive_keeps_children_repaired` is about — and must keep every sub-alignment.  Failures here are about the
    repair/model (kind 'corr'), never violations of the code."""
    fn = repaired_calc_fn(ctx)
    if fn is None or getattr(ctx, "driver", None) is None:
        return
    from .common import new_outcome

    for _ in range(n):
        nodes = []
        tmp = new_outcome()
        try:
            build_real_tree(rng, rng.choice([2, 3, 3]), [0], nodes, calc=fn)
        except MergeRaised as ex:
            add_failure(out, "corr", "PROPOSED REPAIR raised", dict(tree=ex.spec), "rows", str(ex), confirmed=False)
            continue
        check_nodes(ctx, tmp, nodes, dict(variant="repaired"), "progmerge", fixed=True)
        out["evaluations"] += tmp["evaluations"]
        for f in tmp["failures"]:
            add_failure(out, "corr", "PROPOSED REPAIR / fixed model: " + f["what"], f["input"], f["expected"], f["got"], confirmed=False)
        if not tmp["failures"]:
            bump(out, "prog_repaired_variant_tie", len(nodes))


def random_tree_newick(names, rng):
    """a random binary guide tree (any shape, not only a ladder) over the names, with branch lengths"""
    items = [f"'{n}'" if not n.isalnum() else n for n in names]
    rng.shuffle(items)
    while len(items) > 3:
        i = rng.randrange(len(items) - 1)
        a, b = items[i], items[i + 1]
        items[i : i + 2] = [f"({a}:{rng.choice([0.05, 0.1, 0.3])},{b}:{rng.choice([0.05, 0.2, 0.4])})"]
        rng.shuffle(items)
    return "(" + ",".join(f"{x}:{rng.choice([0.05, 0.1, 0.25])}" for x in items) + ");"
