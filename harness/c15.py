"""C15 — Distance estimation and distance-based trees are exact on exact data."""
from __future__ import annotations

import math
from fractions import Fraction

from .common import LEAN, SRC, add_failure, bump, new_outcome, rat, unrat
from . import c15_util as U

PROP = "C15"
PROPS_FILES = ["CogentModel/Props/C15.lean", "CogentModel/Props/C15NJ.lean", "CogentModel/Props/C15UPGMA.lean", "CogentModel/Props/C15Spec.lean",
               "CogentModel/Props/C15Gen.lean", "CogentModel/Props/C15TreeGen.lean"]
LEAN_TARGETS = ["CogentModel.Props.C15", "CogentModel.Props.C15NJ", "CogentModel.Props.C15UPGMA", "CogentModel.Props.C15Spec",
                "CogentModel.Props.C15Gen", "CogentModel.Props.C15TreeGen"]
DRIVER = "drv_c15"
GEN_PATH = LEAN / "CogentModel" / "Gen" / "C15Dist.lean"
GEN_TREE_PATH = LEAN / "CogentModel" / "Gen" / "C15Tree.lean"
TRUSTED = [
    "translator/c15_tree2lean.py (ast of nj.PartialTree.join/get_dist_saved_join_score_matrix/`lengths` of asScoreTreeTuple and "
    "UPGMA.find_smallest_index/condense_matrix/condense_node_order/loop body of UPGMA_cluster -> Gen/C15Tree.lean, every run) and the "
    "numpy/list primitives of Model/TreeNumpy.lean (arrays as entry functions with explicit side n, exact rationals, argmin = first "
    "minimum of the row-major ravel, naturals as indices, asserts are no-ops, PhyloNode.parent back-pointer not represented); "
    "Props/C15TreeGen.lean proves every generated definition equal to / in simulation with Model/NJ.lean, Model/UPGMA.lean for all "
    "arguments and the whole loops (gen_upgma_eq, gen_nj_eq)",
    "translator/c15_dist2lean.py (ast of fast_distance._hamming/_jc69_from_matrix/_tn93_from_matrix/_logdetcommon/_paralinear/_logdet/"
    "get_matrix_diff_coords/TN93Pair.__init__/_PairwiseDistance._expand and pairwise_distance_numba.fill_diversity_matrix -> Gen/C15Dist.lean, every run) and the numpy "
    "primitives of Model/DistanceNumpy.lean (4x4, exact rationals, numpy.log uninterpreted, log(a/sqrt b) = log a - log b / 2); "
    "Props/C15Gen.lean proves every generated definition equal to the hand model for all arguments",
    "hand-written models lean/CogentModel/Model/{Distance,NJ,UPGMA}.lean of fast_distance / nj / UPGMA "
    "(tied by exact-rational shadow: the driver returns the pre-log rationals / exact trees, the harness applies "
    "math.log and compares with the real implementation on the same index arrays / matrices)",
    "independent estimator oracle harness/c15_util.py::oracle_pair (published formulas by character, Fraction arithmetic)",
    "generating-tree oracle harness/c15_util.py (exact dyadic additive / ultrametric matrices)",
]
ASSUMPTIONS = [
    "numpy float64 arithmetic, numpy.linalg.det/inv, numpy.argsort/argmin and math.log are modelled (exact rationals, first "
    "minimum) rather than verified; rounding is covered only by the stated tolerances (rel 1e-9 estimators, abs 1e-9 trees)",
    "Studier-Keppler argmin-Q lemma (nj_selects_cherry) is not proved in Lean: its conclusion is checked per instance on "
    "the real implementation (every join of nj() on an additive matrix is a clade of the generating tree)",
    "estimators are modelled for nucleotide alphabets (dim 4); protein/text moltypes of hamming/paralinear/logdet are not modelled",
    "variances / standard errors of the estimators are not part of the property and not modelled",
]

CALCS = ["hamming", "pdist", "jc69", "tn93", "paralinear", "logdet", "logdet_notk"]


def generate(ctx):
    """translator step: the estimator functions and the counting kernel -> Gen/C15Dist.lean, the array / list code of
    nj.py and UPGMA.py -> Gen/C15Tree.lean (every run, from the CURRENT source of the tree under test)"""
    import sys

    from .common import VERIF

    if str(VERIF) not in sys.path:
        sys.path.insert(0, str(VERIF))
    from translator import c15_dist2lean

    from translator import c15_tree2lean

    text, problems = c15_dist2lean.translate(SRC)
    if text is not None and c15_dist2lean.write_if_changed(GEN_PATH, text):
        ctx.notes.append("Gen/C15Dist.lean was rewritten (estimator source differs from the last generated text, or first run)")
    out = [f"c15_dist2lean: {p}" for p in problems]
    text, problems, notes = c15_tree2lean.translate(SRC)
    if text is not None and c15_tree2lean.write_if_changed(GEN_TREE_PATH, text):
        ctx.notes.append("Gen/C15Tree.lean was rewritten (nj.py / UPGMA.py source differs from the last generated text, or first run)")
    for x in notes:
        if f"c15_tree2lean: {x}" not in ctx.notes:
            ctx.notes.append(f"c15_tree2lean: {x}")
    return out + [f"c15_tree2lean: {p}" for p in problems]


REL = 1e-9
ABS = 1e-12
TREE_TOL = 1e-9
BIG = 1e305
NONCANON = "N-?RYWSKMBDHV"


# --------------------------------------------------------------------------
# real implementation wrappers
# --------------------------------------------------------------------------
def _make_aln(seqs, moltype, array_align=True):
    from cogent3 import make_aligned_seqs

    return make_aligned_seqs(dict(seqs), moltype=moltype, array_align=array_align)


def _calculator(calc, aln, invalid_raises=False):
    from cogent3.evolve.fast_distance import LogDetPair, get_distance_calculator

    if calc == "logdet_notk":
        return LogDetPair(moltype=aln.moltype, use_tk_adjustment=False, alignment=aln, invalid_raises=invalid_raises)
    return get_distance_calculator(calc, moltype=aln.moltype, alignment=aln, invalid_raises=invalid_raises)


def _impl_matrix(calc, aln, names):
    """(matrix as list of lists of float with nan for invalid, index arrays used by the implementation)"""
    c = _calculator(calc, aln)
    c.run(show_progress=False)
    dm = c.get_pairwise_distances()
    idx = {n: i for i, n in enumerate(dm.names)}
    arr = dm.array
    mat = [[float(arr[idx[a], idx[b]]) for b in names] for a in names]
    order = {n: i for i, n in enumerate(c.names)}
    seqs = [[int(v) for v in c.indexed_seqs[order[n]]] for n in names]
    dup = c.duplicated or {}
    _impl_matrix.last_dup_names = set(dup) | {x for v in dup.values() for x in v}
    return mat, seqs


def _impl_distance_matrix(calc, aln, names):
    """the public entry point `aln.distance_matrix(calc=...)`; returns matrix or 'ArithmeticError'"""
    if calc == "logdet_notk":
        return None
    try:
        dm = aln.distance_matrix(calc=calc)
    except ArithmeticError:
        return "ArithmeticError"
    idx = {n: i for i, n in enumerate(dm.names)}
    return [[float(dm.array[idx[a], idx[b]]) for b in names] for a in names]


def _flog(fr: Fraction) -> float:
    return math.log(fr.numerator) - math.log(fr.denominator)


def _cell_value(cell, calc):
    """(value, delicate) from the model's exact pre-log quantities"""
    k = cell["k"]
    if k in ("zero", "absent"):
        return 0.0, False
    if k in ("invalid", "nan"):
        return float("nan"), False
    if k == "hamming":
        return float(unrat(cell["dist"] if calc == "hamming" else cell["p"])), False
    if k == "jc69":
        return -3.0 * _flog(unrat(cell["factor"])) / 4, False
    if k == "tn93":
        c = [unrat(x) for x in cell["c"]]
        t = [unrat(x) for x in cell["t"]]
        return -sum(float(ci) * _flog(ti) for ci, ti in zip(c, t)), min(t) < 1e-9
    det = unrat(cell["det"])
    if k == "logdet":
        return -_flog(det) / 4 - math.log(4), det < 1e-13
    core = _flog(det) - 0.5 * _flog(unrat(cell["prod"]))
    if k == "paralinear":
        return -core / 4, det < 1e-13
    if k == "logdetTK":
        return float(unrat(cell["coeff"])) * core, det < 1e-13
    raise ValueError(k)


def _same_float(a, b, rel=REL):
    if a == b:
        return True
    if math.isnan(a) or math.isnan(b):
        return math.isnan(a) and math.isnan(b)
    return abs(a - b) <= ABS + rel * max(abs(a), abs(b))


# --------------------------------------------------------------------------
# generators
# --------------------------------------------------------------------------
def gen_alignment(rng, moltype=None):
    moltype = moltype or rng.choice(["dna", "dna", "rna"])
    canon = "ACGT" if moltype == "dna" else "ACGU"
    nseq = rng.choice([2, 2, 3, 3, 4, 5, 6, 8])
    L = rng.choice([1, 2, 3, 4, 6, 8, 12, 20, 40, 80, 150])
    letters = canon if rng.random() < 0.8 else canon[: rng.choice([2, 3])]  # low complexity: TN93 0/0
    root = [rng.choice(letters) for _ in range(L)]
    seqs = []
    for i in range(nseq):
        src = root if (not seqs or rng.random() < 0.5) else list(rng.choice(seqs))
        rate = rng.choice([0.0, 0.0, 0.02, 0.1, 0.3, 0.6, 0.95])
        s = [rng.choice(canon) if rng.random() < rate else ch for ch in src]
        seqs.append(s)
    q = rng.choice([0, 0, 0.03, 0.15, 0.5])
    style = rng.choice(["scatter", "scatter", "block", "wholeseq"])
    for s in seqs:
        if q == 0:
            continue
        if style == "scatter":
            for k in range(L):
                if rng.random() < q:
                    s[k] = rng.choice(NONCANON)
        elif style == "block" and rng.random() < 0.6:
            a = rng.randint(0, L)
            b = rng.randint(a, L)
            ch = rng.choice("-N?")
            for k in range(a, b):
                s[k] = ch
        elif style == "wholeseq" and rng.random() < 0.3:
            for k in range(L):
                s[k] = "-"
    names = [f"s{i}" for i in range(nseq)]
    order = list(range(nseq))
    rng.shuffle(order)
    return moltype, canon, [(names[i], "".join(seqs[i])) for i in order]


def gen_boundary_alignment(rng, kind):
    """an alignment containing a pair that lies EXACTLY on a saturation boundary (U.gen_boundary_pair), hidden among
    columns where one of the two has a gap / ambiguity code, in random column order, with 0-3 further sequences (one of
    them possibly an exact duplicate of a boundary sequence) and random row order"""
    moltype = rng.choice(["dna", "rna"])
    canon = "ACGT" if moltype == "dna" else "ACGU"
    cols = [list(c) for c in U.gen_boundary_pair(rng, canon, kind)]
    for _ in range(rng.choice([0, 0, 1, 3, 7])):
        x, y = rng.choice(canon + NONCANON), rng.choice(NONCANON)
        cols.append([x, y] if rng.random() < 0.5 else [y, x])
    rng.shuffle(cols)
    L = len(cols)
    seqs = ["".join(c[0] for c in cols), "".join(c[1] for c in cols)]
    for _ in range(rng.choice([0, 0, 1, 2, 3])):
        r = rng.random()
        if r < 0.25:
            seqs.append(rng.choice(seqs[:2]))
        else:
            seqs.append("".join(rng.choice(canon) if rng.random() < 0.9 else rng.choice(NONCANON) for _ in range(L)))
    order = list(range(len(seqs)))
    rng.shuffle(order)
    return moltype, canon, [(f"s{i}", seqs[i]) for i in order]


def _names(n):
    return [f"t{i:02d}" for i in range(n)]


def gen_generic_matrix(rng, n):
    """symmetric, zero diagonal, generic float entries (no ties)"""
    names = _names(n)
    d = {}
    for i in range(n):
        for j in range(i + 1, n):
            v = rng.uniform(0.25, 2.0) if rng.random() < 0.8 else rng.uniform(0.001, 8.0)
            d[(names[i], names[j])] = d[(names[j], names[i])] = v
    return names, d


# --------------------------------------------------------------------------
# NJ / UPGMA on the real implementation
# --------------------------------------------------------------------------
NJ_FUNCS = ["nj", "gnj", "dm.quick_tree", "app.quick_tree"]
NJ_INPUTS = ["dict", "dm_dict", "dm_array", "dm_take", "dm_drop"]
UPGMA_INPUTS = ["dict", "darr_array", "dm_dict", "dm_array", "dm_take", "dm_drop"]
_OLD_HOW = {"nj": "nj|dict", "gnj": "gnj|dict", "dm.quick_tree": "dm.quick_tree|dm_dict", "app.quick_tree": "app.quick_tree|dm_dict"}


def _make_input(kind, order, d):
    """the distances `d` in one of the accepted input types, rows in the (generally NOT sorted) order `order`"""
    import numpy
    from cogent3.evolve.fast_distance import DistanceMatrix
    from cogent3.util.dict_array import DictArray

    order = list(order)
    full = {(a, b): float(d[(a, b)]) for a in order for b in order if a != b}
    if kind == "dict":
        return full
    if kind == "dm_dict":
        return DistanceMatrix(full)
    arr = numpy.array([[0.0 if a == b else float(d[(a, b)]) for b in order] for a in order], dtype=float)
    if kind == "darr_array":
        return DictArray.from_array_names(arr, order, order)
    if kind == "dm_array":
        return DistanceMatrix.from_array_names(arr, order)
    if kind == "dm_drop":
        return DistanceMatrix.from_array_names(arr, order).drop_invalid()
    if kind == "dm_take":
        # one extra taxon in the middle of the rows, removed again with take_dists (names given in reverse order)
        k = len(order) // 2
        big = order[:k] + ["zz_extra"] + order[k:]
        arr2 = numpy.ones((len(big), len(big)), dtype=float)
        idx = [i for i, n in enumerate(big) if n != "zz_extra"]
        for i, a in zip(idx, order):
            for j, b in zip(idx, order):
                arr2[i, j] = arr[order.index(a), order.index(b)]
        numpy.fill_diagonal(arr2, 0.0)
        return DistanceMatrix.from_array_names(arr2, big).take_dists(list(reversed(order)))
    raise ValueError(kind)


def _impl_nj(names, d, how="nj|dict", order=None):
    from cogent3.phylo.nj import gnj, nj

    how = _OLD_HOW.get(how, how)
    func, kind = how.split("|")
    inp = _make_input(kind, order or names, d)
    if func == "nj":
        t = nj(inp, show_progress=False)
    elif func == "gnj":
        ((score, t),) = gnj(inp, keep=1, show_progress=False)
    elif func == "dm.quick_tree":
        t = inp.quick_tree()
    elif func == "app.quick_tree":
        from cogent3 import get_app

        t = get_app("quick_tree")(inp)
        if not hasattr(t, "children"):
            raise RuntimeError(f"quick_tree app returned {t!r}")
    else:
        raise ValueError(how)
    return U.from_cogent(t)


def _impl_upgma(names, d, kind="dict", order=None):
    from cogent3.cluster.UPGMA import upgma

    return U.from_cogent(upgma(_make_input(kind, order or names, d)))


class _JoinRecorder:
    """records the tip sets joined by PartialTree.join (runtime wrapper, /repo is not touched)"""

    def __enter__(self):
        from cogent3.phylo import nj as njmod

        self.mod = njmod
        self.orig = njmod.PartialTree.join
        self.joins = []
        rec = self

        def join(pt, i, j):
            rec.joins.append((frozenset(pt.tips[i]), frozenset(pt.tips[j])))
            return rec.orig(pt, i, j)

        njmod.PartialTree.join = join
        return self

    def __exit__(self, *a):
        self.mod.PartialTree.join = self.orig


def _mat_req(names, d):
    return [[rat(0) if a == b else rat(float(d[(a, b)])) for b in names] for a in names]


# --------------------------------------------------------------------------
# correspondence: Lean model vs real implementation
# --------------------------------------------------------------------------
def correspondence(ctx):
    out = new_outcome(
        "estimators: random DNA/RNA alignments (2-8 seqs, 1-150 cols, gaps/ambiguity codes scattered, in blocks or whole "
        "sequences, duplicates, saturated and low-complexity pairs; plus pairs EXACTLY on a saturation boundary -- p = 3/4, a "
        "TN93 log argument = 0, det F = 0 with exact float arithmetic -- and one column inside it) x 7 calculators, model fed the implementation's own index "
        "arrays, every cell compared (rel 1e-9 after math.log; nan<->invalid); non-trivial = (alignment, calc) with at least "
        "one finite non-zero distance. trees: model nj/upgma vs nj()/upgma() on additive / ultrametric matrices from random "
        "generating trees (3-25 tips) and on generic random symmetric matrices (3-12 tips); non-trivial = every tree with >= 4 tips"
    )
    rng = ctx.subrng("corr")
    # 0. constants the model hard-codes
    from cogent3 import DNA, RNA
    from cogent3.evolve.fast_distance import TN93Pair, get_purine_indices, get_pyrimidine_indices
    from cogent3.cluster import UPGMA as upgma_mod

    for mt in (DNA, RNA):
        consts = (get_purine_indices(mt), get_pyrimidine_indices(mt))
        if consts != ([2, 3], [1, 0]):
            add_failure(out, "corr", "purine/pyrimidine indices differ from the model's constants", str(mt), ([2, 3], [1, 0]), consts, confirmed=False)
    tn = TN93Pair("dna")
    coords = (sorted(tn.pur_coords), sorted(tn.pyr_coords), sorted(tn.tv_coords))
    want = ([11, 14], [1, 4], [2, 3, 6, 7, 8, 9, 12, 13])
    if coords != want:
        add_failure(out, "corr", "TN93 coordinate sets differ from the model's constants", "TN93Pair('dna')", want, coords, confirmed=False)
    if upgma_mod.BIG_NUM != BIG:
        add_failure(out, "corr", "UPGMA BIG_NUM differs", "BIG_NUM", BIG, upgma_mod.BIG_NUM, confirmed=False)

    # 1. estimators
    n_aln = ctx.budget(160, 1500)
    alns = [gen_alignment(rng) for _ in range(n_aln)]
    # hand-made corner cases
    alns += [
        ("dna", "ACGT", [("s0", "ACGTNN"), ("s1", "ACGTAC"), ("s2", "ACGATT")]),
        ("dna", "ACGT", [("s0", "AAAA----"), ("s1", "----CCCC"), ("s2", "AAAACCCT")]),
        ("dna", "ACGT", [("s0", "AAAA"), ("s1", "CCCC")]),
        ("dna", "ACGT", [("s0", "ACGTACGT"), ("s1", "ACGTACGT"), ("s2", "ACGTACGT")]),
        ("rna", "ACGU", [("s0", "ACGUACGUAC"), ("s1", "ACGUACGUUC"), ("s2", "ACCUACGAAC"), ("s3", "ACGUNCGUAC")]),
        ("dna", "ACGT", [("s0", "AACCTTAACC"), ("s1", "ACCCTTAACT"), ("s2", "ACCCTTAAGT")]),
    ]
    # exact saturation boundaries (a log argument exactly 0 with exact float arithmetic): the validity decision itself
    for kind in U.BOUNDARY_KINDS:
        alns += [gen_boundary_alignment(rng, kind) for _ in range(ctx.budget(2, 12))]
    reqs, meta = [], []
    for ai, (moltype, canon, seqs) in enumerate(alns):
        names = [n for n, _ in seqs]
        aln = _make_aln(seqs, moltype, array_align=(ai % 3 != 0))
        for calc in CALCS:
            try:
                mat, idx = _impl_matrix(calc, aln, names)
            except Exception as e:  # the implementation itself blew up: not a modelled outcome
                add_failure(out, "corr", f"implementation raised {type(e).__name__} ({calc})", dict(moltype=moltype, seqs=seqs, calc=calc), "a matrix", repr(e), confirmed=False)
                continue
            pub = _impl_distance_matrix(calc, aln, names)
            reqs.append(("dist", dict(calc=calc, seqs=idx)))
            meta.append((moltype, seqs, calc, mat, pub))
    replies = ctx.driver.batch(reqs)
    for (moltype, seqs, calc, mat, pub), rep in zip(meta, replies):
        out["evaluations"] += 1
        inp = dict(moltype=moltype, seqs=seqs, calc=calc)
        if "error" in rep:
            add_failure(out, "corr", "driver error", inp, "reply", rep, confirmed=False)
            continue
        n = len(seqs)
        bad = None
        nontriv = False
        delicate_any = False
        for a in range(n):
            for b in range(n):
                v, delicate = _cell_value(rep["matrix"][a][b], calc)
                kind = rep["matrix"][a][b]["k"]
                if a != b:
                    bump(out, "cell_kind", f"{calc}:{kind}" if kind in ("invalid", "nan", "zero") else "value")
                if delicate:
                    delicate_any = True
                    bump(out, "delicate_skipped")
                    continue
                if not _same_float(v, mat[a][b]):
                    if a != b and math.isnan(v) != math.isnan(mat[a][b]):
                        # an exactly-zero log argument / determinant somewhere in the alignment (the duplicate aliasing can
                        # carry that pair's value into other cells): float noise decides validity, not a model question
                        cn = "ACGT" if moltype == "dna" else "ACGU"
                        if any(U.delicate(calc, seqs[x][1], seqs[y][1], cn) for x in range(n) for y in range(x + 1, n)):
                            delicate_any = True
                            bump(out, "delicate_skipped")
                            continue
                    bad = bad or (a, b, v, mat[a][b])
                if a != b and not math.isnan(v) and v != 0:
                    nontriv = True
        if bad:
            add_failure(out, "corr", f"estimator cell differs ({calc})", inp, dict(cell=bad[:2], model=bad[2]), bad[3], confirmed=False)
            continue
        if pub is not None and not delicate_any:
            # the public entry point raises exactly when the model says a computed pair was invalid
            if (pub == "ArithmeticError") != bool(rep["raised"]):
                add_failure(out, "corr", f"distance_matrix raising differs ({calc})", inp, dict(raised=rep["raised"]), "raised" if pub == "ArithmeticError" else "returned", confirmed=False)
                continue
            if pub != "ArithmeticError":
                for a in range(n):
                    for b in range(n):
                        if not _same_float(pub[a][b], mat[a][b], rel=0):
                            add_failure(out, "corr", f"distance_matrix differs from calculator ({calc})", inp, mat[a][b], pub[a][b], confirmed=False)
        bump(out, "dupes", len(rep["dupes"]))
        bump(out, "nseq", n)
        bump(out, "ncols", len(seqs[0][1]))
        if nontriv:
            out["nontrivial"].add(("est", moltype, tuple(seqs), calc))
            if len(out["samples"]) < 3 and n >= 3 and calc in ("tn93", "paralinear"):
                out["samples"].append(dict(inp, impl_matrix=mat))

    # 2. NJ
    nj_cases = []
    for _ in range(ctx.budget(120, 1500)):
        n = rng.choice([3, 4, 4, 5, 5, 6, 7, 8, 10, 12, 16, 20, 25])
        names = _names(n)
        lab = names[:]
        rng.shuffle(lab)
        t = U.gen_additive_tree(rng, lab, multifurc=rng.random() < 0.25)
        nj_cases.append(("additive", names, U.tip_dists(t)))
    for _ in range(ctx.budget(100, 1200)):
        n = rng.choice([3, 4, 5, 6, 7, 8, 10, 12])
        names, d = gen_generic_matrix(rng, n)
        nj_cases.append(("generic", names, d))
    nj_cases.append(("two", _names(2), {("t00", "t01"): 0.75, ("t01", "t00"): 0.75}))
    reps = ctx.driver.batch([("nj", dict(n=len(names), d=_mat_req(names, d))) for _, names, d in nj_cases])
    for (kind, names, d), rep in zip(nj_cases, reps):
        out["evaluations"] += 1
        inp = dict(kind=kind, names=names, d={f"{a},{b}": float(v) for (a, b), v in d.items() if a < b})
        if "error" in rep:
            add_failure(out, "corr", "driver error (nj)", inp, "reply", rep, confirmed=False)
            continue
        model = ("node", [(unrat(l), U.from_model(c, names)) for l, c in rep["root"]])
        try:
            real = _impl_nj(names, d)
        except Exception as e:
            add_failure(out, "corr", f"nj raised {type(e).__name__}", inp, "a tree", repr(e), confirmed=False)
            continue
        why = U.dict_close(U.tip_dists(model), U.tip_dists(real), TREE_TOL) or U.dict_close(
            U.unrooted_splits(model, TREE_TOL), U.unrooted_splits(real, TREE_TOL), TREE_TOL
        )
        if why:
            add_failure(out, "corr", f"nj model differs from nj() ({kind})", inp, "same tree", why, confirmed=False)
            continue
        bump(out, "nj", f"{kind}:{len(names)}")
        if len(names) >= 3:
            # the Lean certificate of nj_realises_additive_checked, evaluated by the driver on this instance
            bump(out, "nj_certificate", f"{kind}:{rep.get('certified')}")
            if kind == "additive" and rep.get("certified") is not True:
                add_failure(out, "corr", "njCertified is false on an additive matrix (a selected pair is not a cherry)", inp, True, rep.get("certified"), confirmed=False)
                continue
        if len(names) >= 4:
            out["nontrivial"].add(("nj", kind, tuple(sorted(inp["d"].items()))))
        if len(out["samples"]) < 5 and kind == "additive" and len(names) == 5:
            out["samples"].append(dict(inp, joins=rep["joins"]))

    # 3. UPGMA
    up_cases = []
    for _ in range(ctx.budget(120, 1500)):
        n = rng.choice([2, 3, 4, 4, 5, 6, 7, 8, 10, 12, 16, 20, 25])
        names = _names(n)
        lab = names[:]
        rng.shuffle(lab)
        t = U.gen_ultrametric_tree(rng, lab, multifurc=rng.random() < 0.5)
        up_cases.append(("ultrametric", names, U.tip_dists(t)))
    for _ in range(ctx.budget(100, 1200)):
        names, d = gen_generic_matrix(rng, rng.choice([2, 3, 4, 5, 6, 7, 8, 10, 12]))
        up_cases.append(("generic", names, d))
    reps = ctx.driver.batch([("upgma", dict(n=len(names), d=_mat_req(names, d), big=rat(BIG))) for _, names, d in up_cases])
    for (kind, names, d), rep in zip(up_cases, reps):
        out["evaluations"] += 1
        inp = dict(kind=kind, names=names, d={f"{a},{b}": float(v) for (a, b), v in d.items() if a < b})
        if "error" in rep or rep.get("tree") is None:
            add_failure(out, "corr", "driver error (upgma)", inp, "reply", rep, confirmed=False)
            continue
        model = U.from_model(rep["tree"], names)
        try:
            real = _impl_upgma(names, d)
        except Exception as e:
            add_failure(out, "corr", f"upgma raised {type(e).__name__}", inp, "a tree", repr(e), confirmed=False)
            continue
        if not U.same_rooted(model, real, TREE_TOL):
            add_failure(out, "corr", f"upgma model differs from upgma() ({kind})", inp, str(U.canon_rooted(model)[0])[:300], str(U.canon_rooted(real)[0])[:300], confirmed=False)
            continue
        bump(out, "upgma", f"{kind}:{len(names)}")
        if len(names) >= 2:
            bump(out, "upgma_certificate", f"{kind}:{rep.get('certified')}")
            if kind == "ultrametric" and rep.get("certified") is not True:
                add_failure(out, "corr", "upgmaCertified is false on an ultrametric matrix (selected pair not a live minimum)", inp, True, rep.get("certified"), confirmed=False)
                continue
        if len(names) >= 4:
            out["nontrivial"].add(("upgma", kind, tuple(sorted(inp["d"].items()))))
    return out


# --------------------------------------------------------------------------
# spec-level differential: real implementation vs independent oracles
# --------------------------------------------------------------------------
def _spec_fail(out, what, inp, expected, got, sig):
    """keep at most 4 instances per failure class so that no class is ever crowded out of the report"""
    bump(out, "spec_failures_by_sig", sig)
    if out["dist"]["spec_failures_by_sig"][sig] <= 4:
        add_failure(out, "spec", what, inp, expected, got, sig=sig)


def _oracle_matrix(calc, canon, seqs):
    n = len(seqs)
    return [[0.0 if a == b else U.oracle_pair(calc, seqs[a][1], seqs[b][1], canon) for b in range(n)] for a in range(n)]


def _check_public_invalid(out, moltype, canon, seqs, calc, aln, exp, fail):
    """how an undefined pair surfaces through the public API: `aln.distance_matrix(calc=)` raises ArithmeticError exactly
    when the published formula is undefined for some pair, and `DistanceMatrix.drop_invalid()` keeps exactly the
    sequences all of whose distances are defined.  Only for alignments where this is determined by the property: every
    pair shares a canonical column, no 0/0 in the TN93 formula, no numerically delicate validity decision."""
    names = [n for n, _ in seqs]
    n = len(seqs)
    if calc == "logdet_notk":
        return
    for a in range(n):
        for b in range(a + 1, n):
            if exp[a][b] == U.UNDEF or U.delicate(calc, seqs[a][1], seqs[b][1], canon):
                return
            if not any(x in canon and y in canon for x, y in zip(seqs[a][1], seqs[b][1])):
                return
    inp = dict(moltype=moltype, seqs=[list(p) for p in seqs], calc=calc, public=True)
    bad_names = {names[a] for a in range(n) for b in range(n) if a != b and exp[a][b] == U.INVALID}
    want_raise = bool(bad_names)
    pub = _impl_distance_matrix(calc, aln, names)
    if (pub == "ArithmeticError") != want_raise:
        fail(f"{calc}: aln.distance_matrix raises ArithmeticError exactly when a pair is outside the estimator's domain", inp,
             "ArithmeticError" if want_raise else "a matrix", "ArithmeticError" if pub == "ArithmeticError" else "a matrix was returned",
             f"est:public:{calc}:distance_matrix-raise")
    c = _calculator(calc, aln)
    c.run(show_progress=False)
    kept = c.get_pairwise_distances().drop_invalid()
    got = sorted(str(x) for x in kept.names) if kept is not None else []
    want = sorted(set(names) - bad_names)
    if len(want) < 2 and len(got) < 2:
        want = got  # nothing comparable is left either way (None / a single name)
    if got != want:
        fail(f"{calc}: drop_invalid keeps exactly the sequences whose distances are all defined", inp, want, got, f"est:public:{calc}:drop_invalid")
    bump(out, "public_invalid", f"{calc}:{'raise' if want_raise else 'ok'}")


def _check_alignment(out, moltype, canon, seqs, calcs, rng=None, relations=True, public=False):
    """all estimator checks for one alignment; appends failures to out"""
    names = [n for n, _ in seqs]
    n = len(seqs)
    aln = _make_aln(seqs, moltype)
    any_nc = any(ch not in canon for _, s in seqs for ch in s)
    for calc in calcs:
        out["evaluations"] += 1
        inp = dict(moltype=moltype, seqs=[list(p) for p in seqs], calc=calc)
        try:
            mat, _ = _impl_matrix(calc, aln, names)
        except Exception as e:
            add_failure(out, "spec", f"{calc}: implementation raised {type(e).__name__}", inp, "a distance matrix", repr(e), sig=f"est:{calc}:raises:{type(e).__name__}")
            continue
        dupnames = set(_impl_matrix.last_dup_names)
        exp = _oracle_matrix(calc, "ACGT" if moltype == "dna" else "ACGU", seqs)
        nontriv = False
        reported = set()

        def fail(what, inp_, expected, got, sig):
            # one report per (alignment, calc, failure class)
            if sig not in reported:
                reported.add(sig)
                _spec_fail(out, what, inp_, expected, got, sig)

        for a in range(n):
            for b in range(n):
                g, e = mat[a][b], exp[a][b]
                cls = "noncanon" if any_nc else "canon"
                if a == b:
                    if g != 0:
                        fail(f"{calc}: non-zero diagonal", dict(inp, cell=[a, b]), 0.0, g, f"est:{calc}:diag")
                    continue
                if not _same_float(g, mat[b][a], rel=0):
                    fail(f"{calc}: matrix not symmetric", dict(inp, cell=[a, b]), mat[b][a], g, f"est:{calc}:asym:{cls}")
                if e == U.UNDEF:
                    bump(out, "oracle", "tn93-undefined(0/0)")
                    continue
                if e == U.INVALID:
                    bump(out, "oracle", f"{calc}:invalid")
                    if not math.isnan(g):
                        cols = sum(1 for x, y in zip(seqs[a][1], seqs[b][1]) if x in canon and y in canon)
                        why = "no-shared-columns" if cols == 0 else "log-undefined"
                        if cols == 0 and g == 0 and all(x not in canon and y not in canon for x, y in zip(seqs[a][1], seqs[b][1])):
                            # both sequences consist of non-canonical symbols only: they are the same index array,
                            # reporting them as identical (0.0) is accepted
                            bump(out, "oracle", "identical-all-noncanonical")
                            continue
                        # numerically delicate validity decisions (det ~ 0) are not failures
                        if why == "log-undefined" and U.delicate(calc, seqs[a][1], seqs[b][1], canon):
                            bump(out, "oracle", "delicate-validity")
                            continue
                        fail(f"{calc}: a distance was returned for a pair where the estimator is undefined ({why})", dict(inp, cell=[a, b]), "invalid (nan)", g, f"est:{why}:dup-alias" if (names[a] in dupnames or names[b] in dupnames or why == "no-shared-columns") else f"est:{why}:{calc}:direct")
                    continue
                if math.isnan(g):
                    if U.delicate(calc, seqs[a][1], seqs[b][1], canon):
                        bump(out, "oracle", "delicate-validity")
                        continue
                    fail(f"{calc}: no distance for a pair where the published formula is defined", dict(inp, cell=[a, b]), e, g, "est:nan:dup-alias" if (names[a] in dupnames or names[b] in dupnames) else f"est:nan:{calc}:direct")
                    continue
                if not _same_float(g, e):
                    fail(f"{calc}: distance differs from the published formula evaluated on the pair", dict(inp, cell=[a, b]), e, g, f"est:value:dup-alias" if (names[a] in dupnames or names[b] in dupnames) else f"est:value:{calc}:direct")
                elif e != 0:
                    nontriv = True
        if nontriv:
            out["nontrivial"].add(("est", moltype, tuple(seqs), calc))
        bump(out, "spec_calc", calc)
        if public:
            _check_public_invalid(out, moltype, canon, seqs, calc, aln, exp, fail)
        if relations and rng is not None and len(seqs[0][1]) > 1:
            # column order is irrelevant
            L = len(seqs[0][1])
            perm = list(range(L))
            rng.shuffle(perm)
            pseqs = [(nm, "".join(s[k] for k in perm)) for nm, s in seqs]
            pm, _ = _impl_matrix(calc, _make_aln(pseqs, moltype), names)
            delicate = any(U.delicate(calc, seqs[x][1], seqs[y][1], canon) for x in range(n) for y in range(x + 1, n))
            if delicate:
                bump(out, "oracle", "delicate-relations-skipped")
                continue
            for a in range(n):
                for b in range(n):
                    if not _same_float(pm[a][b], mat[a][b], rel=1e-12):
                        fail(f"{calc}: distance depends on column order", dict(inp, perm=perm, cell=[a, b]), mat[a][b], pm[a][b], f"est:{calc}:colperm")
                        break
            # each distance depends only on the two sequences; non-canonical columns of the pair are skipped
            a, b = rng.sample(range(n), 2)
            sub = [seqs[a], seqs[b]]
            sm, _ = _impl_matrix(calc, _make_aln(sub, moltype), [names[a], names[b]])
            if not _same_float(sm[0][1], mat[a][b], rel=1e-12):
                fail(f"{calc}: distance of a pair changes with the other sequences present", dict(inp, cell=[a, b]), sm[0][1], mat[a][b], "est:pair-independence:dup-alias" if (names[a] in dupnames or names[b] in dupnames) else f"est:pair-independence:{calc}:direct")
            keep = [k for k in range(L) if sub[0][1][k] in canon and sub[1][1][k] in canon]
            if 0 < len(keep) < L:
                fsub = [(nm, "".join(s[k] for k in keep)) for nm, s in sub]
                fm, _ = _impl_matrix(calc, _make_aln(fsub, moltype), [names[a], names[b]])
                if not _same_float(fm[0][1], sm[0][1], rel=1e-12):
                    fail(f"{calc}: non-canonical columns are not ignored", dict(inp, cell=[a, b]), fm[0][1], sm[0][1], f"est:{calc}:noncanon-cols")
    if len(out["samples"]) < 2 and n >= 3 and any_nc:
        out["samples"].append(dict(moltype=moltype, seqs=seqs))


def _check_apps(out, moltype, seqs, calcs):
    """the same estimators reached through the APPS, incl. an alignment of the OTHER nucleic moltype given to a
    dna-/rna-typed app (the app converts T<->U): every cell vs the published formula on the T/U-normalised pair"""
    from cogent3 import get_app

    names = [n for n, _ in seqs]
    n = len(seqs)
    aln = _make_aln(seqs, moltype)
    for calc in calcs:
        for app_mt in ("dna", "rna"):
            out["evaluations"] += 1
            route = f"{moltype}->{app_mt}"
            inp = dict(via="fast_slow_dist", moltype=moltype, app_moltype=app_mt, seqs=[list(p) for p in seqs], calc=calc)
            canon = "ACGT" if app_mt == "dna" else "ACGU"
            norm = [(nm, sq.replace("U", "T") if app_mt == "dna" else sq.replace("T", "U")) for nm, sq in seqs]
            try:
                res = get_app("fast_slow_dist", fast_calc=calc, moltype=app_mt)(aln)
                arr = res.array
                idx = {nm: i for i, nm in enumerate(res.names)}
                mat = [[float(arr[idx[a], idx[b]]) for b in names] for a in names]
            except Exception as e:
                _spec_fail(out, f"fast_slow_dist({calc}, {app_mt}) did not return a distance matrix", inp, "a distance matrix", repr(e)[:200], f"app:fast_slow_dist:{calc}:{route}:raises")
                continue
            exp = _oracle_matrix(calc, canon, norm)
            delicate = any(U.delicate(calc, norm[x][1], norm[y][1], canon) for x in range(n) for y in range(x + 1, n))
            if delicate:
                bump(out, "oracle", "delicate-app-skipped")
                continue
            bad = None
            for a in range(n):
                for b in range(n):
                    if a == b:
                        continue
                    g, e = mat[a][b], exp[a][b]
                    if e == U.UNDEF:
                        continue
                    if e == U.INVALID:
                        ok = math.isnan(g) or (g == 0 and all(x not in canon and y not in canon for x, y in zip(norm[a][1], norm[b][1])))
                    else:
                        ok = _same_float(g, e)
                    if not ok and bad is None:
                        bad = (a, b, e, g)
            if bad:
                _spec_fail(out, f"fast_slow_dist app ({calc}, app moltype {app_mt}, alignment {moltype}): distance differs from the published formula on the T/U-normalised pair",
                           dict(inp, cell=[bad[0], bad[1]]), bad[2], bad[3], f"app:fast_slow_dist:{calc}:{route}:value")
            else:
                out["nontrivial"].add(("app", route, tuple(seqs), calc))
            bump(out, "app_route", route)


def _check_nj(out, names, tree, how, binary, order=None):
    how = _OLD_HOW.get(how, how)
    """real NJ on the additive matrix of `tree` must return `tree`"""
    out["evaluations"] += 1
    d = U.tip_dists(tree)
    inp = dict(algo="nj", how=how, names=names, order=order, tree=_tree_json(tree))
    shape = "binary" if binary else "multifurcating"
    try:
        with _JoinRecorder() as rec:
            got = _impl_nj(names, d, how, order)
    except Exception as e:
        _spec_fail(out, f"{how} raised {type(e).__name__} on an additive matrix", inp, "the generating tree", repr(e), f"nj:{how}:raises:{type(e).__name__}")
        return
    if sorted(U.tip_names(got)) != sorted(names):
        _spec_fail(out, f"{how}: tips differ", inp, sorted(names), sorted(U.tip_names(got)), f"nj:{how}:tips")
        return
    why = U.dict_close(d, U.tip_dists(got), TREE_TOL)
    if why:
        _spec_fail(out, f"{how}: path lengths of the result differ from the additive matrix", inp, "d(x,y) for all tips", why, f"nj:{how}:dists:{shape}")
        return
    why = U.dict_close(U.unrooted_splits(tree, 0), U.unrooted_splits(got, TREE_TOL), TREE_TOL)
    if why:
        _spec_fail(out, f"{how}: topology / branch lengths differ from the generating tree", inp, "splits of the generating tree", why, f"nj:{how}:splits:{shape}")
        return
    neg = [l for l in U.unrooted_splits(got, -1).values() if l < 0]
    if neg:
        _spec_fail(out, f"{how}: negative branch length", inp, ">= 0", neg[:3], f"nj:{how}:negative")
    if binary:
        # per-instance check of the Studier-Keppler hypothesis: every join is a clade of the generating tree
        allt = frozenset(names)
        splits = set(U.unrooted_splits(tree, 0))
        anchor = sorted(names)[0]
        for a, b in rec.joins:
            s = a | b
            key = allt - s if anchor in s else s
            if key not in splits:
                bump(out, "nj_join_not_a_cherry")
                _spec_fail(out, f"{how}: a joined pair is not a cherry of the (reduced) generating tree", dict(inp, join=[sorted(a), sorted(b)]), "cherry", "not a split of the generating tree", f"nj:{how}:non-cherry-join")
                break
        else:
            bump(out, "nj_joins_all_cherries", len(rec.joins))
    out["nontrivial"].add(("nj", how, _tree_key(tree)))
    bump(out, "nj_spec", f"{shape}:{len(names)}")
    bump(out, "nj_input", how)


def _check_upgma(out, names, tree, kind="dict", order=None):
    out["evaluations"] += 1
    d = U.tip_dists(tree)
    inp = dict(algo="upgma", how=kind, names=names, order=order, tree=_tree_json(tree))
    try:
        got = _impl_upgma(names, d, kind, order)
    except Exception as e:
        _spec_fail(out, f"upgma raised {type(e).__name__} on an ultrametric matrix", inp, "the generating tree", repr(e), f"upgma:{kind}:raises:{type(e).__name__}")
        return
    if sorted(U.tip_names(got)) != sorted(names):
        _spec_fail(out, "upgma: tips differ", inp, sorted(names), sorted(U.tip_names(got)), f"upgma:{kind}:tips")
        return
    why = U.dict_close(d, U.tip_dists(got), TREE_TOL)
    if why:
        _spec_fail(out, "upgma: path lengths of the result differ from the ultrametric matrix", inp, "d(x,y) for all tips", why, f"upgma:{kind}:dists")
        return
    why = U.dict_close(U.rooted_clades(tree, 0), U.rooted_clades(got, TREE_TOL), TREE_TOL)
    if why:
        _spec_fail(out, "upgma: clades / branch lengths differ from the generating tree", inp, "clades of the generating tree", why, f"upgma:{kind}:clades")
        return
    neg = [l for l in U.rooted_clades(got, -1).values() if l < 0]
    if neg:
        _spec_fail(out, "upgma: negative branch length", inp, ">= 0", neg[:3], f"upgma:{kind}:negative")
    out["nontrivial"].add(("upgma", kind, _tree_key(tree)))
    bump(out, "upgma_spec", len(names))
    bump(out, "upgma_input", kind)


def _tree_json(t):
    if t[0] == "tip":
        return t[1]
    return [[f"{Fraction(l).numerator}/{Fraction(l).denominator}", _tree_json(c)] for l, c in t[1]]


def _tree_from_json(j):
    if isinstance(j, str):
        return ("tip", j)
    return ("node", [(unrat(l), _tree_from_json(c)) for l, c in j])


def _tree_key(t):
    return str(_tree_json(t))


def _is_binary(t, root=True):
    if t[0] == "tip":
        return True
    if len(t[1]) != (3 if root else 2):
        return False
    return all(_is_binary(c, False) for _, c in t[1])


def spec_check(ctx, budget):
    out = new_outcome(
        "real implementation vs independent oracles. estimators: every cell of the matrix of random alignments (incl. "
        "gaps/ambiguities, duplicates, saturated pairs) vs the published formula evaluated by character on that pair alone "
        "(rel 1e-9; incl. pairs exactly on a saturation boundary, where 'invalid' is demanded whenever float evaluation is "
        "exact: U.float_exact_boundary), plus symmetry, zero diagonal, column permutation, pair independence, non-canonical column removal; "
        "non-trivial = (alignment, calc) with a finite non-zero expected distance. NJ: nj/gnj/DistanceMatrix.quick_tree/app "
        "quick_tree on the exact additive matrix of random generating trees (3-25 tips, lengths k/64, random tip order, "
        "some multifurcating) must return that tree (splits + lengths, abs 1e-9) and every join must be a cherry. UPGMA: "
        "upgma on ultrametric matrices of random rooted trees (2-25 tips, multifurcations) must return that tree; "
        "non-trivial = every generating tree"
    )
    rng = ctx.subrng(f"spec{budget}")
    # --- estimators
    # small exhaustive box: all 3-sequence alignments of 2 columns over {A, C, N} (pdist/jc69) -- order / duplicate logic
    import itertools

    box = ["".join(p) for p in itertools.product("ACN", repeat=2)]
    for trio in itertools.product(box, repeat=3):
        if rng.random() < min(1.0, 0.25 * budget):
            seqs = [(f"s{i}", s) for i, s in enumerate(trio)]
            _check_alignment(out, "dna", "ACGT", seqs, ["pdist"], rng, relations=False)
    for k in range(100 * budget):
        moltype, canon, seqs = gen_alignment(rng)
        calcs = CALCS if k % 2 == 0 else rng.sample(CALCS, 3)
        _check_alignment(out, moltype, canon, seqs, calcs, rng, public=(k % 4 == 1))
        _check_apps(out, moltype, seqs, rng.sample(CALCS[:6], 2))
    # exact saturation boundaries: p = 3/4, a TN93 log argument = 0, det F = 0 with exact float arithmetic (the estimator
    # must report "invalid" there), and pairs one column inside the boundary (must report the formula value)
    for k in range(12 * budget):
        kind = U.BOUNDARY_KINDS[k % len(U.BOUNDARY_KINDS)]
        moltype, canon, seqs = gen_boundary_alignment(rng, kind)
        bump(out, "boundary_kind", kind)
        _check_alignment(out, moltype, canon, seqs, CALCS, rng, public=True)
    for mt, sq in (("rna", [("a", "ACGUACGUACUUACGUAAUU"), ("b", "ACGUACGAACUCACGUAAUU"), ("c", "ACGAACGUACUUACGUCAUG")]),
                   ("dna", [("a", "ACGTACGTACTTACGTAATT"), ("b", "ACGTACGAACTCACGTAATT"), ("c", "ACGAACGTACTTACGTCATG")])):
        _check_apps(out, mt, sq, CALCS[:6])
    # --- NJ
    # every function x every accepted input type, rows in a shuffled (NOT sorted) order
    combos = [f"{f}|{k}" for f in NJ_FUNCS for k in NJ_INPUTS if not (f in ("dm.quick_tree", "app.quick_tree") and k == "dict")]
    for k in range(120 * budget):
        n = rng.choice([3, 4, 4, 5, 5, 6, 7, 8, 9, 10, 12, 14, 16, 20, 25])
        lab = _names(n)
        names = lab[:]
        rng.shuffle(lab)
        order = names[:]
        rng.shuffle(order)
        multif = rng.random() < 0.2
        t = U.gen_additive_tree(rng, lab, multifurc=multif)
        _check_nj(out, names, t, combos[k % len(combos)], _is_binary(t), order)
    # exhaustive small: every labelled binary topology on 4 and 5 tips with unit-ish lengths is covered by the
    # random-order generator above only statistically; add the 3 quartets x 2 length patterns explicitly
    for perm in (["t00", "t01", "t02", "t03"], ["t00", "t02", "t01", "t03"], ["t00", "t03", "t01", "t02"]):
        for lens in ([1, 1, 1, 1, 1], [1, 200, 3, 150, 1], [250, 1, 1, 250, 1]):
            a, b, c, d = perm
            l = [Fraction(x, U.UNIT) for x in lens]
            t = ("node", [(l[4], ("node", [(l[0], ("tip", a)), (l[1], ("tip", b))])), (l[2], ("tip", c)), (l[3], ("tip", d))])
            _check_nj(out, sorted(perm), t, "nj", True)
    # --- UPGMA: every accepted input type, rows in a shuffled (NOT sorted) order
    for k in range(120 * budget):
        n = rng.choice([2, 3, 4, 4, 5, 5, 6, 7, 8, 9, 10, 12, 14, 16, 20, 25])
        lab = _names(n)
        names = lab[:]
        rng.shuffle(lab)
        order = names[:]
        rng.shuffle(order)
        t = U.gen_ultrametric_tree(rng, lab, multifurc=rng.random() < 0.5)
        _check_upgma(out, names, t, UPGMA_INPUTS[k % len(UPGMA_INPUTS)], order)
    # the coordinator's 5-tip example: names e,c,a,d,b in that row order
    t5 = ("node", [(Fraction(2), ("node", [(Fraction(1), ("tip", "a")), (Fraction(1), ("tip", "b"))])),
                   (Fraction(3, 2), ("node", [(Fraction(3, 2), ("tip", "c")),
                                              (Fraction(1), ("node", [(Fraction(1, 2), ("tip", "d")), (Fraction(1, 2), ("tip", "e"))]))]))])
    for kind in UPGMA_INPUTS:
        _check_upgma(out, ["a", "b", "c", "d", "e"], t5, kind, ["e", "c", "a", "d", "b"])
    return out


# --------------------------------------------------------------------------
# findings / replay
# --------------------------------------------------------------------------
def match_finding(f, k):
    if f.get("sig") not in k.get("sigs", []):
        return False
    r = k.get("restrict") or {}
    inp = f.get("input") or {}
    if r.get("needs_noncanonical"):
        canon = "ACGT" if inp.get("moltype") == "dna" else "ACGU"
        if not any(ch not in canon for _, s in inp.get("seqs", []) for ch in s):
            return False
    if r.get("min_seqs") and len(inp.get("seqs", [])) < r["min_seqs"]:
        return False
    return True


def _replay_input(inp):
    out = new_outcome()
    if inp.get("algo") == "nj":
        t = _tree_from_json(inp["tree"])
        _check_nj(out, inp["names"], t, inp.get("how", "nj"), _is_binary(t), inp.get("order"))
    elif inp.get("via") == "fast_slow_dist":
        _check_apps(out, inp["moltype"], [tuple(p) for p in inp["seqs"]], [inp["calc"]])
    elif inp.get("algo") == "upgma":
        _check_upgma(out, inp["names"], _tree_from_json(inp["tree"]), inp.get("how", "dict"), inp.get("order"))
    else:
        import random

        seqs = [tuple(p) for p in inp["seqs"]]
        canon = "ACGT" if inp["moltype"] == "dna" else "ACGU"
        _check_alignment(out, inp["moltype"], canon, seqs, [inp["calc"]], random.Random(0), relations=True, public=bool(inp.get("public")))
    return out["failures"]


def replay(ctx, data):
    f = data.get("failing_input") or {}
    inp = f.get("input")
    if not inp:
        return False
    fails = _replay_input(inp)
    for x in fails[:3]:
        print(x["what"], "expected", x["expected"], "got", x["got"])
    return bool(fails)


def check_witness(ctx, w):
    fails = _replay_input(w)
    want = w.get("sig")
    for f in fails:
        if want is None or f["sig"] == want:
            return f
    return None
