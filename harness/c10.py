"""C10 — every serialisable object round-trips (rich dict / JSON / pickle / copy), whatever its history."""
from __future__ import annotations

import copy
import itertools
import json
import pickle

from .common import add_failure, bump, load_known, new_outcome

PROP = "C10"
PROPS_FILES = ["CogentModel/Props/C10.lean", "CogentModel/Props/C10Tree.lean", "CogentModel/Props/C10Registry.lean", "CogentModel/Props/C10Rich.lean", "CogentModel/Props/C10Coll.lean", "CogentModel/Props/C10GetClass.lean"]
LEAN_TARGETS = ["CogentModel.Props.C10", "CogentModel.Props.C10Tree", "CogentModel.Props.C10Registry", "CogentModel.Props.C10Rich", "CogentModel.Props.C10Coll", "CogentModel.Props.C10GetClass"]
DRIVER = "drv_c10"
TRUSTED = [
    "hand-written model lean/CogentModel/Model/RichDict.lean of SeqView.to_rich_dict/from_rich_dict/copy(sliced=True), "
    "_coerce_to_seqview(SeqView), Sequence.to_rich_dict -> deserialise_seq / _moltype_seq_from_rich_dict, "
    "SeqDataView.to_rich_dict, IndelMap/FeatureMap/Span rich dicts and pickle state (tied by exhaustive-box + random "
    "correspondence against the real classes each run); it sits on Model/View.lean (C01) and Spec/PySlice.lean",
    "hand-written model lean/CogentModel/Model/TreeRich.lean of TreeNode.to_rich_dict -> deserialise_tree (attributes keyed by node "
    "name, TreeBuilder._unique_name, root renamed 'root'); the newick TEXT is abstracted to (postorder names, arities): quoting / "
    "tokenising of names is not modelled; tied each run on real trees whose names need no quoting, incl. duplicate / reserved / None names",
    "the per-type OBSERVATION functions of harness/c10_gen.py define what 'observationally equal' means",
    "json, pickle, numpy, sqlite3 are used, not modelled",
    "translator/c10_registry2lean.py (ast only): every @register_deserialiser line, the dispatch loop of deserialise_object and the "
    "classes that write \"type\": get_object_provenance(self) (with their subclasses) -> Gen/C10Registry.lean; tied each run to the live "
    "registry (per-module sequences, functions), the live classes (provenance, __subclasses__ closure), the real loop run over stub "
    "functions on emitted / perturbed strings, and the type strings live objects write",
]
ASSUMPTIONS = [
    "the registry sweep (all types x histories x routes) is decided on the implementation by the round-trip oracle; only the "
    "view re-basing and the map records carry theorems",
    "repr policies, object identity (is) and the 'loaded' flag of auto-generated internal node names are not part of the observation",
    "old SeqView.to_rich_dict by itself does not export the offset (the enclosing Sequence does): for a bare SeqView only "
    "value / length / strand are observed",
]

ROUTES = ("json", "rich", "pickle", "copy", "deepcopy", "file")


def generate(ctx):
    """translator step (wave 2): registry / dispatch loop / emitted type strings -> Gen/C10Registry.lean"""
    from . import c10_registry

    return c10_registry.generate(ctx)


# --------------------------------------------------------------------------
# the round trip itself
# --------------------------------------------------------------------------
def roundtrip(x, route, scratch=None):
    from cogent3.util.deserialise import deserialise_object

    if route == "json":
        txt = x.to_json() if hasattr(x, "to_json") else json.dumps(x.to_rich_dict())
        return deserialise_object(json.loads(txt))
    if route == "rich":
        return deserialise_object(x.to_rich_dict())
    if route == "pickle":
        return pickle.loads(pickle.dumps(x))
    if route == "copy":
        return x.copy(sliced=True)
    if route == "deepcopy":
        return copy.deepcopy(x)
    if route == "file":
        # write the JSON to a file and load it back by PATH (deserialise_object opens the file itself)
        import os
        import tempfile

        fd, path = tempfile.mkstemp(suffix=".json", dir=str(scratch) if scratch else None)
        try:
            with os.fdopen(fd, "w") as out:
                out.write(x.to_json() if hasattr(x, "to_json") else json.dumps(x.to_rich_dict()))
            return deserialise_object(path)
        finally:
            os.unlink(path)
    raise ValueError(route)


def variant_of(rec):
    fam = rec["family"]
    if fam == "seq":
        return rec["impl"]
    if fam == "coll":
        return rec["kind"]
    if fam == "collseq":
        return rec["coll"]["kind"]
    if fam == "db":
        return rec["kind"]
    if fam == "result":
        return rec["kind"]
    return ""


def _small(x):
    return x if len(str(x)) < 600 else "(observation of the original)"


def check_one(ctx, rec, route, info=None, cache=None):
    """(`info`, if given, receives `state`: the view-state class of the built object; `cache`, if given, keeps the built
    object of this recipe across routes — used only for substitution models, immutable and expensive to build (codon models);
    "the original is unchanged" is still checked after every route)
    returns None (holds) | ('skip', why) | [failure tuple (sig, what, expected, got), ...] — one per observed FIELD
    that differs, so that a listed finding about one field can never hide a difference in another field"""
    from . import c10_gen as G
    from . import c10_hist as H

    try:
        if cache is not None and "x" in cache:
            x = cache["x"]
        else:
            x = H.build(copy.deepcopy(rec), ctx.scratch)
            if cache is not None:
                cache["x"] = x
        if x is None:
            return ("skip", "history yields None")
        before = G.canon(G.observe(x))
        if info is not None:
            info["state"] = H.view_state_class(x)
    except Exception as e:  # the history itself is not executable on this tree: not a round-trip statement
        return ("skip", f"build:{type(e).__name__}")
    fam, var = rec["family"], variant_of(rec)
    try:
        y = roundtrip(x, route, ctx.scratch)
    except Exception as e:
        return [(f"{fam}/{var}:{route}:raised:{type(e).__name__}", f"{route} round trip raised {type(e).__name__}: {str(e)[:160]}", _small(before), {"exc": type(e).__name__})]
    try:
        after = G.canon(G.observe(y))
    except Exception as e:
        return [(f"{fam}/{var}:{route}:unobservable:{type(e).__name__}", f"rebuilt object cannot be observed: {type(e).__name__}: {str(e)[:160]}", _small(before), {"exc": type(e).__name__})]
    tol = 1e-6 if fam in ("lf",) or (fam == "result" and rec["kind"] in ("model", "hypothesis", "model_collection", "bootstrap")) else 1e-12
    ds = G.diff_all(before, after, tol)
    fails, seen = [], set()
    for path, ea, eb in ds:
        fld = G.field_of(path)
        if fld in seen:
            continue
        seen.add(fld)
        fails.append((f"{fam}/{var}:{route}:{fld}", f"{route} round trip differs at {path}", _small(ea), _small(eb)))
    if fails:
        return fails
    # the original must not have been changed by serialising it
    again = G.canon(G.observe(x))
    for path, ea, eb in G.diff_all(before, again, tol):
        fld = G.field_of(path)
        if fld in seen:
            continue
        seen.add(fld)
        fails.append((f"{fam}/{var}:{route}:mutates-original:{fld}", f"{route} changed the ORIGINAL object at {path}", _small(ea), _small(eb)))
    return fails or None


# --------------------------------------------------------------------------
# spec_check: the history-driven round-trip oracle over the registry
# --------------------------------------------------------------------------
QUICK_N = dict(
    seq=140, seqstate=160, collseqstate=45, seqview=50, coll=60, aligned=35, collseq=35, newcoll=35, newcollseq=45, seqsdata=12, tree=60, table=50,
    dictarray=40, distmat=25, alphabet=25, moltype=6, newalphabet=30, indelmap=60, featuremap=60, db=14, model=14,
    lf=24, nc=30, result=30,
)


def registry():
    """the live registry of util/deserialise.py after importing every module that registers"""
    import cogent3  # noqa
    import cogent3.app.composable  # noqa
    import cogent3.app.result  # noqa
    import cogent3.core.annotation_db  # noqa
    import cogent3.core.location  # noqa
    import cogent3.core.new_alignment  # noqa
    import cogent3.core.new_alphabet  # noqa
    import cogent3.core.new_sequence  # noqa
    import cogent3.evolve.models  # noqa
    from cogent3.util import deserialise

    return dict(deserialise._deserialise_func_map)


def spec_check(ctx, budget):
    from . import c10_hist as H

    out = new_outcome(
        "round-trip oracle: for every family of registered serialisable types, seeded recipes (object + history: slices, rc, "
        "strides, offsets, features, rename/deepcopy/to_moltype/take_seqs/take_positions/degap, tree edits incl. root and internal "
        "lengths/params, table ops incl. formats, re-scoped/bounded/constant/time-het/bins/loci lf after optimise(5), results holding "
        "them, NotCompleted with nested origin/source ...) plus a regression corpus are replayed on the real "
        "classes and x is compared with deserialise_object(json.loads(x.to_json())), deserialise_object(x.to_rich_dict()), "
        "pickle.loads(pickle.dumps(x)) and x.copy(sliced=True) through the fixed observation function; "
        "non-trivial = distinct (recipe, route) whose history is non-empty and whose round trip was compared"
    )
    reg = registry()
    missing = [k for k in reg if not any(f in H.FAMILIES for f in H.COVERS.get(k, []))]
    note = f"registry has {len(reg)} type keys; no generator for: {missing or 'none'}"
    if note not in ctx.notes:
        ctx.notes.append(note)
    bump(out, "registry_keys", len(reg))
    for k in reg:
        bump(out, "registry_covered_by", ",".join(f for f in H.COVERS.get(k, ["(none)"]) if f in H.FAMILIES) or "(none)")
    known = load_known(PROP)
    kept_per_known = {}

    def record(rec, route, fails, prefix=""):
        for sig, what, exp, got in fails:
            sig = prefix + sig
            bump(out, "failed", sig)
            # keep every failure that no listed finding explains; of the explained ones keep a few per finding,
            # so that the bounded failure list can never crowd out an unexplained failure
            probe = dict(sig=sig, what=what, got=got, input=dict(recipe=rec, route=route))
            hit = next((k["id"] for k in known if match_finding(probe, k)), None)
            if hit is not None:
                kept_per_known[hit] = kept_per_known.get(hit, 0) + 1
                bump(out, "explained_by", hit)
                if kept_per_known[hit] > 4:
                    continue
            add_failure(out, "spec", what, dict(recipe=rec, route=route), exp, got, confirmed=True, sig=sig, maxkeep=400)

    # 1. regression corpus: witnesses of REPAIRED findings and past failures (seeded regressions, minimised violations).
    #    They must hold now; a failure gets a `regression:` signature that no known finding can match.
    for ent in corpus_entries():
        for route in ent["routes"]:
            r = check_one(ctx, ent["recipe"], route)
            out["evaluations"] += 1
            if r is None:
                bump(out, "corpus", "holds")
                out["nontrivial"].add(("corpus", ent["id"], route))
            elif r[0] == "skip":
                bump(out, "corpus", f"skipped:{r[1]}")
            else:
                bump(out, "corpus", "REGRESSION")
                record(ent["recipe"], route, r, prefix=f"regression:{ent['id']}:")
    # 2. witnesses of the OPEN findings: every field that differs is reported, not only the one the finding is about
    for k in known:
        w = k.get("witness")
        if w:
            r = check_one(ctx, w["recipe"], w["route"])
            out["evaluations"] += 1
            if isinstance(r, list):
                record(w["recipe"], w["route"], r)
    # 3. seeded histories
    for fam, (gen, routes) in H.FAMILIES.items():
        rng = ctx.subrng(f"spec:{fam}:{budget}")
        n = max(2, int(QUICK_N[fam] * budget * (1.0 if ctx.thorough else 0.75)))
        for i in range(n):
            if fam == "lf":
                # every 4th recipe puts a branch length on exactly 0.0, cycling through the API routes that lead there
                # (value= / init= / clamped by upper=0 / constant then freed / constant); the others by seeded choice
                rec = gen(rng, optimise=(i % 3 == 2), boundary=(["value", "init", "clamp", "free", "const"][(i // 4) % 5] if i % 4 == 1 else None))
            elif fam == "result":
                rec = gen(rng, heavy=(i % 3 == 2))
            elif fam == "seqstate":
                rec = gen(rng, index=i)  # the deterministic state box first, then seeded random histories
            else:
                rec = gen(rng)
            cache = {} if fam == "model" else None
            for ri, route in enumerate(routes):
                info = {}
                r = check_one(ctx, rec, route, info, cache)
                out["evaluations"] += 1
                if ri == 0 and info.get("state"):
                    # which view-state classes the histories END in (read off the built object): the export code
                    # re-bases from (start, stop, step, offset), so coverage is counted per state class, per kind of object
                    bump(out, "view_state", f"{fam}>{rec['family']}/{variant_of(rec)}:{info['state']}")
                if r is None:
                    bump(out, "held", f"{fam}:{route}")
                    bump(out, "history", rec.get("hclass", ""))
                    if rec.get("ops") or rec.get("hclass") not in ("fresh", "", None):
                        out["nontrivial"].add((json.dumps(rec, sort_keys=True), route))
                    if len(out["samples"]) < 40 and rec.get("ops") and i % 7 == 0 and not any(s.get("family") == fam for s in out["samples"]):
                        out["samples"].append(dict(family=fam, route=route, recipe=rec, verdict="equal"))
                elif r[0] == "skip":
                    bump(out, "skipped", f"{fam}:{r[1]}")
                else:
                    record(rec, route, r)
    return out


def corpus_entries():
    """[{id, recipe, routes}] = witnesses of entries marked `fixed` in known_findings.d/C10.json + corpus/C10/*.json"""
    from .common import VERIF

    res = []
    fp = VERIF / "known_findings.d" / "C10.json"
    if fp.exists():
        for k in json.loads(fp.read_text()).get("findings", []):
            if k.get("status") == "fixed" and k.get("witness"):
                w = k["witness"]
                res.append(dict(id=k["id"], recipe=w["recipe"], routes=[w["route"]] + list(w.get("also_routes", []))))
    for f in sorted((VERIF / "corpus" / "C10").glob("*.json")):
        for ent in json.loads(f.read_text()):
            res.append(dict(id=ent["id"], recipe=ent["recipe"], routes=ent["routes"]))
    return res


# --------------------------------------------------------------------------
# correspondence: Lean model vs the real to_rich_dict / from_rich_dict / copy / deserialisers
# --------------------------------------------------------------------------
_PCHARS = "ABCDEFGHIJKLMNOPQRSTUVWXYZabcdefghijklmnopqrstuvwxyz"  # distinct characters: position i <-> _PCHARS[i]


def _parent(n):
    return _PCHARS[:n]


def _idx(s):
    return [_PCHARS.index(c) for c in s]


def _vstate(v):
    d = dict(start=v.start, stop=v.stop, step=v.step, offset=v.offset, seq_len=v.seq_len)
    for k in ("parent_start", "parent_stop"):
        try:
            d[k] = int(getattr(v, k))
        except AssertionError:
            d[k] = {"err": "AssertionError"}
    return d


def _real_pair(v, value_attr):
    return dict(seq=_idx(v.seq), view=_vstate(v), value=_idx(getattr(v, value_attr)))


def _chains(ctx, rng, nrand):
    cases = []
    args = [None, -7, -3, -1, 0, 1, 2, 4, 7]
    for n in range(0, 6):
        for a, b, c in itertools.product(args, args, [None, 1, 2, -1, -2, 3, -3]):
            cases.append((n, (a, b, c), [], rng.choice([0, 0, 4])))
    def ra(n):
        r = rng.random()
        return None if r < 0.2 else rng.randint(-n - 2, n + 2)
    for _ in range(nrand):
        n = rng.choice([0, 1, 2, 3, 5, 8, 13, 21, 30])
        init = (ra(n), ra(n), rng.choice([None, 1, 1, 2, 3, -1, -1, -2, -3]))
        ops = [(ra(n), ra(n), rng.choice([None, 1, 2, 3, -1, -1, -2])) for _ in range(rng.randint(0, 4))]
        cases.append((n, init, ops, rng.choice([0, 0, 3, 17])))
    return cases


def correspondence(ctx):
    from cogent3.core import new_alignment, new_moltype, new_sequence, sequence
    from cogent3.core.location import FeatureMap, IndelMap
    from cogent3.util.deserialise import deserialise_object

    import cogent3
    import numpy

    out = new_outcome(
        "view export/re-basing: exhaustive constructor box (n<=5) + seeded random slice chains (depth<=4, n<=30, offsets) run through "
        "old/new SeqView.to_rich_dict, copy(sliced=True), Sequence JSON round trip and copy, SeqDataView export, compared field by field "
        "(truncated parent positions, start/stop/step/offset/seq_len, parent_start/stop, displayed positions, raised error) with the Lean model; "
        "IndelMap / FeatureMap constructor -> rich dict -> back and pickle vs the model; Sequence(SeqDataView) JSON round trip vs seqRoundtripDataView; "
        "tree rich dict: postorder node records of real trees (recipes of the oracle + in-place renames into duplicate / reserved / root spellings) -> "
        "edge_attributes keys and the node records of the deserialised tree vs Model/TreeRich; non-trivial = distinct case whose view is non-empty or raises / tree with > 1 node"
    )
    rng = ctx.subrng("corr")
    text_mt = new_moltype.get_moltype("text")
    alpha = text_mt.most_degen_alphabet()
    cases = _chains(ctx, rng, ctx.budget(1500, 40000))
    reqs, reals, metas = [], [], []

    def push(path, n, st, real, meta):
        reqs.append(("rebase", dict(n=n, path=path, **{k: st[k] for k in ("start", "stop", "step", "offset", "seq_len")})))
        reals.append(real)
        metas.append(meta)

    def guarded(f):
        try:
            return f()
        except ValueError:
            return {"err": "ValueError"}
        except AssertionError:
            return {"err": "AssertionError"}
        except IndexError:
            return {"err": "IndexError"}

    for n, init, ops, off in cases:
        parent = _parent(n)
        meta = dict(n=n, init=init, ops=ops, offset=off)
        for impl in ("old", "new"):
            try:
                if impl == "old":
                    v = sequence.SeqView(seq=parent, start=init[0], stop=init[1], step=init[2], offset=off)
                else:
                    v = new_sequence.SeqView(seq=parent, alphabet=alpha, start=init[0], stop=init[1], step=init[2], offset=off)
                for a, b, c in ops:
                    v = v[slice(a, b, c)]
            except (ValueError, IndexError):
                continue
            st = _vstate(v)
            if st["seq_len"] != n:  # _zero_slice changed the parent: re-base on its own (empty) parent
                continue
            val = "value" if impl == "old" else "str_value"
            m = dict(meta, impl=impl)
            rd = v.to_rich_dict()["init_args"]
            push("view_rich", n, st, dict(seq=_idx(rd["seq"]), step=rd["step"]), dict(m, what="to_rich_dict"))
            if len(v) == 0:
                # a Sequence built from an EMPTY view is falsy for the constructors, which start again from "" (glue outside
                # the view model; an empty sequence has no coordinates to preserve). View-level paths below still cover it.
                if impl == "old":
                    push("view_from_rich", n, st, guarded(lambda: _real_pair(v.copy(sliced=True), val)), dict(m, what="SeqView.copy(sliced=True)"))
                else:
                    push("view_copy_new", n, st, guarded(lambda: _real_pair(v.copy(sliced=True), val)), dict(m, what="SeqView.copy(sliced=True)"))
                continue
            if impl == "old":
                push("view_from_rich", n, st, guarded(lambda: _real_pair(v.copy(sliced=True), val)), dict(m, what="SeqView.copy(sliced=True)"))
                mk = lambda vv: cogent3.make_seq(vv, name="s", moltype="text")
                push("old", n, st, guarded(lambda: _real_pair(deserialise_object(json.loads(mk(v.copy()).to_json()))._seq, val)), dict(m, what="Sequence json"))
                push("copy_old", n, st, guarded(lambda: _real_pair(mk(v.copy()).copy(sliced=True)._seq, val)), dict(m, what="Sequence.copy"))
            else:
                push("view_copy_new", n, st, guarded(lambda: _real_pair(v.copy(sliced=True), val)), dict(m, what="SeqView.copy(sliced=True)"))
                mk = lambda vv: text_mt.make_seq(seq=vv, name="s")
                push("new", n, st, guarded(lambda: _real_pair(deserialise_object(json.loads(mk(v.copy()).to_json()))._seq, val)), dict(m, what="Sequence json"))
                push("copy_new", n, st, guarded(lambda: _real_pair(mk(v.copy()).copy(sliced=True)._seq, val)), dict(m, what="Sequence.copy"))
        # SeqDataView (sequence inside a new-style collection); offset is always 0 there
        if n > 0:
            sd = new_alignment.SeqsData(data={"a": parent}, alphabet=alpha)
            try:
                dv = new_alignment.SeqDataView(seq=sd, seqid="a", seq_len=n, start=init[0], stop=init[1], step=init[2])
                for a, b, c in ops:
                    dv = dv[slice(a, b, c)]
            except (ValueError, IndexError):
                continue
            st = _vstate(dv)
            rd = guarded(lambda: dv.to_rich_dict()["init_args"])
            if "err" not in rd:
                rd = dict(seq=_idx(rd["seq"]), step=rd["step"], offset=rd["offset"])
            push("dataview_rich", n, st, rd, dict(meta, impl="sdv", what="SeqDataView.to_rich_dict"))
            if len(dv) > 0:
                # the Sequence a new-style collection hands out (SeqDataView inside) through JSON: Sequence.to_rich_dict ->
                # SeqDataView.to_rich_dict -> _moltype_seq_from_rich_dict (model: seqRoundtripDataView; theorem dataview_roundtrip_partial)
                mk = lambda vv: text_mt.make_seq(seq=vv, name="a", check_seq=False)  # as SeqsData.__getitem__ does
                push("dataview", n, st, guarded(lambda: _real_pair(deserialise_object(json.loads(mk(dv).to_json()))._seq, "str_value")), dict(meta, impl="sdv", what="Sequence(SeqDataView) json"))

    # _coerce_to_seqview(SeqView, ..., annotation_offset) on its own: the ValueError branch (view offset AND annotation offset)
    # is no longer reachable through the repaired copy/JSON routes, so it is tied directly (both modules)
    for n, off, aoff in itertools.product([0, 3, 6], [0, 2, 7], [0, 1, 5]):
        for impl in ("old", "new"):
            if impl == "old":
                v = sequence.SeqView(seq=_parent(n), offset=off)
                f = lambda: _vstate(sequence._coerce_to_seqview(v, "s", True, None, aoff))
            else:
                v = new_sequence.SeqView(seq=_parent(n), alphabet=alpha, offset=off)
                f = lambda: _vstate(new_sequence._coerce_to_seqview(v, "s", alpha, aoff))
            st = _vstate(v)
            reqs.append(("coerce", dict(annotation_offset=aoff, path="coerce", **{k: st[k] for k in ("start", "stop", "step", "offset", "seq_len")})))
            reals.append(guarded(f))
            metas.append(dict(n=n, init=(None, None, None), ops=[], offset=off, impl=impl, what=f"_coerce_to_seqview(annotation_offset={aoff})"))
    model = ctx.driver.batch(reqs)
    # The model mirrors the code as it is NOW. One modelled branch still loses information (SeqDataView.to_rich_dict,
    # `dataview_export_partial` / `_counter`): if the implementation is repaired it must agree with the branch the
    # full-strength statement is about (`view_rich`) instead.
    REPAIRED = {"dataview_rich": "view_rich", "dataview": "new"}
    alt_idx = [i for i, (c, rq) in enumerate(reqs) if rq["path"] in REPAIRED]
    alts = dict(zip(alt_idx, ctx.driver.batch([("rebase", dict(reqs[i][1], path=REPAIRED[reqs[i][1]["path"]])) for i in alt_idx])))
    for i, ((cmd, rq), real, mod, meta) in enumerate(zip(reqs, reals, model, metas)):
        out["evaluations"] += 1
        bump(out, "path", rq["path"])
        if real != mod and i in alts:
            alt = alts[i]
            if rq["path"] == "dataview_rich" and isinstance(real, dict) and "seq" in real:
                alt = dict(alt, offset=mod.get("offset"))
            if real == alt:
                bump(out, "repaired_branch", rq["path"])
                continue
        if real != mod:
            add_failure(out, "corr", f"re-basing model differs from {meta['impl']} {meta['what']}", dict(meta, view={k: rq[k] for k in ("start", "stop", "step", "offset", "seq_len")}, path=rq["path"]), mod, real, confirmed=False)
            continue
        if isinstance(real, dict) and ("err" in real or real.get("seq") or real.get("value") or (rq["path"] == "coerce" and real.get("offset"))):
            out["nontrivial"].add((rq["path"], meta["impl"], meta["n"], str(meta["init"]), str(meta["ops"]), meta["offset"]))
        bump(out, "result", "raises" if "err" in real else ("nonempty" if real.get("seq") else "empty"))
        if len(out["samples"]) < 6 and meta["ops"] and real.get("seq") and rq["step"] not in (1,) and out["evaluations"] % 97 == 0:
            out["samples"].append(dict(meta, path=rq["path"], view=rq, rebuilt=real))

    # ---- maps
    mreqs, mreals, mmetas = [], [], []
    for _ in range(ctx.budget(1000, 20000)):
        k = rng.randint(0, 4)
        plen = rng.randint(0, 12)
        pos = sorted(rng.sample(range(0, plen + 3), min(k, plen + 3)))
        lens = [rng.randint(1, 4) for _ in pos]
        if rng.random() < 0.1 and lens:
            lens = lens[:-1]  # malformed: length mismatch
        use_len = rng.random() < 0.5
        tu = rng.random() < 0.2
        cum = list(itertools.accumulate(lens))
        rq = dict(gap_pos=pos, cum=None if use_len else cum, lengths=lens if use_len else None, termini_unknown=tu, parent_length=plen)
        try:
            m = IndelMap(gap_pos=numpy.array(pos, dtype=int), termini_unknown=tu, parent_length=plen, **({"gap_lengths": numpy.array(lens, dtype=int)} if use_len else {"cum_gap_lengths": numpy.array(cum, dtype=int)}))
            rd = m.to_rich_dict()
            rich = dict(gap_pos=rd["gap_pos"], cum_gap_lengths=rd["cum_gap_lengths"], termini_unknown=bool(rd["termini_unknown"]), parent_length=rd["parent_length"])
            b = IndelMap.from_rich_dict(json.loads(json.dumps(rd)))
            st = lambda z: dict(gap_pos=z.gap_pos.tolist(), cum_gap_lengths=z.cum_gap_lengths.tolist(), termini_unknown=bool(z.termini_unknown), parent_length=int(z.parent_length))
            real = dict(built=st(m), rich=rich, back=st(b))
        except ValueError:
            real = {"err": "ValueError"}
        mreqs.append(("indel", rq))
        mreals.append(real)
        mmetas.append(rq)
    from .c10_hist import _mk_span

    def sstate(s):
        if s.lost:
            return dict(length=int(s.length))
        return dict(start=int(s.start), end=int(s.end), tidy_start=bool(s.tidy_start), tidy_end=bool(s.tidy_end), reverse=bool(s.reverse))

    def fstate(m):
        return dict(spans=[sstate(s) for s in m.spans], parent_length=int(m.parent_length), length=len(m))

    for _ in range(ctx.budget(1000, 20000)):
        plen = rng.randint(0, 20)
        spans = []
        for _ in range(rng.randint(0, 4)):
            if rng.random() < 0.25:
                spans.append(dict(length=rng.randint(0, 5)))
            else:
                a = rng.randint(0, 20)
                e = rng.choice([None, rng.randint(0, 20)])
                spans.append(dict(start=a, end=e, tidy_start=rng.random() < 0.2, tidy_end=rng.random() < 0.2, reverse=rng.random() < 0.3))
        m = FeatureMap(spans=[_mk_span(d) for d in spans], parent_length=plen)
        j = FeatureMap.from_rich_dict(json.loads(json.dumps(m.to_rich_dict())))
        p = pickle.loads(pickle.dumps(m))
        mreqs.append(("fmap", dict(spans=spans, parent_length=plen)))
        mreals.append(dict(built=fstate(m), json=fstate(j), pickle=fstate(p)))
        mmetas.append(dict(spans=spans, parent_length=plen))
    # live map STATES through the current JSON route and pickle (FeatureState.roundtripJsonLive / roundtripPickle, theorems
    # featurestate_json_live_roundtrip / featuremap_pickle_roundtrip): the state is read off the object AFTER a history
    # (constructor, optionally zeroed() which shifts the spans in place), so it is not in constructor-argument form
    for _ in range(ctx.budget(800, 15000)):
        plen = rng.randint(0, 20)
        spans = []
        for _ in range(rng.randint(0, 4)):
            if rng.random() < 0.25:
                spans.append(dict(length=rng.randint(0, 5)))
            else:
                a = rng.randint(0, 20)
                e = rng.choice([None, rng.randint(0, 20)])
                spans.append(dict(start=a, end=e, tidy_start=rng.random() < 0.2, tidy_end=rng.random() < 0.2, reverse=rng.random() < 0.3))
        m = FeatureMap(spans=[_mk_span(d) for d in spans], parent_length=plen)
        hist = "built"
        if rng.random() < 0.6 and any("length" not in d for d in spans):
            try:
                m = m.zeroed()
                hist = "zeroed"
            except Exception:
                pass
        live = fstate(m)
        j = FeatureMap.from_rich_dict(json.loads(json.dumps(m.to_rich_dict())))
        p = pickle.loads(pickle.dumps(m))
        mreqs.append(("fstate", dict(spans=live["spans"], parent_length=live["parent_length"], length=live["length"])))
        mreals.append(dict(json_live=fstate(j), pickle=fstate(p)))
        mmetas.append(dict(spans=live["spans"], parent_length=live["parent_length"], history=hist))
        bump(out, "fstate_history", hist)
    # ---- tree rich dict (Model/TreeRich.lean, theorems of Props/C10Tree.lean): real trees from the tree recipes of the
    # oracle (+ in-place renames into the builder's reserved / duplicate / root spellings, which the model mirrors too),
    # flattened to their postorder node records; compared: keys of edge_attributes in order, and the node records of
    # deserialise_object(json.loads(t.to_json())). Names that need newick quoting / tokenising are outside the model's
    # abstraction (the newick TEXT is not modelled) and are counted, not compared.
    import re

    from . import c10_hist as H

    plain = re.compile(r"^[A-Za-z0-9_.\-]+$")
    enc = lambda v: json.dumps(G_canon(v), sort_keys=True)

    def flatten(t):
        recs = []
        for e in t.get_edge_vector(include_root=True):
            ps = dict(e.params)
            ln = ps.pop("length", None)  # a node without the key has `.length` None, as a freshly parsed one
            # a node whose name is None (bifurcating() inserts such nodes) prints "" like a node named "": encoded as ""
            recs.append(dict(name="" if e.name is None else str(e.name), length=None if ln is None else enc(ln), params=sorted([str(k), enc(v)] for k, v in ps.items()), arity=len(e.children)))
        return recs

    from .c10_gen import canon as G_canon

    trng = ctx.subrng("corr:tree")
    for i in range(ctx.budget(400, 6000)):
        rec = H.gen_tree(trng, safe=(i % 2 == 0))
        try:
            t = H.build(copy.deepcopy(rec), ctx.scratch)
            if trng.random() < 0.3:
                nodes = t.get_edge_vector(include_root=True)
                tgt = trng.choice(nodes)
                tgt.name = trng.choice(["edge", "edge.0", "edge.1", "root", "x.2", trng.choice(nodes).name, trng.choice(nodes).name + ".2"])
                rec = dict(rec, ops=rec["ops"] + [["rename_any", tgt.name]])
            nodes = flatten(t)
        except Exception as e:
            bump(out, "tree_rich", f"skipped:build:{type(e).__name__}")
            continue
        if not all(n["name"] == "" or plain.match(n["name"]) for n in nodes):
            bump(out, "tree_rich", "skipped:name-needs-newick-quoting")
            continue
        try:
            rd = t.to_rich_dict()
            real = dict(attr_keys=["" if k is None else str(k) for k in rd["edge_attributes"]], back=flatten(deserialise_object(json.loads(t.to_json()))))
        except Exception as e:
            bump(out, "tree_rich", f"skipped:raises:{type(e).__name__}")
            continue
        names = [n["name"] for n in nodes]
        cls = "wf" if len(set(names)) == len(names) and names[-1] == "root" and "edge" not in names and "" not in names else (
            "duplicate-names" if len(set(names)) != len(names) else ("named-root" if names[-1] != "root" else "reserved-name"))
        bump(out, "tree_rich", cls)
        mreqs.append(("tree_rich", dict(nodes=nodes)))
        mreals.append(real)
        mmetas.append(dict(recipe=rec, nodes=nodes, cls=cls))
    for (cmd, rq), real, mod in zip(mreqs, mreals, ctx.driver.batch(mreqs)):
        out["evaluations"] += 1
        bump(out, "path", cmd)
        if cmd == "tree_rich":
            mod = dict(attr_keys=mod["attr_keys"], back=mod["back"])
        if real != mod:
            add_failure(out, "corr", f"{cmd} map model differs from the implementation", rq, mod, real, confirmed=False)
        elif cmd == "tree_rich":
            if len(rq["nodes"]) > 1:
                out["nontrivial"].add((cmd, json.dumps(rq, sort_keys=True)))
        elif "err" in real or rq.get("gap_pos") or rq.get("spans"):
            out["nontrivial"].add((cmd, json.dumps(rq, sort_keys=True)))
    # wave 2: translated registry / dispatch loop / emitted type strings vs the live package
    from . import c10_registry

    c10_registry.registry_corr(ctx, out)
    c10_registry.coll_corr(ctx, out)
    c10_registry.get_class_corr(ctx, out)
    return out


# --------------------------------------------------------------------------
# known findings
# --------------------------------------------------------------------------
def _tags(rec):
    t = set((rec.get("hclass") or "").replace(":", "+").split("+"))
    for k in ("coll", "aln"):
        if isinstance(rec.get(k), dict):
            t |= _tags(rec[k])
    return t


PREDICATES = {
    # the view carries an offset: given at construction, or attached by an earlier copy(sliced=True) in the history
    "seq_has_offset": lambda rec: bool(rec.get("offset")) or any(o[0] == "copy" for o in rec.get("ops", [])),
    "view_not_plain": lambda rec: bool(rec.get("ops")) or any(o[0] == "rc" for o in rec.get("coll", {}).get("ops", [])),
    "lf_named": lambda rec: bool(rec.get("name")),
    # an alignment-level (on_alignment=True) feature on an alignment that was then sliced / reverse complemented
    "aln_feature_and_view": lambda rec: any(f.get("on_alignment") for f in rec.get("features", [])) and any(o[0] in ("s", "rc") for o in rec.get("ops", [])),
    "model_in": lambda rec, names=(): rec.get("name") in names,
}


def match_finding(f, k):
    if f.get("sig") not in k.get("sigs", []):
        return False
    r = k.get("restrict") or {}
    inp = f.get("input") or {}
    rec = inp.get("recipe") or {}
    tags = _tags(rec)
    if r.get("needs_tags") and not set(r["needs_tags"]) <= tags:
        return False
    if r.get("any_tags") and not (set(r["any_tags"]) & tags):
        return False
    if r.get("pred"):
        if not PREDICATES[r["pred"]](rec):
            return False
    if r.get("model_names") and rec.get("name") not in r["model_names"]:
        return False
    if r.get("forbid_tags") and (set(r["forbid_tags"]) & tags):
        return False
    if r.get("what_contains") and r["what_contains"] not in (f.get("what") or ""):
        return False
    if "got" in r and f.get("got") != r["got"]:
        return False
    return True


def check_witness(ctx, w):
    """replays an OPEN finding's witness; returns the failure about the finding's own field if it is still there
    (every other differing field of the witness is reported by spec_check itself)"""
    r = check_one(ctx, w["recipe"], w["route"])
    if not isinstance(r, list):
        return None
    want = w.get("sig")
    pick = next((x for x in r if x[0] == want), None) if want else None
    pick = pick or r[0]
    out = new_outcome()
    add_failure(out, "spec", pick[1], dict(recipe=w["recipe"], route=w["route"]), pick[2], pick[3], confirmed=True, sig=pick[0])
    return out["failures"][0]


def replay(ctx, data):
    f = data.get("failing_input") or {}
    inp = f.get("input") or {}
    if "recipe" not in inp:
        return False
    r = check_one(ctx, inp["recipe"], inp["route"])
    if isinstance(r, list):
        for x in r:
            print("replay:", x[0], "|", x[1], "| expected", str(x[2])[:300], "| got", str(x[3])[:300])
        return True
    print("replay:", r)
    return False
